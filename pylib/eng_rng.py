"""rng engine: C06 (same seed, same result; random streams are isolated).

Three parts besides the proof obligations:
 (1) provider construction cases: harness/rng.cpp (an engine type that records
     the seed each stream's generator received) against the extracted model;
 (2) whole scenarios through harness/hostmodel.cpp in multi-stream mode: the
     hook events carry the identity of the generator object the code was
     handed, so "each process draws only from its own stream" is observed
     directly; the same scenario run twice in one process, interleaved with
     others, must give identical traces (no hidden state);
 (3) isolation, implementation against implementation: named seeds, vary the
     seed of a process that is disabled or made deterministic - identical traces.
"""
import os
import random
import re

import vcommon as vc
import gen_hostmodel as gen
import eng_hostmodel as eh
import monitors_hostmodel as mon

PROPERTIES = ["C06"]

STREAMS = ["disperser_generation", "natural_dispersal", "anthropogenic_dispersal", "establishment", "weather",
           "lethal_temperature", "movement", "overpopulation", "survival_rate", "soil"]

# documented stream of each logged outcome
EVENT_STREAM = {"establish": {"establishment"}, "pick": {"establishment"}, "generate": {"disperser_generation"},
                "soil_to": {"soil"}, "soil_from": {"soil"}, "okernel": {"overpopulation"}, "weather": {"weather"},
                "kernel": {"provider"},
                "draw": {"lethal_temperature", "survival_rate", "movement", "overpopulation", "soil"}}


def provider_cases(rng, n):
    cases = ["P single 42", "P multi 42", "P named -"]
    for _ in range(n):
        k = rng.random()
        if k < 0.2:
            cases.append("P single %d" % rng.randint(0, 2 ** 31 - 11))
        elif k < 0.45:
            cases.append("P multi %d" % rng.randint(0, 2 ** 31 - 11))
        else:
            names = list(STREAMS)
            rng.shuffle(names)
            if rng.random() < 0.4:
                names = names[:rng.randint(0, 9)]          # a missing named seed
            if rng.random() < 0.2:
                names.append("bogus_stream")
            if not names:
                cases.append("P named -")
                continue
            cases.append("P named " + ",".join("%s=%d" % (s, rng.randint(0, 10 ** 6)) for s in names))
    return cases


def with_seedmode(sc, mode_line):
    t = gen.Scenario()
    t.lines = [l for l in sc.lines if not l.startswith("seedmode")]
    t.lines.insert(len(t.lines) - 1, mode_line)
    t.meta = dict(sc.meta)
    return t


def named_line(rng, override=None):
    seeds = {s: rng.randint(1, 10 ** 6) for s in STREAMS}
    if override:
        seeds.update(override)
    return "seedmode named " + " ".join("%s=%d" % (s, seeds[s]) for s in STREAMS), seeds


def unused_streams(sc):
    """Streams whose process is disabled for the whole run or made deterministic."""
    kv = {}
    for l in sc.lines:
        t = l.split()
        kv[t[0]] = t[1:]
    out = ["weather"]           # the harness never draws weather from a distribution
    if kv["lethal"][0] == "0":
        out.append("lethal_temperature")
    if kv["survival"][0] == "0":
        out.append("survival_rate")
    if kv["overpop"][0] == "0":
        out.append("overpopulation")
    if kv["movements"][0] == "0":
        out.append("movement")
    if kv["soils"][0] == "0":
        out.append("soil")
    if kv["anthro"][0] == "0":
        out.append("anthropogenic_dispersal")
    if kv["stoch"][0] == "0" and kv["soils"][0] == "0":
        out.append("disperser_generation")     # generation made deterministic
    if kv["stoch"][1] == "0" and kv["hosts"][0] == "1" and kv["soils"][0] == "0":
        out.append("establishment")            # establishment made deterministic, no host pick
    if kv["stoch"][3] == "0" or kv["kernel"][0] == "deterministic-neighbor":
        out.append("natural_dispersal")        # dispersal made deterministic
    return out


def isolation_streams(sc):
    """Streams whose seed must not influence the results: the unused ones, plus streams of
    processes that run but were made deterministic by a switch."""
    kv = {}
    for l in sc.lines:
        t = l.split()
        kv[t[0]] = t[1:]
    out = unused_streams(sc)
    if kv["overpop"][0] == "1" and kv["stoch"][3] == "0" and kv["hosts"][0] == "1" and "overpopulation" not in out:
        # dispersal made deterministic: the overpopulation kernel is the deterministic one, and
        # with a single host the split of pests among hosts has one outcome
        out = out + ["overpopulation"] * 3      # weighted: this is the only way to see it
    return out


def check(ctx, replay=None):
    pid = ctx.pid
    ctx.proof = vc.prove(pid)
    if not ctx.proof.ok:
        ctx.broke("proof obligations of Properties_C06.v%s" % ((" (" + ctx.proof.failed_theorem + ")") if ctx.proof.failed_theorem else ""),
                  "\n".join(ctx.proof.problems) + "\n" + ctx.proof.log[-1500:])
    rng = random.Random(ctx.seed * 7 + 3)
    thorough = ctx.tier == "thorough"
    stats = {}
    # ---- (1) provider construction ----
    cases = [l for l in vc.read_cases(replay) if l.startswith("P ")] if replay else provider_cases(rng, 2000 if thorough else 200)
    if cases:
        cp = os.path.join(ctx.work, "provider.cases")
        open(cp, "w").write("\n".join(cases) + "\n")
        h, err = vc.build_harness("rng", sanitize=thorough)
        m, err2 = vc.build_model("rng")
        if err or err2:
            ctx.broke("rng harness / model build", (err or "") + (err2 or ""))
        else:
            ip, mp = os.path.join(ctx.work, "provider.impl"), os.path.join(ctx.work, "provider.model")
            vc.run_to_file([h, cp], ip)
            vc.run_to_file([m, cp], mp)
            n, diffs = vc.diff_outputs(ip, mp)
            stats["provider_cases"] = len(cases)
            if diffs:
                k, a, b = diffs[0]
                ctx.broke("correspondence provider model vs implementation (%d differing cases)" % len(diffs),
                          "case %s\nimpl : %s\nmodel: %s" % (cases[int(k)], a, b))
            # monitor: the documented behaviour, independently
            for k, line in enumerate(open(ip).read().split("\n")):
                if not line:
                    continue
                case = cases[k].split()
                out = line.split(" ", 1)[1]
                if case[1] == "single":
                    exp = all(("%s:general:%s" % (s, case[2])) in out for s in STREAMS) and "call ok" in out
                    if not exp:
                        ctx.violation("C06.single_seed", "single seed %s: %s" % (case[2], out[:200]), cases[k])
                elif case[1] == "multi" or (case[1] == "named" and case[2] == "-"):
                    s0 = int(case[2]) if case[1] == "multi" else 7
                    for i, s in enumerate(STREAMS):
                        if ("%s:%s:%d" % (s, s, s0 + i)) not in out:
                            ctx.violation("C06.seed_order", "single seed %d in multi-stream mode: stream %s not seeded with %d: %s" % (s0, s, s0 + i, out[:300]), cases[k])
                            break
                    if "call err:runtime_error" not in out or "discard err:runtime_error" not in out:
                        ctx.violation("C06.single_use_not_rejected", "a multi-stream provider used as one generator: %s" % out[-80:], cases[k])
                else:
                    given = dict(kv.split("=") for kv in case[2].split(","))
                    missing = [s for s in STREAMS if s not in given]
                    if missing:
                        if out != "err:invalid_argument":
                            ctx.violation("C06.missing_seed_not_rejected", "named seeds without %s accepted: %s" % (missing, out[:120]), cases[k])
                    else:
                        for s in STREAMS:
                            if ("%s:%s:%s" % (s, s, given[s])) not in out:
                                ctx.violation("C06.named_seed", "stream %s not seeded with its named seed %s: %s" % (s, given[s], out[:300]), cases[k])
                                break
    # ---- (2) and (3): scenarios in multi-stream mode ----
    if replay:
        txt = "".join(l for l in open(replay) if not l.startswith("#") and not l.startswith("P "))
        scenarios = []
        if "case " in txt:
            class S:
                def __init__(self, t):
                    self._t = t

                def text(self):
                    return self._t
            scenarios = [S(txt)]
        roles = [("replay", None)] * len(scenarios)
    else:
        base = gen.generate(ctx.seed + 500, 600 if thorough else 60)
        # soils hand generators to a second component (the soil pool) and release dispersers that
        # go through establishment again: a dedicated share of scenarios with soils
        base += gen.generate(ctx.seed + 900, 200 if thorough else 25, focus_weights=["soil"])
        base += gen.generate(ctx.seed + 1300, 200 if thorough else 25, focus_weights=["overpop", "det"])
        scenarios, roles = [], []
        for sc in base:
            mode = rng.random()
            if mode < 0.35:
                a = with_seedmode(sc, "seedmode multi")
                scenarios += [a]
                roles += [("multi", None)]
            else:
                line, seeds = named_line(rng)
                a = with_seedmode(sc, line)
                cand = isolation_streams(sc)
                s = rng.choice(cand)
                if cand.count("overpopulation") > 1 and rng.random() < 0.8:
                    s = "overpopulation"   # running but deterministic: the rarest and most telling case
                line2, _ = named_line(rng, dict(seeds, **{s: seeds[s] + rng.randint(1, 1000)}))
                # keep all other seeds: rebuild from the first line
                line2 = re.sub(r"\b%s=\d+" % s, "%s=%d" % (s, seeds[s] + 17), line)
                b = with_seedmode(sc, line2)
                scenarios += [a, b]
                roles += [("named", None), ("isolation_of", s)]
        # the same scenarios once more, after all the others ran in the same process
        again = [i for i, r in enumerate(roles) if r[0] in ("multi", "named")][:len(base) // 3]
        for i in again:
            scenarios.append(scenarios[i])
            roles.append(("again", i))
    if scenarios:
        res = eh.shared_run(ctx, scenarios, "rng_%s_%d" % (ctx.tier, ctx.seed) if not replay else "rng_replay")
        if res is not None:
            cases_p, impl_p, model_p = res
            blocks = eh.scenario_texts(cases_p)
            trace = eh.parse_trace(impl_p)
            ncmp, diffs = vc.diff_outputs(impl_p, model_p, relevant=lambda l: l.split(" ", 3)[2:3] != ["tape"])
            if diffs:
                k, a, b = diffs[0]
                ctx.broke("correspondence host model vs implementation in multi-stream mode (%d differing scenarios)" % len(diffs),
                          "first differing scenario #%s\nimpl : %s\nmodel: %s" % (k, (a or "")[:300], (b or "")[:300]))
            raw = {}
            for line in open(impl_p, errors="replace"):
                k, _, rest = line.rstrip("\n").partition(" ")
                raw.setdefault(int(k), []).append(rest)
            stats.update(scenarios=len(blocks), events=0, isolation_pairs=0, repeated=0, stream_names={})
            for k, text in enumerate(blocks):
                tr = trace.get(k)
                if tr is None:
                    continue
                sc = mon.Scenario(text)
                role = roles[k] if k < len(roles) else ("replay", None)
                enabled = set(STREAMS) - set(unused_streams_from_text(text, whole_run=True))
                for step, evs in tr.get("streams", {}).items():
                    prev_kind = None
                    for kind, stream in evs:
                        stats["events"] += 1
                        stats["stream_names"][stream] = stats["stream_names"].get(stream, 0) + 1
                        allowed = EVENT_STREAM.get(kind, set())
                        if stream not in allowed:
                            ctx.violation("C06.wrong_stream.%s.%s" % (kind, stream), "step %d: outcome '%s' was drawn from stream '%s', documented %s" % (step, kind, stream, sorted(allowed)), text)
                            break
                        if kind == "draw" and prev_kind == "soil_from" and stream != "soil":
                            ctx.violation("C06.wrong_stream.soil_draw.%s" % stream, "step %d: the soil cohort draw used stream '%s'" % (step, stream), text)
                            break
                        if stream in ("lethal_temperature", "survival_rate", "movement", "overpopulation", "soil") and stream not in enabled:
                            ctx.violation("C06.disabled_stream_used.%s" % stream, "step %d: stream '%s' was used although its process is disabled" % (step, stream), text)
                            break
                        prev_kind = kind
                if role[0] == "isolation_of":
                    stats["isolation_pairs"] += 1
                    if strip_case(raw.get(k, [])) != strip_case(raw.get(k - 1, [])):
                        ctx.violation("C06.isolation.%s" % role[1], "changing only the seed of stream '%s' (process disabled or deterministic) changed the results" % role[1], blocks[k - 1] + text)
                if role[0] == "again":
                    stats["repeated"] += 1
                    if strip_case(raw.get(k, [])) != strip_case(raw.get(role[1], [])):
                        ctx.violation("C06.not_reproducible", "the same scenario run again later in the same process gave different results", text)
    # ---- lint: no hidden state in the headers ----
    statics = []
    for p in vc.files_under(os.path.join(vc.REPO, "include"), (".hpp",)):
        txt = open(p, errors="replace").read()
        # drop the guarded instrumentation and comments (keeping line numbers)
        txt = re.sub(r"#ifdef POPS_CORE_VERIF.*?#endif", lambda m: "\n" * m.group(0).count("\n"), txt, flags=re.S)
        txt = re.sub(r"/\*.*?\*/", lambda m: "\n" * m.group(0).count("\n"), txt, flags=re.S)
        txt = re.sub(r"//[^\n]*", "", txt)
        if os.path.basename(p) == "verif_hooks.hpp":
            continue
        for m in re.finditer(r"(?<![A-Za-z_0-9])static\s+(?!_cast|cast)", txt):
            if re.match(r"static_cast|static_assert", txt[m.start():m.start() + 14]):
                continue
            # the declaration runs to the first ';' or '{' outside parentheses and template brackets
            i, depth, has_paren = m.end(), 0, False
            while i < len(txt):
                ch = txt[i]
                if ch == "(":
                    depth += 1
                    has_paren = True
                elif ch == ")":
                    depth -= 1
                elif depth == 0 and ch in ";{=":
                    break
                i += 1
            decl = " ".join(txt[m.start():i].split())
            term = txt[i] if i < len(txt) else ";"
            if has_paren and term == "{":
                continue            # a static member / free function with a body: no state
            if re.search(r"\b(const|constexpr)\b", decl.split("(")[0]):
                continue            # immutable
            line = txt.count("\n", 0, m.start()) + 1
            statics.append("%s:%d: %s;" % (os.path.basename(p), line, decl[:80]))
    # a function-local static that is only ever handed out as a reference to const is not state
    harmless = [x for x in statics if re.search(r"network\.hpp:\d+: static [^;=(]*\bempty;", x)]
    statics = [x for x in statics if x not in harmless]
    stats["mutable_statics"] = statics
    stats["const_ref_statics"] = harmless
    for x in statics:
        fname = x.split(":")[0]
        # keyed by file and NAME of the object (the spelling of its type may change)
        names = re.findall(r"[A-Za-z_]\w*", x.split(": ", 1)[1].split("=")[0].split("(")[0])
        decl = names[-1] if names else "object"
        ctx.violation("C06.hidden_state.static.%s.%s" % (fname, decl),
                      "non-const static object shared by every instance in the process: %s" % x, None)
    ctx.coverage.update({
        "evaluations": stats.get("provider_cases", 0) + stats.get("scenarios", 0),
        "distinct_nontrivial": len(set(cases)) + stats.get("isolation_pairs", 0),
        "rule": "provider cases: distinct case lines (non-trivial: multi-stream or named seeds); scenarios: whole Model::run_step runs in multi-stream mode, "
                "isolation pairs differ only in the seed of an unused stream, repeated scenarios run again after all others in the same process",
        "samples": cases[:3],
        "traces_validated_against_impl": stats.get("scenarios", 0),
        "monitor_stats": stats,
    })
    ctx.assumptions += ["which stream the dispersal kernels draw from is not observable through the hooks (the kernel is handed the provider)",
                        "determinism of libstdc++ engines and distributions for equal seeds is assumed"]


def strip_case(lines):
    return [l for l in lines]


def unused_streams_from_text(text, whole_run=True):
    sc = gen.Scenario()
    sc.lines = [l for l in text.split("\n") if l]
    return unused_streams(sc)
