"""Kernels engine: C13 (stochastic kernels draw the configured distance law in
the configured direction).

Proof obligations: coq/theories/Properties_C13.v over GeneratedKernelTables.v,
which translate/kernel_tables.py regenerates from the headers on every run.

Case kinds (one line each; harness/kernels.cpp and ocaml/drv_kernels.ml):
  exact correspondence model vs implementation, plus monitor
    N dir row col              neighbour kernel call
    T hex / D hex              kernel_type_from_string / direction_from_string
    M use elig pk uk bern      natural/anthropogenic choice with a controlled
                               generator: p = pk/16, u = (2*uk+1)/32, bern = u < p
    U rows cols seed n         min/max index ever returned by UniformDispersalKernel
    UF nat|ant rows cols seed n   the same through create_natural/anthro_kernel
    F nat|ant hex stochastic   kernel class chosen by the factory
    real kernels (LAND = rows cols ew ns edges: non-square raster, a network with one edge per
    pair of node cells r:c-r:c or `-`; CELLS = source cells, some with a node, some without):
    SW type flag movement LAND seed CELLS   hand-built SwitchDispersalKernel (flag 0|1|d): per cell
                               is_cell_eligible, the member kernel that produced the result
                               (the call is compared with each member kernel run alone from
                               the same generator state), exception
    SS type                    supports_kernel of the switch kernel and the five classes
    KE movement LAND CELLS     is_cell_eligible of the five real kernel classes
    FE nat|ant hex stochastic movement LAND CELLS   class and eligibility of the factory-built wrapper
    MX hand|cfg use pk uk bern type flag natkind movement LAND seed CELLS   the mix of REAL kernels
                               (two SwitchDispersalKernels / create_dynamic_kernel): eligibility of
                               the anthropogenic kernel inside the mix, which kernel ran, Bernoulli
                               draws consumed, exception
  implementation only (monitor; the real-valued model is not executable)
    G dir ew ns kernel scale shape seed n    kappa = 1e6: sign pattern and
                               |drow|*ns ~ |dcol|*ew for every draw
    GF / RF nat|ant ...        G / R through create_natural_kernel / create_anthro_kernel
    R kernel scale shape dir kappa ew ns seed n   distance reconstructed from the
                               offsets against the kernel's own cdf (banded KS), quadrants
    K kernel scale shape seed n    Kolmogorov-Smirnov of |random()| against the cdf
                               obtained by integrating the kernel's own pdf
    B p seed n                 frequency of the anthropogenic branch
The monitor below states the property in Python, independently of the Coq
model, and is evaluated on the implementation's output only.  K/R/B are
statistical TESTS with thresholds no correct implementation reaches; they
validate the modelled std distributions and provide failing inputs, they are
never the theorem.
"""
import math
import os
import random
import re

import vcommon as vc

PROPERTIES = ["C13"]

DIRS = ["N", "NE", "E", "SE", "S", "SW", "W", "NW"]
COMPASS = {"N": (-1, 0), "NE": (-1, 1), "E": (0, 1), "SE": (1, 1), "S": (1, 0), "SW": (1, -1), "W": (0, -1), "NW": (-1, -1)}
DEGREES = {"N": 0, "NE": 45, "E": 90, "SE": 135, "S": 180, "SW": 225, "W": 270, "NW": 315}
# enum DispersalKernelType in declaration order (documented in kernel_types.hpp)
KERNEL_ENUM = ["cauchy", "exponential", "uniform", "deterministic neighbor", "power law", "hyperbolic secant",
               "gamma", "exponential power", "weibull", "normal", "log normal", "logistic", "network", "none"]
RADIAL = {"cauchy": "cauchy", "exponential": "exponential", "weibull": "weibull", "normal": "normal",
          "lognormal": "log normal", "powerlaw": "power law", "hsecant": "hyperbolic secant", "gamma": "gamma",
          "exppower": "exponential power", "logistic": "logistic"}
# stable monitor keys of the distance-law clause
LAW_KEY = {"gamma": "C13.plumbing.gamma_scale", "powerlaw": "C13.quantile.power_law",
           "exppower": "C13.quantile.exponential_power"}
KS_LIMIT = 0.02


def hexs(s):
    return s.encode().hex() if s else "-"


def unhex(h):
    return "" if h == "-" else bytes.fromhex(h).decode(errors="replace")


# ---- specification of the name tables (independent of the code) ----
def normalize(s):
    return s.lower().replace("-", " ")


def kernel_spellings(name):
    """Spellings the documentation and the callers (rpops, r.pops.spread) use:
    lower case and capitalised, words joined by blank or hyphen."""
    out = set()
    words = name.split(" ")
    for sep in (" ", "-"):
        out.add(sep.join(words))
        out.add(sep.join([words[0].capitalize()] + words[1:]))
        out.add(sep.join(w.capitalize() for w in words))
    return sorted(out)


def expected_kernel(s):
    """index the name must map to if it is accepted; None = must be rejected;
    'any' = acceptance not prescribed (then, if accepted, must be this index)."""
    if s == "":
        return 13, True
    n = normalize(s)
    if n in KERNEL_ENUM:
        idx = KERNEL_ENUM.index(n)
        required = s in kernel_spellings(KERNEL_ENUM[idx]) or s in ("NONE",)
        return idx, required
    return None, False


def expected_direction(s):
    if s in DIRS:
        return DEGREES[s], True
    if s == "" or normalize(s) == "none":
        return "none", s in ("", "none", "None", "NONE")
    return None, False


# ---- generators ----
def mutate(rng, s):
    k = rng.randint(0, 7)
    if k == 0:
        return s.upper()
    if k == 1:
        return s + " "
    if k == 2:
        return " " + s
    if k == 3 and s:
        i = rng.randrange(len(s))
        return s[:i] + s[i + 1:]
    if k == 4:
        return s.replace(" ", "_").replace("-", "_") + ("_" if " " not in s and "-" not in s else "")
    if k == 5:
        return s.replace(" ", "")+("x" if " " not in s else "")
    if k == 6 and s:
        i = rng.randrange(len(s))
        return s[:i] + rng.choice("abcxyzQ") + s[i + 1:]
    return s.swapcase()


def gen_names(rng, thorough):
    cases = []
    acc = [""]
    for n in KERNEL_ENUM:
        acc += kernel_spellings(n)
    acc += ["NONE"]
    for s in acc:
        cases.append("T " + hexs(s))
    for s in acc:
        for _ in range(3 if thorough else 1):
            cases.append("T " + hexs(mutate(rng, s)))
    for s in ["bogus", "Cauchy kernel", "levy", "exponential_power", "hyperbolic", "secant", "log", "power", "0", "cauchy\t"]:
        cases.append("T " + hexs(s))
    dacc = DIRS + ["", "none", "None", "NONE"]
    for s in dacc:
        cases.append("D " + hexs(s))
        cases.append("D " + hexs(s.lower()))
        cases.append("D " + hexs(mutate(rng, s)))
    for s in ["north", "North", "EN", "ES", "NNE", "0", "45", "n", "Ne", "nONE", "NoNe"]:
        cases.append("D " + hexs(s))
    return cases


def gen_exact(rng, thorough):
    cases = []
    for d in DIRS + ["NONE"]:
        for _ in range(4 if thorough else 2):
            cases.append("N %s %d %d" % (d, rng.choice([0, 0, 1, rng.randint(-5, 40)]), rng.choice([0, 1, rng.randint(-5, 40)])))
    cases += gen_names(rng, thorough)
    for use in (0, 1):
        for elig in (0, 1):
            for _ in range(12 if thorough else 5):
                pk = rng.choice([0, 1, 4, 8, 12, 15, 16, rng.randint(0, 16)])
                uk = rng.choice([0, 15, rng.randint(0, 15), max(0, min(15, pk // 2 + rng.choice([-1, 0]))), max(0, min(15, pk // 2))])
                bern = 1 if (2 * uk + 1) / 32.0 < pk / 16.0 else 0
                cases.append("M %d %d %d %d %d" % (use, elig, pk, uk, bern))
    shapes = [(1, 1), (1, 7), (6, 1), (3, 5), (5, 3), (2, 2), (rng.randint(2, 12), rng.randint(2, 12))]
    if thorough:
        shapes += [(rng.randint(1, 12), rng.randint(1, 12)) for _ in range(8)]
    for r, c in shapes:
        n = 700 * max(1, (r * c) // 12 + 1)
        cases.append("U %d %d %d %d" % (r, c, rng.randint(1, 10 ** 6), n))
    for which in ("nat", "ant"):
        r, c = rng.choice(shapes[2:])
        cases.append("UF %s %d %d %d %d" % (which, r, c, rng.randint(1, 10 ** 6), 700 * max(1, (r * c) // 12 + 1)))
    for which in ("nat", "ant"):
        for n in KERNEL_ENUM:
            for st in (1, 0):
                if n in ("network", "none", "uniform", "deterministic neighbor") and st == 0 and n in ("network", "none"):
                    continue  # deterministic kernel construction for these types is C14's subject
                cases.append("F %s %s %d" % (which, hexs(rng.choice(kernel_spellings(n))), st))
        cases.append("F %s %s 1" % (which, hexs("bogus")))
    return cases


# ---- real kernels: SwitchDispersalKernel, eligibility, the mix of real kernels ----
KTYPES = ["Cauchy", "Exponential", "Uniform", "DeterministicNeighbor", "PowerLaw", "HyperbolicSecant", "Gamma",
          "ExponentialPower", "Weibull", "Normal", "LogNormal", "Logistic", "Network", "None"]
RADIAL_TYPES = ["Cauchy", "Exponential", "Weibull", "Normal", "LogNormal", "PowerLaw", "HyperbolicSecant", "Gamma",
                "ExponentialPower", "Logistic"]
MOVEMENTS = ["teleport", "walk", "jump"]


def gen_land(rng, null_network=False):
    """(land tokens, node cells, source cells): a non-square raster with unequal
    dyadic resolutions and a network of 1-3 edges between distinct node cells.
    An edge never joins a cell to itself or to its south-east neighbour (the
    results of the deterministic and the neighbour member kernels)."""
    rows, cols = rng.choice([(4, 7), (5, 3), (3, 6), (7, 4), (2, 9), (6, 5), (rng.randint(2, 7), rng.randint(8, 10))])
    ew, ns = rng.choice([(10, 30), (30, 10), (0.5, 2), (8, 8), (100, 25), (2, 0.5)])
    allc = [(r, c) for r in range(rows) for c in range(cols)]
    nodes = []
    edges = []
    if not null_network:
        for _ in range(rng.randint(1, 3)):
            for _try in range(50):
                a, b = rng.choice(allc), rng.choice(allc)
                if a in nodes or b in nodes or a == b:
                    continue
                if (a[0] + 1, a[1] + 1) == b or (b[0] + 1, b[1] + 1) == a:
                    continue
                nodes += [a, b]
                edges.append((a, b))
                break
    free = [x for x in allc if x not in nodes]
    cells = rng.sample(nodes, min(len(nodes), rng.randint(1, 3))) + rng.sample(free, rng.randint(2, 3))
    # the cell right next to a node and the corners are the interesting node-less cells
    if nodes:
        n0 = nodes[0]
        for cand in [(n0[0], n0[1] + 1), (n0[0] + 1, n0[1]), (n0[0], n0[1] - 1)]:
            if cand in free and cand not in cells:
                cells.append(cand)
                break
    rng.shuffle(cells)
    etxt = ",".join("%d:%d-%d:%d" % (a[0], a[1], b[0], b[1]) for a, b in edges) if edges else "-"
    land = "%d %d %g %g %s" % (rows, cols, ew, ns, etxt)
    return land, nodes, " ".join("%d:%d" % x for x in cells)


def gen_real(rng, thorough):
    cases = []
    for ty in KTYPES:
        cases.append("SS " + ty)
    reps = 2 if thorough else 1
    # every kernel type x flag, hand-built switch kernel
    for ty in KTYPES:
        for flag in ("0", "1", "d"):
            for _ in range(reps):
                land, _, cells = gen_land(rng, null_network=(ty != "Network" and rng.random() < 0.15))
                mv = rng.choice(MOVEMENTS) if ty == "Network" or rng.random() < 0.3 else "teleport"
                cases.append("SW %s %s %s %s %d %s" % (ty, flag, mv, land, rng.randint(1, 10 ** 6), cells))
    for mv in MOVEMENTS:
        land, _, cells = gen_land(rng)
        cases.append("KE %s %s %s" % (mv, land, cells))
    land, _, cells = gen_land(rng, null_network=True)
    cases.append("KE teleport %s %s" % (land, cells))
    # factory-built wrappers
    for which in ("nat", "ant"):
        for n in KERNEL_ENUM:
            for st in (1, 0):
                land, _, cells = gen_land(rng)
                cases.append("FE %s %s %d %s %s %s" % (which, hexs(rng.choice(kernel_spellings(n))), st, rng.choice(MOVEMENTS), land, cells))
        land, _, cells = gen_land(rng)
        cases.append("FE %s %s 1 walk %s %s" % (which, hexs("bogus"), land, cells))
    # the mix of real kernels: every anthropogenic type x flag x route; the network type with
    # every combination of enabled / Bernoulli outcome
    for route in ("hand", "cfg"):
        for ty in KTYPES:
            for flag in ("0", "1"):
                combos = [(1, None)]
                if ty == "Network":
                    combos = [(1, 0), (1, 1), (0, 0), (1, None)] * reps
                elif rng.random() < 0.3:
                    combos.append((0, None))
                for use, want_bern in combos:
                    if route == "cfg" and ty == "None" and use:
                        continue  # Radial/Deterministic(None) cannot be called; with the kernel disabled it never is
                    pk = rng.choice([4, 8, 12, rng.randint(1, 15)])
                    if want_bern is None:
                        uk = rng.randint(0, 15)
                    elif want_bern:
                        uk = rng.randint(0, max(0, (pk - 1) // 2)) if pk > 0 else 0
                    else:
                        uk = rng.randint(min(15, (pk + 1) // 2), 15)
                    bern = 1 if (2 * uk + 1) / 32.0 < pk / 16.0 else 0
                    # a stochastic natural kernel is told apart by its stream; with the flag off the Config
                    # route makes the natural kernel deterministic too: then a neighbour kernel is used
                    natkind = "neighbor" if (route == "cfg" and flag == "0") else rng.choice(["radial", "radial", "neighbor"])
                    mv = rng.choice(MOVEMENTS) if ty == "Network" else "teleport"
                    land, _, cells = gen_land(rng)
                    cases.append("MX %s %d %d %d %d %s %s %s %s %s %d %s" % (route, use, pk, uk, bern, ty, flag, natkind, mv, land,
                                                                              rng.randint(1, 10 ** 6), cells))
    return cases


# parameter sets per kernel: (scale, shape); alpha := scale and xmin/theta/beta := shape as
# RadialDispersalKernel hands them on
def law_params(rng, k):
    dy = lambda lo, hi: rng.randint(int(lo * 4), int(hi * 4)) / 4.0
    if k == "weibull":
        return dy(5, 40), rng.choice([1.0, 1.5, 2.0, 3.0])
    if k == "lognormal":
        return rng.choice([0.5, 0.75, 1.0, 1.25]), 1.0
    if k == "powerlaw":
        return rng.choice([2.5, 3.0, 4.0]), rng.choice([1.0, 3.0, 10.0])
    if k == "gamma":
        return rng.choice([1.0, 2.0, 2.5, 4.0]), rng.choice([0.5, 3.0, 8.0, 20.0])
    if k == "exppower":
        return rng.choice([5.0, 10.0, 25.0]), rng.choice([1.0, 1.5, 2.0])
    return dy(5, 40), 1.0


def gen_stat(rng, thorough):
    cases = []
    n = 200000 if thorough else 50000
    for k in RADIAL:
        for _ in range(3 if thorough else 1):
            sc, sh = law_params(rng, k)
            cases.append("K %s %g %g %d %d" % (k, sc, sh, rng.randint(1, 10 ** 6), n))
    # end to end through RadialDispersalKernel: small cells relative to the scale
    for k in RADIAL:
        for j in range(2 if thorough else 1):
            sc, sh = law_params(rng, k)
            if k == "powerlaw":
                # larger exponents make (u/xmin)^(1-alpha) exceed the range of long in lround
                sc, sh = rng.choice([(2.5, 1.0), (2.5, 3.0), (3.0, 1.0)])
            typical = sc * sh if k == "gamma" else (sh if k == "powerlaw" else (1.0 if k == "lognormal" else sc))
            ew = typical / rng.choice([40.0, 64.0])
            ns = ew * rng.choice([1.0, 0.5, 3.0])
            d, kap = rng.choice([("NONE", 0), ("NONE", 3), (rng.choice(DIRS), 2), (rng.choice(DIRS), 0)])
            cases.append("R %s %g %g %s %g %g %g %d %d" % (k, sc, sh, d, kap, ew, ns, rng.randint(1, 10 ** 6), n // 2))
    # ... and through the factories (the other kernel's configuration holds decoy values)
    for which in ("nat", "ant"):
        for k in rng.sample(sorted(RADIAL), 4 if thorough else 2):
            sc, sh = law_params(rng, k)
            if k == "powerlaw":
                sc, sh = rng.choice([(2.5, 1.0), (2.5, 3.0), (3.0, 1.0)])
            typical = sc * sh if k == "gamma" else (sh if k == "powerlaw" else (1.0 if k == "lognormal" else sc))
            ew = typical / 40.0
            ns = ew * rng.choice([0.5, 3.0])
            d, kap = rng.choice([("NONE", 0), (rng.choice(DIRS), 2)])
            cases.append("RF %s %s %g %g %s %g %g %g %d %d" % (which, k, sc, sh, d, kap, ew, ns, rng.randint(1, 10 ** 6), n // 2))
    # geometry at kappa = 1e6
    res = [(10.0, 10.0), (10.0, 30.0), (30.0, 10.0), (100.0, 25.0)]
    if thorough:
        res += [(1.0, 1.0), (0.5, 8.0), (250.0, 1000.0)]
    for d in DIRS:
        for ew, ns in res:
            k = rng.choice(["exponential", "weibull", "normal", "logistic", "hsecant", "lognormal"])
            sc = 1.0 if k == "lognormal" else 2000.0 * max(ew, ns)
            if k == "lognormal":
                ew, ns = ew / 4000.0, ns / 4000.0
            cases.append("G %s %g %g %s %g %g %d %d" % (d, ew, ns, k, sc, 2.0, rng.randint(1, 10 ** 6), 60 if thorough else 25))
        ew, ns = rng.choice(res[1:])
        cases.append("GF %s %s %g %g %s %g %g %d %d" % (rng.choice(["nat", "ant"]), d, ew, ns, rng.choice(["exponential", "normal", "weibull"]),
                                                       2000.0 * max(ew, ns), 2.0, rng.randint(1, 10 ** 6), 25))
    for p in [0.0, 0.25, 0.5, 0.9, 1.0, rng.randint(1, 19) / 20.0]:
        cases.append("B %g %d %d" % (p, rng.randint(1, 10 ** 6), 40000))
    return cases


CORPUS = [
    # minimised past failures, run first on every check
    "U 3 5 1 2000",  # index 3 (= rows) returned by uniform_int_distribution(0, rows)
    "K gamma 2 3 1 50000",  # std::gamma_distribution(alpha, 1/theta) against pdf with scale theta
    "K powerlaw 2.5 3 1 50000",  # icdf(U) against the pdf
    "K exppower 10 1.5 1 50000",
    # network kernel in a switch kernel / in the mix at a cell without a node
    "SW Network 0 teleport 4 7 10 30 0:1-3:5,2:2-1:6 11 0:1 1:1 2:2 3:6",
    "MX hand 1 8 12 0 Network 1 radial teleport 4 7 10 30 0:1-3:5,2:2-1:6 5 0:1 1:1 2:2 3:5",
    "MX cfg 1 8 12 0 Network 0 neighbor walk 4 7 10 30 0:1-3:5,2:2-1:6 5 0:1 1:1 2:2 3:5",
]


def generate(tier, seed, path):
    rng = random.Random(seed * 104729 + 13)
    thorough = tier == "thorough"
    cases = list(CORPUS)
    cdir = os.path.join(vc.VERIF, "corpus", "kernels")
    if os.path.isdir(cdir):
        for f in sorted(os.listdir(cdir)):
            cases += vc.read_cases(os.path.join(cdir, f))
    cases += gen_exact(rng, thorough)
    cases += gen_real(random.Random(seed * 104729 + 4013), thorough)
    cases += gen_stat(rng, thorough)
    if thorough:
        # further parameter draws for the statistical and geometry runs
        for extra in (1, 2):
            cases += gen_stat(random.Random(seed * 104729 + 13 + 7919 * extra), thorough)
    with open(path, "w") as f:
        f.write("\n".join(cases) + "\n")
    return cases


# ---- monitor ----
def group_output(path):
    out = {}
    with open(path, errors="replace") as f:
        for line in f:
            line = line.rstrip("\n")
            if not line or " " not in line:
                continue
            k, rest = line.split(" ", 1)
            if k.isdigit():
                out.setdefault(int(k), []).append(rest)
    return out


def kv(s):
    d = {}
    for tok in s.split():
        if "=" in tok:
            a, b = tok.split("=", 1)
            d[a] = b
    return d


def ew_eq_ns(t):
    """R case tokens (after removing the factory tag): ew and ns resolutions equal"""
    return float(t[6]) == float(t[7])


def expected_class(which, idx, stochastic):
    name = KERNEL_ENUM[idx]
    if name == "uniform":
        return "uniform"
    if name == "deterministic neighbor":
        return "neighbor"
    if name == "network" and which == "ant":
        return "network"
    return "radial" if stochastic else "deterministic"


def documented_member(ty, stoch):
    """switch_kernel.hpp / kernel.hpp as documented: the three named kernels,
    every other type is a radial kernel type run stochastically or not"""
    if ty == "Uniform":
        return "uniform"
    if ty == "DeterministicNeighbor":
        return "neighbor"
    if ty == "Network":
        return "network"
    return "radial" if stoch else "deterministic"


def land_nodes(edges):
    nodes = set()
    if edges != "-":
        for e in edges.split(","):
            a, b = e.split("-")
            nodes.add(a)
            nodes.add(b)
    return nodes


def monitor_real(c, t, lines, line, ctx, st):
    """SW SS KE FE MX: the clause "the mix uses the anthropogenic kernel only when
    it is enabled and eligible at the source cell", eligibility = only the network
    kernel restricts the source cell (it needs a node there), dispatch = the kernel
    the type names."""
    by = {}
    for l in lines:
        tag, _, val = l.partition(" ")
        by[tag] = val
    if "setup_failed" in by:
        ctx.violation("C13.switch.run", "setting up the kernels of this case failed: %s" % by["setup_failed"], line)
        return
    if c == "SS":
        st["SS"] += 1
        ty = t[1]
        d = kv(by.get("sup", ""))
        exp = {"radial": ty in RADIAL_TYPES, "deterministic": ty in RADIAL_TYPES, "uniform": ty == "Uniform",
               "neighbor": ty == "DeterministicNeighbor", "network": ty == "Network"}
        if ty != "Network":  # the switch kernel dispatches Network but does not list it: recorded as an observation
            exp["switch"] = ty in RADIAL_TYPES or ty in ("Uniform", "DeterministicNeighbor")
        for name, e in exp.items():
            if d.get(name) != ("1" if e else "0"):
                ctx.violation("C13.switch.supports", "%s kernel: supports_kernel(%s) = %s, expected %d" % (name, ty, d.get(name), e), line)
                break
        return
    if c == "SW":
        ty, flag, nodes = t[1], t[2], land_nodes(t[8])
        cells = t[10:]
        exp_member = documented_member(ty, flag != "0")
        for i, cell in enumerate(cells):
            st["SW_cells"] += 1
            d = kv(by.get("sw%d" % i, ""))
            raw = by.get("swraw%d" % i, "")
            node = cell in nodes
            if "member" not in d:
                ctx.violation("C13.switch.run", "no result for source cell %s" % cell, line)
                return
            if d["member"] != exp_member:
                ctx.violation("C13.switch.dispatch", "SwitchDispersalKernel(%s, stochasticity %s) at %s: the result is that of the %s member kernel, "
                              "the type names the %s kernel (%s)" % (ty, flag, cell, d["member"], exp_member, raw), line)
                return
            exp_elig = node if exp_member == "network" else True
            if d.get("elig") != ("1" if exp_elig else "0"):
                ctx.violation("C13.switch.eligible", "SwitchDispersalKernel(%s, stochasticity %s).is_cell_eligible(%s) = %s; the cell %s network node and "
                              "operator() calls the %s kernel" % (ty, flag, cell, d.get("elig"), "has a" if node else "has no", d["member"]), line)
                return
            exp_exc = exp_member == "network" and not node
            if d.get("exc") != ("1" if exp_exc else "0"):
                ctx.violation("C13.switch.dispatch.exception", "SwitchDispersalKernel(%s, stochasticity %s) at %s: exception=%s, expected %d (%s)"
                              % (ty, flag, cell, d.get("exc"), exp_exc, raw), line)
                return
            # eligibility must never promise a call that throws for lack of a node
            if d.get("elig") == "1" and d.get("exc") == "1":
                ctx.violation("C13.switch.eligible", "SwitchDispersalKernel(%s) reports %s eligible but the call throws (%s)" % (ty, cell, raw), line)
                return
        return
    if c == "KE":
        nodes = land_nodes(t[6])
        for i, cell in enumerate(t[7:]):
            st["KE_cells"] += 1
            d = kv(by.get("ke%d" % i, ""))
            exp = {"radial": "1", "deterministic": "1", "uniform": "1", "neighbor": "1", "network": "1" if cell in nodes else "0"}
            for name, e in exp.items():
                if d.get(name) != e:
                    ctx.violation("C13.switch.eligible.kernel", "%s kernel: is_cell_eligible(%s) = %s; the cell %s network node"
                                  % (name, cell, d.get(name), "has a" if cell in nodes else "has no"), line)
                    return
        return
    if c == "FE":
        st["FE"] += 1
        s = unhex(t[2])
        idx, _ = expected_kernel(s)
        cls = kv(by.get("fe", "")).get("class", "")
        if cls.startswith("err"):
            if idx is not None and s in kernel_spellings(KERNEL_ENUM[idx]):
                ctx.violation("C13.factory.reject", "factory rejects kernel name %r: %s" % (s, cls), line)
            return
        exp = expected_class(t[1], idx, int(t[3])) if idx is not None else None
        if cls != exp:
            ctx.violation("C13.factory.class", "%s factory for %r (stochastic=%s) creates a %s kernel, expected %s" % (t[1], s, t[3], cls, exp), line)
            return
        nodes = land_nodes(t[9])
        for i, cell in enumerate(t[10:]):
            e = "1" if (exp != "network" or cell in nodes) else "0"
            got = kv(by.get("fe%d" % i, "")).get("elig")
            if got != e:
                ctx.violation("C13.switch.eligible.factory", "%s kernel built by the %s factory: is_cell_eligible(%s) = %s; the cell %s network node"
                              % (cls, t[1], cell, got, "has a" if cell in nodes else "has no"), line)
                return
        return
    if c == "MX":
        route, use, pk, uk, ty, flag = t[1], int(t[2]), int(t[3]), int(t[4]), t[6], t[7]
        nodes = land_nodes(t[14])
        natural_draw = (2 * uk + 1) / 32.0 < pk / 16.0  # Bernoulli(percent_natural) says "natural"
        for i, cell in enumerate(t[16:]):
            st["MX_cells"] += 1
            d = kv(by.get("mx%d" % i, ""))
            raw = by.get("mxraw%d" % i, "")
            eligible = ty != "Network" or cell in nodes
            anth = bool(use) and eligible and not natural_draw
            exp = {"elig": "1" if eligible else "0", "choice": "anthropogenic" if anth else "natural",
                   "bdraws": "1" if (use and eligible) else "0", "exc": "0"}
            if not eligible:
                st["MX_ineligible"] += 1
            bad = [k_ for k_ in ("elig", "choice", "bdraws", "exc") if d.get(k_) != exp[k_]]
            if route == "cfg" and not use and d.get("elig") == "-" and "elig" in bad:
                bad.remove("elig")  # a disabled anthropogenic kernel need not exist (create_dynamic_kernel passes none)
            if bad:
                ctx.violation("C13.mix.real_kernels", "mix of real kernels (%s route, anthropogenic %s, stochasticity %s) at %s: enabled=%d, the cell %s network node, "
                              "p_natural=%g u=%g: %s, expected %s (%s)"
                              % (route, ty, flag, cell, use, "has a" if cell in nodes else "has no", pk / 16.0, (2 * uk + 1) / 32.0,
                                 " ".join("%s=%s" % (k_, d.get(k_)) for k_ in ("elig", "choice", "bdraws", "exc")),
                                 " ".join("%s=%s" % (k_, exp[k_]) for k_ in bad), raw), line)
                return
        return


def monitor(cases, out, ctx, skip=()):
    st = {"N": 0, "T": 0, "D": 0, "M": 0, "U": 0, "F": 0, "G": 0, "G_draws": 0, "R": 0, "K": 0, "B": 0,
          "names_accepted": 0, "names_rejected": 0, "max_ks": {}, "max_rad": {},
          "SS": 0, "SW_cells": 0, "KE_cells": 0, "FE": 0, "MX_cells": 0, "MX_ineligible": 0}
    for k, line in enumerate(cases):
        if k in skip:
            continue
        t = line.split()
        lines = out.get(k, [])
        first = lines[0] if lines else ""
        tag, _, val = first.partition(" ")
        c = t[0]
        if c == "N":
            st["N"] += 1
            row, col = int(t[2]), int(t[3])
            if t[1] == "NONE":
                exp = "err:invalid_argument"
            else:
                exp = "%d %d" % (row + COMPASS[t[1]][0], col + COMPASS[t[1]][1])
            if tag != "nb" or val != exp:
                ctx.violation("C13.neighbor.offset", "neighbour kernel %s from (%d,%d) gives '%s', one cell in that direction is '%s'"
                              % (t[1], row, col, val, exp), line)
        elif c == "T":
            st["T"] += 1
            s = unhex(t[1])
            idx, required = expected_kernel(s)
            ok = val.isdigit()
            st["names_accepted" if ok else "names_rejected"] += 1
            if ok and (idx is None or int(val) != idx):
                ctx.violation("C13.names.kernel", "kernel name %r maps to enum index %s (%s), it names %s"
                              % (s, val, KERNEL_ENUM[int(val)] if int(val) < 14 else "?", "no kernel" if idx is None else KERNEL_ENUM[idx]), line)
            elif not ok and val != "err:invalid_argument":
                ctx.violation("C13.names.kernel.exception", "unknown kernel name %r gives '%s', documented std::invalid_argument" % (s, val), line)
            elif not ok and required:
                ctx.violation("C13.names.kernel.accept", "kernel name %r is rejected" % s, line)
        elif c == "D":
            st["D"] += 1
            s = unhex(t[1])
            exp, required = expected_direction(s)
            ok = val.lstrip("-").isdigit()
            if ok:
                good = (exp == "none" and int(val) not in DEGREES.values()) or (exp not in (None, "none") and int(val) == exp)
                if not good:
                    ctx.violation("C13.names.direction", "direction name %r maps to value %s, expected %s" % (s, val, exp), line)
            elif val != "err:invalid_argument":
                ctx.violation("C13.names.direction.exception", "unknown direction %r gives '%s'" % (s, val), line)
            elif required:
                ctx.violation("C13.names.direction.accept", "direction name %r is rejected" % s, line)
        elif c == "M":
            st["M"] += 1
            use, elig, pk, uk = int(t[1]), int(t[2]), int(t[3]), int(t[4])
            natural_draw = (2 * uk + 1) / 32.0 < pk / 16.0  # Bernoulli(p) says "natural"
            anth = bool(use) and bool(elig) and not natural_draw
            exp = "%s bdraws=%d/0 kstream=%s" % ("anthropogenic" if anth else "natural", 1 if (use and elig) else 0,
                                                 "anthropogenic" if anth else "natural")
            if tag != "mix" or val != exp:
                ctx.violation("C13.mix.decision", "enabled=%d eligible=%d p_natural=%g u=%g: got '%s', expected '%s'"
                              % (use, elig, pk / 16.0, (2 * uk + 1) / 32.0, val, exp), line)
        elif c == "B":
            st["B"] += 1
            p, n = float(t[1]), int(t[3])
            d = kv(val)
            f = int(d.get("anthropogenic", -1)) / float(n)
            if tag != "bfreq" or abs(f - (1 - p)) > 6 * math.sqrt(max(p * (1 - p), 1e-9) / n) + 0.004:
                ctx.violation("C13.mix.probability", "anthropogenic share %.4f over %d draws, 1 - percent_natural = %.4f" % (f, n, 1 - p), line)
        elif c in ("U", "UF"):
            st["U"] += 1
            o = 1 if c == "U" else 2
            rows, cols, n = int(t[o]), int(t[o + 1]), int(t[o + 3])
            try:
                rmin, rmax, cmin, cmax = (int(x) for x in val.split())
            except ValueError:
                ctx.violation("C13.uniform.run", "uniform kernel %dx%d: %s" % (rows, cols, first), line)
                continue
            if rmax >= rows or cmax >= cols or rmin < 0 or cmin < 0:
                ctx.violation("C13.uniform.upper_bound", "uniform kernel for a %dx%d landscape returned rows %d..%d, columns %d..%d "
                              "(an index equal to the number of rows/columns is outside the landscape)" % (rows, cols, rmin, rmax, cmin, cmax), line)
            elif (rmin, rmax, cmin, cmax) != (0, rows - 1, 0, cols - 1):
                ctx.violation("C13.uniform.coverage", "uniform kernel for %dx%d never reached some row/column in %d draws: rows %d..%d, columns %d..%d"
                              % (rows, cols, n, rmin, rmax, cmin, cmax), line)
            else:
                d = kv(lines[1]) if len(lines) > 1 else {}
                dof = rows * cols - 1
                chi = float(d.get("chi2", "0"))
                if dof > 0 and chi > dof + 8 * math.sqrt(2 * dof) + 15:
                    ctx.violation("C13.uniform.equal_probability", "chi-square %.1f with %d degrees of freedom over %d draws" % (chi, dof, n), line)
        elif c == "F":
            st["F"] += 1
            s = unhex(t[2])
            idx, _ = expected_kernel(s)
            if val.startswith("err"):
                if idx is not None and s in kernel_spellings(KERNEL_ENUM[idx]):
                    ctx.violation("C13.factory.reject", "factory rejects kernel name %r: %s" % (s, val), line)
                continue
            exp = expected_class(t[1], idx, int(t[3])) if idx is not None else None
            if val != exp:
                ctx.violation("C13.factory.class", "%s factory for %r (stochastic=%s) creates a %s kernel, expected %s" % (t[1], s, t[3], val, exp), line)
        elif c in ("SW", "SS", "KE", "FE", "MX"):
            monitor_real(c, t, lines, line, ctx, st)
        elif c in ("G", "GF"):
            st["G"] += 1
            if c == "GF":
                t = [t[0]] + t[2:]
            d, ew, ns = t[1], float(t[2]), float(t[3])
            if tag != "geo" or val.startswith("err"):
                ctx.violation("C13.geometry.run", "radial kernel run failed: %s" % first, line)
                continue
            sr, sc = COMPASS[d]
            for pair in val.split():
                st["G_draws"] += 1
                dr, dc = (int(x) for x in pair.split(":"))
                a, b = abs(dr) * ns, abs(dc) * ew
                big = max(a, b)
                tol = 0.012 * big + (ns + ew)
                bad = None
                if (sr < 0 and dr > 0) or (sr > 0 and dr < 0) or (sc < 0 and dc > 0) or (sc > 0 and dc < 0):
                    bad = "sign"
                elif sr == 0 and a > tol:
                    bad = "row_moves"
                elif sc == 0 and b > tol:
                    bad = "col_moves"
                elif sr != 0 and sc != 0 and abs(a - b) > tol:
                    bad = "diagonal"
                elif big < 20 * max(ns, ew):
                    continue  # too short to judge anything else
                elif (sr != 0 and dr == 0) or (sc != 0 and dc == 0):
                    bad = "no_move"
                if bad:
                    ctx.violation("C13.geometry.%s" % bad, "direction %s, kappa 1e6, ew_res %g ns_res %g: offset (%d rows, %d cols) = (%g, %g) map units"
                                  % (d, ew, ns, dr, dc, dr * ns, dc * ew), line)
                    break
        elif c in ("K", "R", "RF"):
            if c == "RF":
                t = [t[0]] + t[2:]
                c = "R"
            st[c] += 1
            kn = t[1]
            d = kv(val)
            key = LAW_KEY.get(kn, "C13.plumbing." + kn) + (".random" if c == "K" else ".radial")
            if "D" not in d:
                ctx.violation(key, "run failed: %s" % first, line)
                continue
            D = float(d["D"])
            mx = st["max_ks" if c == "K" else "max_rad"]
            mx[kn] = max(mx.get(kn, 0.0), D)
            if D > KS_LIMIT:
                what = ("|%s.random()| over %s draws" if c == "K" else "distance reconstructed from RadialDispersalKernel(%s) offsets over %s draws") % (kn, d.get("n"))
                ctx.violation(key, "%s does not follow the kernel's own pdf with scale %s shape %s: Kolmogorov-Smirnov distance %.4f (limit %.2f)"
                              % (what, t[2], t[3], D, KS_LIMIT), line, first)
            if c == "R":
                q = [int(x) for x in d.get("quadrants", "0,0,0,0").split(",")]
                n = int(d.get("n", "1"))
                dirn, kap = t[4], float(t[5])
                if dirn == "NONE" or kap == 0:
                    # uniform angle: every quadrant close to a quarter (cells on the axes are not counted)
                    tot = sum(q)
                    if tot >= 400 and min(q) < tot / 4.0 - 6 * math.sqrt(tot * 3 / 16.0) - 0.02 * tot:
                        ctx.violation("C13.direction.uniform_angle", "no direction / kappa 0: quadrant counts NE,SE,SW,NW = %s of %d" % (q, n), line)
                else:
                    sr, sc = COMPASS[dirn]
                    towards = sum(q[i] for i, (r_, c_) in enumerate([(-1, 1), (1, 1), (1, -1), (-1, -1)]) if r_ * sr + c_ * sc > 0)
                    away = sum(q[i] for i, (r_, c_) in enumerate([(-1, 1), (1, 1), (1, -1), (-1, -1)]) if r_ * sr + c_ * sc < 0)
                    if towards <= 2 * away:
                        ctx.violation("C13.direction.concentration", "direction %s kappa %g: %d draws towards, %d away (quadrants %s)" % (dirn, kap, towards, away, q), line)
                    # symmetric about the direction: mirror-image quadrants are equally likely
                    qd = dict(zip(["NE", "SE", "SW", "NW"], q))
                    mirror = {"N": [("NE", "NW"), ("SE", "SW")], "S": [("NE", "NW"), ("SE", "SW")],
                              "E": [("NE", "SE"), ("NW", "SW")], "W": [("NE", "SE"), ("NW", "SW")],
                              "NE": [("NW", "SE")], "SW": [("NW", "SE")], "NW": [("NE", "SW")], "SE": [("NE", "SW")]}[dirn]
                    if ew_eq_ns(t) or len(mirror) == 2:
                        for a_, b_ in mirror:
                            if abs(qd[a_] - qd[b_]) > 6 * math.sqrt(qd[a_] + qd[b_] + 1) + 0.01 * (qd[a_] + qd[b_]):
                                ctx.violation("C13.direction.symmetry", "direction %s kappa %g: mirror-image quadrants %s=%d and %s=%d differ"
                                              % (dirn, kap, a_, qd[a_], b_, qd[b_]), line)
                                break
        else:
            ctx.violation("C13.case", "unknown case kind", line)
    return st


EXACT_TAGS = ("nb", "kt", "dir", "mix", "uni", "fac", "sup", "fe")
EXACT_CELL_TAGS = re.compile(r"(sw|ke|fe|mx)\d+$")


def relevant(l):
    p = l.split(" ", 2)
    return len(p) > 1 and (p[1] in EXACT_TAGS or EXACT_CELL_TAGS.match(p[1]) is not None)


def nontrivial(c):
    t = c.split()
    if t[0] in ("G", "GF", "R", "RF", "K", "U", "UF", "B", "SW", "KE", "FE", "MX", "SS"):
        return True
    if t[0] == "M":
        return t[1] == "1" and t[2] == "1"
    if t[0] == "N":
        return t[1] != "NONE"
    return t[0] in ("T", "D", "F") and t[-1 if t[0] != "F" else 2] != "-"


def run_engine(ctx, cases_path):
    h, err = vc.build_harness("kernels", sanitize=(ctx.tier == "thorough"))
    if err:
        ctx.broke("harness kernels.cpp builds against the library", err)
        return None, None
    impl = os.path.join(ctx.work, "impl.out")
    ncases = len(vc.read_cases(cases_path))
    start, parts, aborted = 0, [], []
    for attempt in range(40):
        part = impl + ".part%d" % attempt
        rc, e = vc.run_to_file([h, cases_path, str(start)], part)
        parts.append(part)
        if rc == 0:
            break
        # the harness died (sanitizer abort, uncaught exception): the first case
        # without output is the one that killed it; go on behind it
        done = set(group_output(part))
        k = start
        while k in done:
            k += 1
        if k >= ncases:
            break
        aborted.append((k, rc, e))
        start = k + 1
    else:
        ctx.broke("implementation harness keeps aborting", "\n".join("case %d exit %d: %s" % a for a in aborted))
    with open(impl, "w") as f:
        ab = set(a[0] for a in aborted)
        for part in parts:
            for line in open(part, errors="replace"):
                if line.split(" ", 1)[0].isdigit() and int(line.split(" ", 1)[0]) not in ab:
                    f.write(line)
    ctx.harness_aborts = aborted
    # cases the harness never reached (it kept aborting): not judged by the monitor
    done = set(group_output(impl))
    ctx.harness_unrun = set(k for k in range(ncases) if k not in done and k not in ab)
    # the generated tables may have been rewritten by a concurrent check of another tree
    tp = vc.run([os.sys.executable, os.path.join(vc.VERIF, "translate", "kernel_tables.py"), vc.REPO,
                 os.path.join(vc.COQ, "theories")], timeout=120)
    model = None
    if tp[0] == 0:
        m, err = vc.build_model("kernels")
        if err:
            ctx.broke("model extraction/driver build", err)
        else:
            model = os.path.join(ctx.work, "model.out")
            rc, e = vc.run_to_file([m, cases_path], model)
            if rc != 0:
                ctx.broke("model driver run (exit %d)" % rc, e)
    else:
        ctx.broke("translator kernel_tables.py (header region no longer parses)", tp[1])
    return impl, model


def tables_current():
    """False when the proof run may have compiled a GeneratedKernelTables.v that
    is not the translation of THIS check's tree: other engines call
    translate_all with their own VERIF_REPO and may rewrite the file between
    translation and compilation.  Decided from the file's content and the
    relative age of the .v and its .vo."""
    tmp = os.path.join(vc.BUILD, "work", "C13", "gen_check")
    os.makedirs(tmp, exist_ok=True)
    rc, _ = vc.run([os.sys.executable, os.path.join(vc.VERIF, "translate", "kernel_tables.py"), vc.REPO, tmp], timeout=120)
    if rc != 0:
        return True  # does not parse: nothing to compare, the failure is genuine
    v = os.path.join(vc.COQ, "theories", "GeneratedKernelTables.v")
    try:
        same = open(os.path.join(tmp, "GeneratedKernelTables.v")).read() == open(v).read()
        tv, tvo = os.path.getmtime(v), os.path.getmtime(v + "o")
    except OSError:
        return True
    # same content: the .vo must be younger than the .v; other content: it must have
    # been written after the compilation
    return (tvo >= tv) if same else (tv > tvo)


def check(ctx, replay=None):
    pid = ctx.pid
    for attempt in range(4):
        ctx.proof = vc.prove(pid)
        if tables_current() and "inconsistent assumptions" not in (ctx.proof.log or ""):
            break
        vc.log("note: GeneratedKernelTables.v was rewritten by a concurrent check of another tree; proving again")
    if not ctx.proof.ok:
        ctx.broke("proof obligations of Properties_%s.v%s" % (pid, (" (" + ctx.proof.failed_theorem + ")") if ctx.proof.failed_theorem else ""),
                  "\n".join(ctx.proof.problems) + "\n" + ctx.proof.log[-1500:])
    cases_path = os.path.join(ctx.work, "cases.txt")
    if replay:
        cases = vc.read_cases(replay)
        with open(cases_path, "w") as f:
            f.write("\n".join(cases) + "\n")
    else:
        cases = generate(ctx.tier, ctx.seed, cases_path)
    impl, model = run_engine(ctx, cases_path)
    if impl is None:
        return
    out = group_output(impl)
    for k, rc, e in getattr(ctx, "harness_aborts", []):
        # a run of the library that ends in a sanitizer abort / crash is a failing input
        t = cases[k].split()
        kn = t[2] if t[0] == "RF" else (t[1] if t[0] in ("R", "K") else (t[4] if t[0] == "G" else (t[5] if t[0] == "GF" else t[0])))
        last = [l for l in e.strip().split("\n") if l.strip()][-3:]
        key = LAW_KEY.get(kn, "C13.run." + kn)
        if t[0] == "MX":
            key = "C13.mix.real_kernels"
        elif t[0] in ("SW", "SS", "KE", "FE"):
            key = "C13.switch.run"
        ctx.violation(key + ".abort", "the library aborted (exit %d) on this case: %s" % (rc, " | ".join(last)[:300]),
                      cases[k], e)
        out[k] = ["aborted"]
    stats = monitor(cases, out, ctx, skip=set(a[0] for a in getattr(ctx, "harness_aborts", [])) | getattr(ctx, "harness_unrun", set()))
    ncmp, diffs = 0, []
    if model is not None:
        ncmp, diffs = vc.diff_outputs(impl, model, relevant)
        if diffs:
            k, a, b = diffs[0]
            ctx.broke("correspondence kernels model vs implementation (%d differing cases)" % len(diffs),
                      "first differing case #%s: %s\nimpl : %s\nmodel: %s" % (k, cases[int(k)] if k.isdigit() and int(k) < len(cases) else "?", a, b))
    kinds = {}
    for c in cases:
        kinds[c.split()[0]] = kinds.get(c.split()[0], 0) + 1
    draws = 0
    for c in cases:
        t = c.split()
        if t[0] in ("K", "R", "RF", "G", "GF", "U", "B"):
            draws += int(t[-1])
        elif t[0] == "UF":
            draws += int(t[-1])
    nt = sorted(set(c for c in cases if nontrivial(c)))
    ctx.coverage.update({
        "evaluations": len(cases),
        "distinct_nontrivial": len(nt),
        "rule": "one evaluation = one case line (a kernel call, a name lookup, a mix decision, or one statistical run of "
                "n draws); non-trivial = statistical/geometry/uniform runs, mix decisions with the anthropogenic kernel "
                "enabled and eligible, neighbour calls with a direction, non-empty names, every real-kernel case (SW SS KE FE "
                "MX: each evaluates several source cells, counted in monitor_stats); distinct = distinct case lines",
        "samples": [cases[0], cases[len(cases) // 3], cases[len(cases) // 2], cases[-1]],
        "case_kinds": kinds,
        "kernel_draws_total": draws,
        "monitor_stats": stats,
        "ks_limit": KS_LIMIT,
        "lines_compared_model_vs_impl": ncmp,
        "traces_validated_against_impl": ncmp,
        "correspondence_diffs": len(diffs),
        "exhaustive": False,
    })
    ctx.assumptions += [
        "libstdc++'s std::*_distribution, bernoulli_distribution and uniform_int_distribution have the laws ISO C++ "
        "[rand.dist] prescribes (modelled by iso_density; validated by the K/R/B/U runs, not proved)",
        "the law of the von Mises rejection sampler for kappa > 1e-6 and the exponential-power sampler (Newton iteration) "
        "are not proved; only the use of the variates is",
        "theorems are over real numbers; binary64 rounding of cos/sin/division before lround is outside the model",
        "int overflow of row/col for astronomically large Cauchy draws is outside the model",
        "whether a cell has a network node (Network::has_node_at) and what Network::walk/teleport return are property "
        "C15's subject: here node_at is an input, and NetworkDispersalKernel::operator() throwing std::invalid_argument "
        "at a cell without a node is its documented contract (class_call_throws, validated by the SW/MX runs)",
        "which member kernel a SwitchDispersalKernel call used is identified by the harness: the call's result and "
        "generator-call count equal those of exactly one member kernel run alone from the same generator state",
    ]
