"""compose: Model::run_step against the same actions applied one by one outside the model (C09).

NOT an engine (no PROPERTIES line): `eng_hostmodel.check` calls
`compose.part(ctx, pid, replay)`; it returns at once unless pid == "C09".

Implementation against implementation (harness/compose.cpp, built from /repo's
current tree), no Coq model involved:

  A    pops::Model::run_step for all steps (pools entry point with 1-3 hosts, raster entry point)
  B1   the same steps composed by hand from the public action classes in the documented order
       (own generator provider seeded from the same Config, own environment, own rasters,
       kernels from pops::create_dynamic_kernel)
  B2   single-host cases: the same steps composed from the legacy pops::Simulation methods on
       plain rasters, dispersal kernels built directly from the kernel classes
  C    disabled-input influence: A run on a base scenario and on variants that differ only in
       inputs of ONE switched-off feature each: the outputs must be identical

Every variant prints the complete state after every step; the comparison is step by step and
names the first raster that differs:

  C09.composition.actions.<raster>      A differs from B1
  C09.composition.simulation.<raster>   A differs from B2
  C09.composition.simulation_single_pool.<zero_suitability_landing|overpopulation_move>
        A differs from B2 after a step in which B2 reported an event at which the single
        HostPool that Simulation builds and the MultiHostPool of the model are known to use the
        random stream differently (notes/findings/C09_simulation_single_pool_draws.md)
  C09.disabled_input_influence.<feature>

<raster> is one of susceptible exposed infected total_exposed resistant mortality_tracker died
total_hosts suitable_cells dispersers established_dispersers outside_dispersers soil
spread_rate quarantine exception steps.
"""
import copy
import hashlib
import json
import os
import random
import re
import time

import vcommon as vc
import eng_calendar as cal
import gen_hostmodel as gh

PID = "C09"
N_COMPOSE = {"quick": 2500, "thorough": 16000}
N_GROUPS = {"quick": 600, "thorough": 4000}

# every kernel type that needs no network, except: power-law (its quantile - listed finding of C13/C14 - sizes the
# window of the deterministic kernel that Model::run_step builds for the overpopulation kernel in every spread step:
# the harness dies on it, in all three variants alike) and gamma (its quantile search throws for some scale/shape pairs)
RADIAL = ["cauchy", "exponential", "weibull", "normal", "logistic", "hyperbolic-secant", "log-normal", "exponential-power"]
DET_OK = ["exponential", "normal", "logistic", "weibull", "cauchy"]
DIRS = ["N", "NE", "E", "SE", "S", "SW", "W", "NW"]
STREAMS = ["disperser_generation", "natural_dispersal", "anthropogenic_dispersal", "establishment", "weather",
           "lethal_temperature", "movement", "overpopulation", "survival_rate", "soil"]
MULTI_KEYS = ("pht", "comprow", "cells", "suitable", "totpop", "wraster", "temp", "surv", "move", "treat", "qareas")
RASTER_ORDER = ["susceptible", "exposed", "infected", "total_exposed", "resistant", "mortality_tracker", "died", "total_hosts",
                "suitable_cells", "dispersers", "established_dispersers", "outside_dispersers", "soil", "spread_rate", "quarantine"]


# ----------------------------------------------------------------------------
# scenarios
# ----------------------------------------------------------------------------
class Scn:
    """ordered list of token lists; `compose <entry>` first, `endcompose` last"""

    def __init__(self):
        self.rows = []
        self.meta = {}

    def add(self, *toks):
        self.rows.append([str(t) for t in toks])

    def get(self, key):
        for r in self.rows:
            if r[0] == key:
                return r
        return None

    def all(self, key):
        return [r for r in self.rows if r[0] == key]

    def drop(self, key):
        self.rows = [r for r in self.rows if r[0] != key]

    def insert_before_end(self, rows):
        self.rows = self.rows[:-1] + [[str(t) for t in r] for r in rows] + self.rows[-1:]

    def text(self):
        return "\n".join(" ".join(r) for r in self.rows) + "\n"

    def clone(self):
        s = Scn()
        s.rows = copy.deepcopy(self.rows)
        s.meta = copy.deepcopy(self.meta)
        return s


def dy(rng, choices):
    return rng.choice(choices)


def frac_lt(a, b):
    from fractions import Fraction
    return Fraction(a) < Fraction(b)


def kernel_scale(rng, res, ktype, stochastic):
    """distance scale such that the window of the deterministic kernel (built in every spread step
    for the overpopulation kernel, whatever the settings) stays small"""
    from fractions import Fraction
    r = min(Fraction(res[0]), Fraction(res[1]))
    if ktype == "cauchy":
        f = rng.choice(["1/4", "1/2", "1"]) if stochastic else rng.choice(["1/8", "1/4"])
    elif ktype == "log-normal":
        return rng.choice(["1/2", "1", "1/4"])
    else:
        f = rng.choice(["1/2", "1", "2"]) if stochastic else rng.choice(["1/2", "1", "1/4"])
    v = r * Fraction(f)
    return "%d/%d" % (v.numerator, v.denominator) if v.denominator != 1 else str(v.numerator)


def gen_temp(rng, ncell):
    return [rng.choice(["-20", "-10", "-5", "0", "5", "-25/2", "-21/2"]) for _ in range(ncell)]


def gen_surv(rng, ncell):
    return [dy(rng, ["0", "1/4", "1/2", "3/4", "1", "1", "7/8"]) for _ in range(ncell)]


def gen_moves(rng, rows, cols, nsteps):
    out = []
    for s in sorted(rng.randrange(0, nsteps) for _ in range(rng.randint(1, 5))):
        out.append(["move", rng.randrange(rows), rng.randrange(cols), rng.randrange(rows), rng.randrange(cols),
                    rng.choice([0, 1, 2, 5, 10, 100]), s])
    return out


def gen_treats(rng, steps, ncell):
    out = []
    nsteps = len(steps)
    for _ in range(rng.randint(1, 3)):
        si = rng.randrange(0, nsteps)
        a, b = steps[si]
        d0 = cal.from_dn(rng.randint(cal.dn(a), cal.dn(b)))
        pest = rng.random() < 0.45
        days = 0
        if pest:
            if si + 1 < nsteps:
                ei = rng.randrange(si + 1, nsteps)
                ea, eb = steps[ei]
                days = rng.randint(cal.dn(ea), cal.dn(eb)) - cal.dn(d0)
            else:
                pest = False
        coefs = [dy(rng, ["0", "1/4", "1/2", "3/4", "1", "1", "0", "1/2"]) for _ in range(ncell)]
        out.append(["treat", 1 if pest else 0, d0[0], d0[1], d0[2], days, rng.choice(["ratio", "ratio", "all_infected_in_cell"])] + coefs)
    return out


def yearly_firings(steps, m, d):
    return sum(1 for a, b in steps if any(cal.contains_date(a, b, y, m, d) for y in range(a[0], b[0] + 1)))


def gen_scenario(rng, focus=None, entry=None, mode="compose"):
    """focus: None | 'simulation' (single host, everything Simulation offers, no known stream difference)
    | 'known' (single host, situations where Simulation's single pool uses the streams differently)
    | 'multi' | 'anthro' | 'det' | 'disabled' (many features off, for the C groups)"""
    sc = Scn()
    entry = entry or ("rasters" if rng.random() < 0.15 else "pools")
    rows, cols = rng.choice(gh.SHAPES)
    ncell = rows * cols
    res = rng.choice([("30", "30"), ("10", "30"), ("100", "100"), ("1/2", "1/2"), ("30", "10"), ("1", "2")])
    unit, n = rng.choice([("month", 1), ("month", 1), ("month", 2), ("week", 1), ("week", 2), ("day", 7), ("day", 28), ("month", 3)])
    sy = rng.choice([2019, 2020, 2021])
    start = (sy, rng.choice([1, 1, 3, 11, 12]) if unit != "month" else rng.choice([1, 1, 6, 10, 12]), 1)
    cur = start
    for _ in range(rng.randint(2, 12)):
        cur = cal.next_start_spec(cur, unit, n)
    end = cal.from_dn(cal.dn(cur) - 1)
    if cal.dn(end) <= cal.dn(start):
        end = cal.from_dn(cal.dn(start) + 40)
    steps = gh.steps_of(start, end, unit, n)
    nsteps = len(steps)
    run_steps = nsteps if rng.random() < 0.85 else rng.randint(1, nsteps)
    mt = rng.choice(["SI", "SEI", "SEI"])
    latency = rng.choice([0, 1, 2, 3]) if mt == "SEI" else 0
    ne = latency + 1 if mt == "SEI" else rng.choice([0, 0, 2])
    nm = rng.choice([1, 2, 3, 4])
    det = focus == "det" or rng.random() < 0.2
    gen_st = 0 if det else rng.choice([0, 1, 1])
    est_st = 0 if det else rng.choice([0, 1, 1])
    disp_st = 0 if det else rng.choice([0, 1, 1, 1])
    if entry == "rasters" or focus in ("simulation", "known"):
        nhosts = 1
    elif focus == "multi":
        nhosts = rng.choice([2, 3])
    else:
        nhosts = rng.choice([1, 1, 1, 2, 3])
    season = rng.choice([(1, 12), (1, 12), (3, 9), (5, 6), (12, 12), (start[1], start[1] + 1 if start[1] < 12 else 12)])
    off = 0.45 if focus == "disabled" else 1.0
    use = lambda p: 1 if rng.random() < p * off else 0
    sim = focus in ("simulation", "known")
    use_lethal = use(0.45 if sim else 0.35)
    use_surv = use(0.45 if sim else 0.35)
    use_overpop = use(0.45 if sim else 0.3)
    use_moves = use(0.4 if sim else 0.3)
    use_treat = use(0.4)
    use_mort = use(0.45)
    use_soil = use(0.3 if sim else 0.2)
    use_weather = 1 if use_soil and rng.random() < 0.95 else use(0.45)
    use_sr = use(0.3)
    use_q = use(0.3)
    if entry == "rasters":
        # known findings C09-raster-entry-*: this entry point cannot run mortality or spread-rate steps
        use_mort = 0
        use_sr = 0
    seedmode = rng.choice(["single", "single", "multi", "named", "named"])
    # Simulation's single pool and the model's multi-host pool use the overpopulation stream differently
    # (notes/findings/C09_simulation_single_pool_draws.md): in the strict stream the difference is made
    # unobservable (isolated streams + an overpopulation kernel that draws nothing), the 'known' stream keeps it
    strict_overpop = focus == "simulation" and use_overpop and rng.random() < 0.9
    if strict_overpop:
        seedmode = rng.choice(["multi", "named", "named"])
    sc.add("compose", entry)
    sc.add("mode", mode)
    sc.add("grid", rows, cols, res[0], res[1])
    sc.add("calendar", start[0], start[1], start[2], end[0], end[1], end[2], unit, n)
    sc.add("season", season[0], season[1])
    sc.add("seed", rng.randint(1, 10 ** 6))
    if seedmode == "named":
        sc.add("seedmode", "named", *["%s=%d" % (s, rng.randint(1, 10 ** 6)) for s in STREAMS])
    else:
        sc.add("seedmode", seedmode)
    sc.add("steps", run_steps)
    sc.add("mt", mt, latency)
    sc.add("stoch", gen_st, est_st, rng.choice([0, 1]), disp_st)
    sc.add("estprob", dy(rng, ["0", "1/4", "1/2", "3/4", "1", "1"]))
    sc.add("rr", dy(rng, ["0", "1/2", "1", "2", "3", "3/2", "4", "1/4"]))
    if disp_st:
        ktype = rng.choice(RADIAL + ["cauchy", "exponential", "uniform", "deterministic-neighbor"])
    else:
        ktype = rng.choice(DET_OK + ["deterministic-neighbor"])
    if strict_overpop and disp_st:
        ktype = "deterministic-neighbor"
    direction = rng.choice(DIRS + ["none", "none"])
    if ktype == "deterministic-neighbor" and direction == "none":
        direction = rng.choice(DIRS)
    kappa = dy(rng, ["0", "1", "2", "1/2", "3"])
    shape = dy(rng, ["1", "2", "3/2"])
    sc.add("kernel", ktype, direction, kernel_scale(rng, res, ktype, disp_st), kappa, shape)
    use_anthro = 1 if focus == "anthro" else use(0.35)
    if disp_st:
        atype = rng.choice(RADIAL + ["uniform", "deterministic-neighbor"])
    else:
        atype = rng.choice(DET_OK + ["deterministic-neighbor"])
    # direction and kappa DIFFER between the natural and the anthropogenic kernel
    adir = rng.choice([x for x in DIRS + ["none"] if x != direction])
    if atype == "deterministic-neighbor" and adir == "none":
        adir = rng.choice([x for x in DIRS if x != direction])
    akappa = rng.choice([x for x in ["0", "1", "2", "1/2", "3", "4"] if x != kappa])
    sc.add("anthro", use_anthro, atype, adir, kernel_scale(rng, res, atype, disp_st), akappa, dy(rng, ["1/2", "3/4", "1/4", "1", "0", "1/8"]))
    if rng.random() < 0.3:
        sc.add("dispersal_percentage", rng.choice(["3/4", "7/8", "1/2", "15/16"]))
    # schedules of the yearly actions: a month the run really covers, most of the time
    covered = sorted(set((a[1]) for a, b in steps[:run_steps]) | set((b[1]) for a, b in steps[:run_steps]))
    lethal_month = rng.choice(covered) if rng.random() < 0.8 else rng.randint(1, 12)
    sc.add("lethal", use_lethal, lethal_month, rng.choice(["-10", "-5", "0", "-25/2"]))
    sm = rng.choice(covered) if rng.random() < 0.8 else rng.randint(1, 12)
    sd = rng.randint(1, 28)
    sc.add("survival", use_surv, sm, sd)
    sc.add("overpop", use_overpop, dy(rng, ["1/4", "1/2", "3/4", "1/8", "0", "1"]), dy(rng, gh.DYADIC01), rng.choice(["1", "2", "1/2"]))
    sc.add("movements", use_moves)
    sc.add("treatments", use_treat)
    sc.add("mortality", use_mort, rng.choice(["month", "year", "every_n_steps", "every_step", "final_step"]), rng.choice([1, 2, 3]))
    sc.add("spreadrates", use_sr, rng.choice(["year", "every_n_steps", "month", "every_step"]), rng.choice([1, 2]))
    sc.add("quarantine", use_q, rng.choice(["year", "every_n_steps", "month", "every_step"]), rng.choice([1, 2]))
    sc.add("qdirs", rng.choice(["-", "-", "N,E", "S", "N,S,E,W", "W,E"]))
    sc.add("soils", use_soil, dy(rng, ["1/2", "1/4", "1", "0", "3/4"]), rng.choice([1, 2, 3]))
    nweather = rng.choice([1, 2, 3])
    sc.add("weather", use_weather, nweather)
    sc.add("arrival", rng.choice(["infect", "infect", "land"]))
    sc.add("hosts", nhosts)
    with_pht = bool(use_mort) or rng.random() < 0.4
    if entry == "rasters":
        with_pht = False
    if with_pht:
        for h in range(nhosts):
            if nhosts == 1:
                sus = "1" if (sim or rng.random() < 0.75) else rng.choice(["1/2", "3/4", "0"])
            else:
                sus = rng.choice(["1/2", "1/4", "1/8"] if nhosts > 2 else ["1/2", "1/4", "1/2"])
            sc.add("pht", h, sus, dy(rng, ["0", "1/4", "1/2", "3/4", "1", "1/2", "1/8"]), rng.randint(0, nm - 1))
        if not sim and entry == "pools" and rng.random() < 0.35:
            for mask in range(2 ** nhosts):
                pres = [(mask >> b) & 1 for b in range(nhosts)]
                sc.add("comprow", ",".join(map(str, pres)), "0" if mask == 0 else dy(rng, ["1/4", "1/2", "1", "3/4"]))
    hosts = []
    for h in range(nhosts):
        cells = [gh.gen_cell(rng, ne, nm, mt, big=(nhosts == 1)) for _ in range(ncell)]
        if all(c["I"] == 0 for c in cells) and h == 0:
            cells[rng.randrange(ncell)] = dict(S=10, E=[0] * ne, I=nm and 4, R=0, M=([4] + [0] * (nm - 1)), D=0)
        hosts.append(cells)
        sc.add("cells", h, *[gh.cell_text(c) for c in cells])
    suit = []
    for i in range(ncell):
        if any(hosts[h][i]["S"] + sum(hosts[h][i]["E"]) + hosts[h][i]["I"] + hosts[h][i]["R"] > 0 for h in range(nhosts)):
            suit.append("%d,%d" % (i // cols, i % cols))
    if rng.random() < 0.1 and len(suit) > 1:
        suit = suit[:-1]
    for h in range(nhosts):
        sc.add("suitable", h, *suit)
    tot = []
    for i in range(ncell):
        base = sum(hosts[h][i]["S"] + sum(hosts[h][i]["E"]) + hosts[h][i]["I"] + hosts[h][i]["R"] for h in range(nhosts))
        tot.append(base + rng.choice([0, 0, 5, 20]) if base > 0 or rng.random() < 0.3 else 0)
    if use_moves or focus == "disabled":
        allhosts = sum(tot)
        tot = [max(t, allhosts) for t in tot]
    sc.add("totpop", *tot)
    # weather coefficients: zero coefficients only in the stream of known stream differences
    wvals = ["1", "1/2", "3/4", "1/4", "0", "1"] if focus == "known" or (not sim and nhosts > 1) else ["1", "1/2", "3/4", "1/4", "1/8", "1"]
    for _ in range(nweather):
        sc.add("wraster", *[dy(rng, wvals) for _ in range(ncell)])
    zero_weather = bool(use_weather) and any("0" in r[1:] for r in sc.all("wraster"))
    nleth = yearly_firings(steps, lethal_month, 1)
    for _ in range(nleth + rng.choice([0, 1])):
        sc.add("temp", *gen_temp(rng, ncell))
    nsurv = yearly_firings(steps, sm, sd)
    for _ in range(nsurv + rng.choice([0, 1])):
        sc.add("surv", *gen_surv(rng, ncell))
    # inputs of switched-off features are present in a third of the cases (the composition ignores them too)
    if use_moves or rng.random() < 0.3:
        for m in gen_moves(rng, rows, cols, nsteps):
            sc.add(*m)
    if (use_treat or rng.random() < 0.3) and entry == "pools":
        for t in gen_treats(rng, steps, ncell):
            sc.add(*t)
        if rng.random() < 0.2:
            K = rng.randrange(0, nsteps)
            sc.add("clearafter", K, max(0, rng.choice([K - 1, K - 1, K, rng.randrange(0, nsteps), 0])))
    kind = rng.random()
    if kind < 0.5:
        qa = [1] * ncell
    elif kind < 0.8:
        qa = [rng.choice([1, 1, 1, 2, 0]) for _ in range(ncell)]
    else:
        qa = [rng.choice([1, 2, 3]) for _ in range(ncell)]
    sc.add("qareas", *qa)
    sc.add("endcompose")
    sc.meta = dict(entry=entry, rows=rows, cols=cols, mt=mt, latency=latency, nhosts=nhosts, nsteps=run_steps, steps=steps,
                   seedmode=seedmode, ktype=ktype, direction=direction, atype=atype, adir=adir, disp_st=disp_st, est_st=est_st,
                   gen_st=gen_st, zero_weather=zero_weather, nm=nm, ne=ne, res=res, focus=focus,
                   features=dict(lethal=use_lethal, survival=use_surv, overpop=use_overpop, movements=use_moves,
                                 treatments=use_treat, mortality=use_mort, soils=use_soil, weather=use_weather,
                                 spreadrates=use_sr, quarantine=use_q, anthro=use_anthro, det=int(det)))
    return sc


def meta_from_text(text):
    """what the comparison needs, recovered from a case block (replays)"""
    kv = {}
    for l in text.split("\n"):
        t = l.split()
        if t and t[0] not in MULTI_KEYS:
            kv[t[0]] = t[1:]
    g = lambda k, i, d="0": (kv.get(k) or [])[i] if len(kv.get(k) or []) > i else d
    return dict(entry=g("compose", 0, "pools"), seedmode=g("seedmode", 0, "single"), mode=g("mode", 0, "compose"),
                group=(kv.get("group") or [None, None]),
                features=dict(lethal=int(g("lethal", 0)), survival=int(g("survival", 0)), overpop=int(g("overpop", 0)),
                              movements=int(g("movements", 0)), treatments=int(g("treatments", 0)), mortality=int(g("mortality", 0)),
                              soils=int(g("soils", 0)), weather=int(g("weather", 0)), spreadrates=int(g("spreadrates", 0)),
                              quarantine=int(g("quarantine", 0)), anthro=int(g("anthro", 0))),
                nhosts=int(g("hosts", 0, "1")), mt=g("mt", 0, "SI"), ktype=g("kernel", 0, ""), disp_st=int(g("stoch", 3, "1")))


# ----------------------------------------------------------------------------
# C: variants that differ from the base only in inputs of ONE disabled feature
# ----------------------------------------------------------------------------
def other(rng, cur, choices):
    c = [x for x in choices if str(x) != str(cur)]
    return rng.choice(c) if c else cur


def named_seed_variant(sc, rng, stream):
    r = sc.get("seedmode")
    for i, tok in enumerate(r):
        if tok.startswith(stream + "="):
            r[i] = "%s=%d" % (stream, int(tok.split("=")[1]) + rng.randint(1, 10 ** 5))
            return True
    return False


def variants_of(base, rng):
    """-> [(feature, Scn)]: every applicable disabled feature once"""
    m = base.meta
    f = m["features"]
    ncell = m["rows"] * m["cols"]
    nsteps = len(m["steps"])
    named = m["seedmode"] == "named"
    out = []

    def var(feature, edit):
        v = base.clone()
        if edit(v) is not False:
            out.append((feature, v))

    if not f["lethal"]:
        def e(v):
            v.drop("temp")
            v.insert_before_end([["temp"] + gen_temp(rng, ncell) for _ in range(rng.randint(0, 3))])
            r = v.get("lethal")
            r[2] = str(other(rng, r[2], range(1, 13)))
            r[3] = other(rng, r[3], ["-10", "-5", "0", "-25/2", "100", "-1000"])
        var("temperatures", e)
        if named:
            var("seed_lethal_temperature", lambda v: named_seed_variant(v, rng, "lethal_temperature"))
    if not f["survival"]:
        def e(v):
            v.drop("surv")
            v.insert_before_end([["surv"] + gen_surv(rng, ncell) for _ in range(rng.randint(0, 3))])
            r = v.get("survival")
            r[2] = str(other(rng, r[2], range(1, 13)))
            r[3] = str(other(rng, r[3], range(1, 29)))
        var("survival_rates", e)
        if named:
            var("seed_survival_rate", lambda v: named_seed_variant(v, rng, "survival_rate"))
    if not f["movements"]:
        def e(v):
            v.drop("move")
            v.insert_before_end(gen_moves(rng, m["rows"], m["cols"], nsteps))
        var("movements", e)
        if named:
            var("seed_movement", lambda v: named_seed_variant(v, rng, "movement"))
    if not f["treatments"] and m["entry"] == "pools":
        def e(v):
            v.drop("treat")
            v.drop("clearafter")
            v.insert_before_end(gen_treats(rng, m["steps"], ncell))
        var("treatments", e)
    if not f["quarantine"]:
        def e(v):
            r = v.get("qareas")
            r[1:] = [str(rng.choice([0, 1, 2, 5])) for _ in range(ncell)]
            v.get("qdirs")[1] = other(rng, v.get("qdirs")[1], ["-", "N,E", "S", "W"])
            q = v.get("quarantine")
            q[2] = other(rng, q[2], ["year", "every_n_steps", "month", "every_step"])
            q[3] = str(other(rng, q[3], [1, 2, 3]))
        var("quarantine_areas", e)
    k = base.get("kernel")
    radial_nat = m["disp_st"] and k[1] in RADIAL
    if k[2] == "none" and radial_nat:
        def e(v):
            r = v.get("kernel")
            r[4] = other(rng, r[4], ["0", "1", "2", "5", "1/2"])
        var("natural_kappa_without_direction", e)
    a = base.get("anthro")
    if f["anthro"] and a[3] == "none" and m["disp_st"] and a[2] in RADIAL:
        def e(v):
            r = v.get("anthro")
            r[5] = other(rng, r[5], ["0", "1", "2", "5", "1/2"])
        var("anthropogenic_kappa_without_direction", e)
    if not f["anthro"]:
        def e(v):
            r = v.get("anthro")
            pool = (RADIAL + ["uniform", "deterministic-neighbor"]) if m["disp_st"] else (DET_OK + ["deterministic-neighbor"])
            r[2] = other(rng, r[2], pool)
            r[3] = other(rng, r[3], DIRS)
            r[4] = kernel_scale(rng, m["res"], r[2], m["disp_st"])
            r[5] = other(rng, r[5], ["0", "1", "2", "4"])
            r[6] = other(rng, r[6], ["0", "1/4", "1/2", "3/4", "1"])
        var("anthropogenic_parameters", e)

        def e0(v):
            r = v.get("anthro")
            if r[4] == "0":
                return False
            r[4] = "0"  # Config's own default for anthro_scale
        var("anthropogenic_kernel_scale", e0)
        if named:
            var("seed_anthropogenic_dispersal", lambda v: named_seed_variant(v, rng, "anthropogenic_dispersal"))
    if not f["overpop"]:
        def e(v):
            r = v.get("overpop")
            r[2] = other(rng, r[2], ["0", "1/4", "1/2", "1"])
            r[3] = other(rng, r[3], ["0", "1/4", "1/2", "1"])
            r[4] = other(rng, r[4], ["1", "2", "1/2", "1/4"])
        var("overpopulation_parameters", e)

        def e0(v):
            v.get("overpop")[4] = "0"
        var("overpopulation_kernel_scale", e0)
        if named:
            var("seed_overpopulation", lambda v: named_seed_variant(v, rng, "overpopulation"))
    if not f["soils"]:
        def e(v):
            r = v.get("soils")
            r[2] = other(rng, r[2], ["0", "1/4", "1/2", "1"])
            r[3] = str(other(rng, r[3], [1, 2, 3, 4]))
        var("soil_percentage", e)
        if named:
            var("seed_soil", lambda v: named_seed_variant(v, rng, "soil"))
    if not f["mortality"]:
        def e(v):
            r = v.get("mortality")
            r[2] = other(rng, r[2], ["month", "year", "every_n_steps", "every_step", "final_step"])
            r[3] = str(other(rng, r[3], [1, 2, 3]))
            for p in v.all("pht"):
                p[3] = other(rng, p[3], ["0", "1/4", "1/2", "1"])
                p[4] = str(other(rng, p[4], range(0, m["nm"] + 2)))
        var("mortality_parameters", e)
    if not f["spreadrates"] and m["entry"] == "pools":
        def e(v):
            r = v.get("spreadrates")
            r[2] = other(rng, r[2], ["year", "every_n_steps", "month", "every_step"])
            r[3] = str(other(rng, r[3], [1, 2, 3]))
        var("spread_rate_schedule", e)
    if named:
        var("seed_weather", lambda v: named_seed_variant(v, rng, "weather"))
    if not f["weather"]:
        def e(v):
            for r in v.all("wraster"):
                r[1:] = [dy(rng, ["1", "1/2", "3/4", "1/4", "0"]) for _ in range(ncell)]
        var("weather_coefficients", e)
    return out


# ----------------------------------------------------------------------------
# generation of a run
# ----------------------------------------------------------------------------
def generate(seed, tier):
    """-> list of case texts (one block each), metas in parallel"""
    rng = random.Random(seed * 7919 + 31)
    texts, metas = [], []
    foci = [None, "simulation", "simulation", "multi", "anthro", "det", "known", None, "simulation", "anthro"]
    for i in range(N_COMPOSE[tier]):
        focus = foci[i % len(foci)]
        sc = gen_scenario(rng, focus=focus, entry=("rasters" if (focus in (None, "simulation") and rng.random() < 0.25) else None if focus is None else "pools"))
        texts.append(sc.text())
        metas.append(dict(kind="compose", focus=focus))
    gid = 0
    for i in range(N_GROUPS[tier]):
        base = gen_scenario(rng, focus="disabled", mode="onlyA")
        vs = variants_of(base, rng)
        if not vs:
            continue
        rng.shuffle(vs)
        vs = vs[:6]
        b = base.clone()
        b.rows.insert(2, ["group", str(gid), "base"])
        texts.append(b.text())
        metas.append(dict(kind="group", gid=gid, feature="base"))
        for feat, v in vs:
            v.rows.insert(2, ["group", str(gid), feat])
            texts.append(v.text())
            metas.append(dict(kind="group", gid=gid, feature=feat))
        gid += 1
    return texts


def blocks_of(path):
    blocks, cur = [], None
    for l in open(path):
        if l.startswith("#"):
            continue
        if l.startswith("compose "):
            cur = [l]
        elif l.startswith("endcompose") and cur is not None:
            cur.append(l)
            blocks.append("".join(cur))
            cur = None
        elif cur is not None:
            cur.append(l)
    return blocks


# ----------------------------------------------------------------------------
# output of the harness
# ----------------------------------------------------------------------------
def parse_output(path):
    """-> {case: {variant: dict(steps=[(step, 'st'|'err', text)], setup=None|class, skip=None|why, flags={step: [..]}, fired={step: [..]})}}"""
    out = {}
    with open(path, errors="replace") as f:
        for line in f:
            line = line.rstrip("\n")
            if not line:
                continue
            t = line.split(" ", 3)
            if len(t) < 3 or not t[0].isdigit():
                continue
            k = int(t[0])
            c = out.setdefault(k, {})
            if t[1] == "parse":
                c["parse"] = t[3] if len(t) > 3 else "?"
                continue
            v = c.setdefault(t[1], dict(steps=[], setup=None, skip=None, flags={}, fired={}))
            rest = t[3] if len(t) > 3 else ""
            if t[2] == "setup":
                v["setup"] = rest.split()[-1] if rest else "?"
            elif t[2] == "skip":
                v["skip"] = rest
            elif t[2] == "flags":
                p = rest.split()
                v["flags"][int(p[0][1:])] = p[1:]
            elif t[2] == "fired":
                p = rest.split()
                v["fired"][int(p[0][1:])] = p[1:]
            else:
                step = int(t[2][1:])
                if rest.startswith("err "):
                    v["steps"].append((step, "err", rest[4:]))
                else:
                    v["steps"].append((step, "st", rest))
    return out


def parse_cell(tok):
    p = tok.split("|")
    ints = lambda s: [int(x) for x in s.split(",")] if s else []
    return dict(S=int(p[0]), E=ints(p[1]), I=int(p[2]), TE=int(p[3]), R=int(p[4]), M=ints(p[5]), D=int(p[6]), TH=int(p[7]))


def parse_state(rest):
    """'| h0: cells ; suit .. | h1: .. | disp .. | estab .. | outside .. | soil .. | rate .. | quar ..' -> {raster name: value}"""
    st = {n: [] for n in RASTER_ORDER}
    for part in rest.split(" | "):
        part = part.strip().lstrip("|").strip()
        if not part:
            continue
        if re.match(r"h\d+:", part):
            cells_s, _, suit_s = part.partition(" ; suit")
            cells = [parse_cell(t) for t in cells_s.split()[1:]]
            st["susceptible"].append([c["S"] for c in cells])
            st["exposed"].append([c["E"] for c in cells])
            st["infected"].append([c["I"] for c in cells])
            st["total_exposed"].append([c["TE"] for c in cells])
            st["resistant"].append([c["R"] for c in cells])
            st["mortality_tracker"].append([c["M"] for c in cells])
            st["died"].append([c["D"] for c in cells])
            st["total_hosts"].append([c["TH"] for c in cells])
            st["suitable_cells"].append(suit_s.split())
        elif part.startswith("disp"):
            st["dispersers"] = part.split()[1:]
        elif part.startswith("estab"):
            st["established_dispersers"] = part.split()[1:]
        elif part.startswith("outside"):
            st["outside_dispersers"] = part.split()[1:]
        elif part.startswith("soil"):
            st["soil"] = part.split()[1:]
        elif part.startswith("rate"):
            st["spread_rate"] = part.split()[1:]
        elif part.startswith("quar"):
            st["quarantine"] = part.split()[1:]
    return st


def first_difference(a, b):
    """a, b: variant records -> None or (step, raster name, text of A, text of the other)"""
    if a["setup"] or b["setup"]:
        if a["setup"] != b["setup"]:
            return (-1, "exception", "setup: %s" % a["setup"], "setup: %s" % b["setup"])
        return None
    for (sa, ka, ta), (sb, kb, tb) in zip(a["steps"], b["steps"]):
        if sa != sb:
            return (min(sa, sb), "steps", "step %d" % sa, "step %d" % sb)
        if ka == "err" or kb == "err":
            if (ka, ta) != (kb, tb):
                return (sa, "exception", ("exception " + ta) if ka == "err" else "no exception", ("exception " + tb) if kb == "err" else "no exception")
            return None
        if ta == tb:
            continue
        pa, pb = parse_state(ta), parse_state(tb)
        for name in RASTER_ORDER:
            if pa[name] != pb[name]:
                return (sa, name, "%s = %s" % (name, pa[name]), "%s = %s" % (name, pb[name]))
        return (sa, "steps", ta[:200], tb[:200])
    if len(a["steps"]) != len(b["steps"]):
        return (min(len(a["steps"]), len(b["steps"])), "steps", "%d steps reported" % len(a["steps"]), "%d steps reported" % len(b["steps"]))
    return None


# ----------------------------------------------------------------------------
# run (cached per tier, seed, harness binary and this file)
# ----------------------------------------------------------------------------
def shared_run(ctx, replay):
    sanitize = ctx.tier == "thorough"
    h, err = vc.build_harness("compose", sanitize=sanitize)
    if err:
        ctx.broke("harness compose.cpp builds against /repo", err)
        return None
    me = os.path.abspath(__file__)
    if replay:
        rb = [b for b in blocks_of(replay) if re.search(r"^mode (compose|onlyA)$", b, re.M)]
        if not rb:
            return dict(blocks=[], out={}, stats={})
        label = "replay_" + hashlib.sha256("".join(rb).encode()).hexdigest()[:12]
    else:
        label = "%s_%d" % (ctx.tier, ctx.seed)
    key = vc.sha_files([h, me], extra=label)[:20]
    d = os.path.join(vc.BUILD, "work", "compose", label + "_" + key)
    os.makedirs(d, exist_ok=True)
    P = lambda x: os.path.join(d, x)
    with vc.Lock("compose_" + label):
        parent = os.path.dirname(d)
        for f in os.listdir(parent):
            q = os.path.join(parent, f)
            try:
                if q != d and os.path.isdir(q) and time.time() - os.path.getmtime(q) > 3 * 3600:
                    import shutil
                    shutil.rmtree(q, ignore_errors=True)
            except OSError:
                pass
        if not os.path.exists(P("done")):
            stats = {}
            t0 = time.time()
            texts = rb if replay else generate(ctx.seed, ctx.tier)
            stats["generation_s"] = round(time.time() - t0, 2)
            with open(P("cases.txt"), "w") as f:
                f.write("".join(texts))
            t1 = time.time()
            env = dict(os.environ, ASAN_OPTIONS="detect_leaks=0", UBSAN_OPTIONS="print_stacktrace=1:halt_on_error=1")
            rc, e = vc.run_to_file([h, P("cases.txt")], P("impl.out"), timeout=1800, env=env)
            stats["harness_s"] = round(time.time() - t1, 2)
            stats["sanitized"] = sanitize
            if rc != 0:
                last = -1
                for l in open(P("impl.out"), errors="replace"):
                    t = l.split(" ", 1)[0]
                    if t.isdigit():
                        last = max(last, int(t))
                bl = blocks_of(P("cases.txt"))
                # the case being run when the harness died: the one after the last case that printed
                # everything, or that one itself
                cand = [bl[i] for i in (last, last + 1) if 0 <= i < len(bl)]
                return dict(crash=(rc, e, "".join(cand)))
            json.dump(stats, open(P("stats.json"), "w"))
            open(P("done"), "w").write("ok")
    return dict(blocks=blocks_of(P("cases.txt")), out=parse_output(P("impl.out")), stats=json.load(open(P("stats.json"))))


def classify_b2(meta, rec, step):
    """a difference between A and B2 at `step`: is one of the known stream differences of the
    single pool a possible cause?  -> suffix of the key or None"""
    single_stream = meta["seedmode"] == "single"
    for s, names in sorted(rec["flags"].items()):
        if s > step and step >= 0:
            continue
        if "zero_suitability_landing" in names:
            return "zero_suitability_landing"
        if "overpopulation_move_stochastic_kernel" in names:
            return "overpopulation_move"
        if "overpopulation_move" in names and single_stream:
            return "overpopulation_move"
    return None


def part(ctx, pid, replay=None):
    """Called by eng_hostmodel.check; does something for C09 only."""
    if pid != PID:
        return
    t0 = time.time()
    run = shared_run(ctx, replay)
    if run is None:
        return
    if "crash" in run:
        rc, e, case = run["crash"]
        if case:
            ctx.violation("C09.crash.compose", "the library terminated abnormally (exit %d) while Model::run_step or the composition of the "
                          "public actions ran this in-domain scenario (or the one after it)" % rc, case, e[-1500:])
        else:
            ctx.broke("compose: the harness terminated abnormally (exit %d)" % rc, e)
        return
    blocks, out = run["blocks"], run["out"]
    cov = dict(cases=len(blocks))
    ctx.coverage["compose"] = cov
    if not blocks:
        return
    st = dict(compose_cases=0, steps_compared_actions=0, steps_compared_simulation=0, simulation_cases=0, simulation_skipped={},
              simulation_known_stream_difference_possible=0, simulation_known_stream_difference_seen=0,
              groups=0, variants={}, exceptions={}, fired={}, feature_mix={}, entry={}, seedmode={}, hosts={}, model_type={}, kernels={},
              cases_with_state_change=0)
    groups = {}
    for k, text in enumerate(blocks):
        meta = meta_from_text(text)
        o = out.get(k, {})
        if "parse" in o:
            ctx.broke("compose: the harness could not read a generated case (%s)" % o["parse"], text[:800])
            continue
        if meta["mode"] == "onlyA":
            gid, feat = meta["group"][0], meta["group"][1]
            groups.setdefault(gid, []).append((feat, k, text))
            continue
        st["compose_cases"] += 1
        a, b1, b2 = o.get("A"), o.get("B1"), o.get("B2")
        if not a or not b1:
            ctx.broke("compose: missing output for a case", text[:400])
            continue
        for name, on in meta["features"].items():
            if on:
                st["feature_mix"][name] = st["feature_mix"].get(name, 0) + 1
        for key, val in (("entry", meta["entry"]), ("seedmode", meta["seedmode"]), ("hosts", str(meta["nhosts"])), ("model_type", meta["mt"]),
                         ("kernels", meta["ktype"] + ("" if meta["disp_st"] else "(deterministic)"))):
            st[key][val] = st[key].get(val, 0) + 1
        seen = set()
        for names in b1["fired"].values():
            seen.update(names)
        for n in seen:
            st["fired"][n] = st["fired"].get(n, 0) + 1
        for rec in (a,):
            if rec["setup"]:
                st["exceptions"]["setup:" + rec["setup"]] = st["exceptions"].get("setup:" + rec["setup"], 0) + 1
            for (s, kind, t) in rec["steps"]:
                if kind == "err":
                    st["exceptions"][t] = st["exceptions"].get(t, 0) + 1
        states = [t for (_, kind, t) in a["steps"] if kind == "st"]
        if len(set(states)) > 1:
            st["cases_with_state_change"] += 1
        st["steps_compared_actions"] += len(a["steps"])
        d = first_difference(a, b1)
        if d:
            step, name, ta, tb = d
            ctx.violation("C09.composition.actions.%s" % name,
                          "Model::run_step and the same actions applied one by one (public action classes, same seeds) differ after step %d: %s"
                          % (step, name), text, "case #%d, step %d\nModel::run_step : %s\ncomposition     : %s" % (k, step, ta[:600], tb[:600]))
        if b2 is None:
            continue
        if b2["skip"]:
            st["simulation_skipped"][b2["skip"]] = st["simulation_skipped"].get(b2["skip"], 0) + 1
            continue
        st["simulation_cases"] += 1
        st["steps_compared_simulation"] += len(a["steps"])
        if classify_b2(meta, b2, 10 ** 9):
            st["simulation_known_stream_difference_possible"] += 1
        d = first_difference(a, b2)
        if d:
            step, name, ta, tb = d
            known = classify_b2(meta, b2, step)
            if known:
                st["simulation_known_stream_difference_seen"] += 1
                ctx.violation("C09.composition.simulation_single_pool.%s" % known,
                              "Model::run_step and the same steps composed from the legacy Simulation methods differ after step %d (%s) "
                              "after an event at which Simulation's single HostPool uses the random streams differently from the model's "
                              "MultiHostPool (%s)" % (step, name, known), text,
                              "case #%d, step %d\nModel::run_step : %s\nSimulation      : %s" % (k, step, ta[:600], tb[:600]))
            else:
                ctx.violation("C09.composition.simulation.%s" % name,
                              "Model::run_step and the same steps composed from the legacy Simulation methods (same seeds, kernels built "
                              "directly from the kernel classes) differ after step %d: %s" % (step, name), text,
                              "case #%d, step %d\nModel::run_step : %s\nSimulation      : %s" % (k, step, ta[:600], tb[:600]))
    for gid, members in groups.items():
        base = [m for m in members if m[0] == "base"]
        if not base:
            continue
        st["groups"] += 1
        _, kb, tb_ = base[0]
        ab = out.get(kb, {}).get("A")
        if not ab:
            continue
        for feat, k, text in members:
            if feat == "base":
                continue
            st["variants"][feat] = st["variants"].get(feat, 0) + 1
            av = out.get(k, {}).get("A")
            if not av:
                ctx.broke("compose: missing output for a disabled-input variant", text[:400])
                continue
            d = first_difference(ab, av)
            if d:
                step, name, ta, tv = d
                ctx.violation("C09.disabled_input_influence.%s" % feat,
                              "Model::run_step gives a different result (%s after step %d) when only inputs of a switched-off feature "
                              "change (%s)" % (name, step, feat), tb_ + text,
                              "base case #%d, variant #%d\nbase    : %s\nvariant : %s" % (kb, k, ta[:600], tv[:600]))
    cov.update({
        "steps_compared": st["steps_compared_actions"] + st["steps_compared_simulation"],
        "statistics": st,
        "rule": "a case = configuration + landscape + inputs + 1-13 steps; A (Model::run_step) is compared after every step with B1 "
                "(public action classes applied one by one) and, for single-host cases, B2 (legacy Simulation methods); a disabled-input "
                "group = base + variants differing in the inputs of one switched-off feature each",
        "samples": [blocks[0][:1500]],
        "run": run["stats"],
        "wall_s": round(time.time() - t0, 2),
    })
