"""Shared machinery of the /verif checks.

One check = (1) proof obligations: Properties_<id>.v is recompiled by coqc and
its Print Assumptions output parsed; (2) correspondence: the extracted Coq model
and a C++ harness built from /repo's working tree run the same case file and
their canonical outputs are diffed; (3) monitor: the property's own predicate,
written independently of the model, is evaluated on the implementation's
output and is what produces a concrete failing input.  See DESIGN.md section 1.
"""
import fcntl
import hashlib
import json
import os
import re
import subprocess
import sys
import time

VERIF = os.path.dirname(os.path.dirname(os.path.abspath(__file__)))
REPO = os.environ.get("VERIF_REPO", "/repo")
BUILD = os.path.join(VERIF, "build")
COQ = os.path.join(VERIF, "coq")
GUARD = "POPS_CORE_VERIF"

# Axioms of Coq's standard library that proofs may depend on (named in DESIGN.md
# section 5).  Anything else reported by Print Assumptions fails the check.
ALLOWED_AXIOMS = {
    "ClassicalDedekindReals.sig_forall_dec",
    "ClassicalDedekindReals.sig_not_dec",
    "Classical_Prop.classic",
    "FunctionalExtensionality.functional_extensionality_dep",
    "functional_extensionality_dep",
    "sig_forall_dec",
    "sig_not_dec",
    "classic",
    "ProofIrrelevance.proof_irrelevance",
    "proof_irrelevance",
    "Eqdep.Eq_rect_eq.eq_rect_eq",
    "eq_rect_eq",
    "JMeq.JMeq_eq",
    "JMeq_eq",
    "PropExtensionality.propositional_extensionality",
    "propositional_extensionality",
    "ClassicalEpsilon.constructive_indefinite_description",
    "constructive_indefinite_description",
    "Raxioms / ClassicalDedekindReals (standard library reals)",
}

FORBIDDEN = re.compile(
    r"\b(Admitted|admit|Axiom|Axioms|Parameter|Parameters|Conjecture|Conjectures|"
    r"Abort All|Unset Guard Checking|Unset Positivity Checking|Unset Universe Checking|"
    r"bypass_check|Admit Obligations|type-in-type|impredicative-set|native_compute)\b"
)


def log(msg):
    print(msg, flush=True)


def run(cmd, timeout=600, cwd=None, env=None, stdin=None):
    """Returns (exit code, stdout+stderr text); exit code 124 on timeout."""
    try:
        p = subprocess.run(
            cmd,
            cwd=cwd,
            env=env,
            input=stdin,
            stdout=subprocess.PIPE,
            stderr=subprocess.STDOUT,
            timeout=timeout,
            shell=isinstance(cmd, str),
            text=True,
            errors="replace",
        )
        return p.returncode, p.stdout
    except subprocess.TimeoutExpired as e:
        out = e.stdout or ""
        if isinstance(out, bytes):
            out = out.decode(errors="replace")
        return 124, out + "\n[timeout after %ss]" % timeout


class Lock:
    """Inter-process lock so that concurrently started checks do not build the
    same artefact twice."""

    def __init__(self, name):
        os.makedirs(BUILD, exist_ok=True)
        self.path = os.path.join(BUILD, "." + name + ".lock")

    def __enter__(self):
        self.f = open(self.path, "w")
        fcntl.flock(self.f, fcntl.LOCK_EX)
        return self

    def __exit__(self, *a):
        fcntl.flock(self.f, fcntl.LOCK_UN)
        self.f.close()


_TREE_LOCK = None


def hold_tree():
    """Generated*.v files, harness binaries and the evidence are shared by all
    checks; checks of DIFFERENT trees (VERIF_REPO, used to try a change of the
    library in a scratch worktree) must therefore not overlap, while checks of the
    same tree may run in parallel.  Shared lock while the recorded tree is ours,
    exclusive lock to change it."""
    global _TREE_LOCK
    os.makedirs(BUILD, exist_ok=True)
    path = os.path.join(BUILD, ".tree.lock")
    f = open(path, "a+")
    while True:
        fcntl.flock(f, fcntl.LOCK_SH)
        f.seek(0)
        if f.read().strip() == REPO:
            break
        fcntl.flock(f, fcntl.LOCK_UN)
        fcntl.flock(f, fcntl.LOCK_EX)
        f.seek(0)
        f.truncate()
        f.write(REPO)
        f.flush()
        fcntl.flock(f, fcntl.LOCK_UN)
    _TREE_LOCK = f   # held until the process exits


def prune_work(subdir, max_age_s=3 * 3600, keep=30):
    """Scenario runs are cached under build/work/<engine>/<label>_<hash>; old entries are
    dropped (older than max_age_s and beyond the newest `keep`) so the cache stays small."""
    import shutil
    import time
    root = os.path.join(BUILD, "work", subdir)
    try:
        ds = [os.path.join(root, d) for d in os.listdir(root)]
    except OSError:
        return
    ds = sorted((d for d in ds if os.path.isdir(d)), key=lambda d: os.path.getmtime(d), reverse=True)
    now = time.time()
    for d in ds[keep:]:
        try:
            if now - os.path.getmtime(d) > max_age_s:
                shutil.rmtree(d, ignore_errors=True)
        except OSError:
            pass


def sha_files(paths, extra=""):
    h = hashlib.sha256()
    h.update(extra.encode())
    for p in sorted(paths):
        h.update(p.encode())
        try:
            with open(p, "rb") as f:
                h.update(f.read())
        except OSError:
            h.update(b"<missing>")
    return h.hexdigest()


def files_under(d, exts):
    out = []
    for root, _, fs in os.walk(d):
        for f in fs:
            if f.endswith(exts):
                out.append(os.path.join(root, f))
    return out


# --------------------------------------------------------------------------
# Coq side
# --------------------------------------------------------------------------

def coq_sources():
    return sorted(files_under(os.path.join(COQ, "theories"), (".v",)))


def forbidden_scan():
    """The development must not declare axioms, admit anything or switch off
    kernel checks.  Comments are stripped before scanning."""
    bad = []
    for p in coq_sources() + files_under(os.path.join(COQ, "extract"), (".v",)):
        txt = open(p, errors="replace").read()
        txt = strip_coq_comments(txt)
        for i, line in enumerate(txt.split("\n"), 1):
            m = FORBIDDEN.search(line)
            if m:
                bad.append("%s:%d: %s" % (os.path.relpath(p, VERIF), i, m.group(0)))
        for m in re.finditer(r"^\s*(Variable|Variables|Hypothesis|Hypotheses|Context)\b", txt, re.M):
            # only allowed inside a Section
            before = txt[: m.start()]
            depth = len(re.findall(r"^\s*Section\b", before, re.M)) - len(
                re.findall(r"^\s*End\b", before, re.M)
            )
            nmod = len(re.findall(r"^\s*Module\b", before, re.M))
            if depth - 0 <= 0 and nmod == 0:
                bad.append("%s: %s outside a section" % (os.path.relpath(p, VERIF), m.group(1)))
    return bad


def strip_coq_comments(txt):
    out = []
    depth = 0
    i = 0
    n = len(txt)
    while i < n:
        if txt.startswith("(*", i):
            depth += 1
            i += 2
        elif txt.startswith("*)", i) and depth > 0:
            depth -= 1
            i += 2
        else:
            if depth == 0:
                out.append(txt[i])
            elif txt[i] == "\n":
                out.append("\n")
            i += 1
    return "".join(out)


def coq_makefile():
    """(Re)generates _CoqProject's file list and the Makefile when the set of
    .v files changed."""
    with Lock("coqmk"):
        proj = os.path.join(COQ, "_CoqProject")
        vs = [os.path.relpath(p, COQ) for p in coq_sources()]
        want = "-Q theories Pops\n-arg -w -arg -deprecated\n" + "\n".join(vs) + "\n"
        cur = open(proj).read() if os.path.exists(proj) else ""
        if cur != want or not os.path.exists(os.path.join(COQ, "Makefile")):
            with open(proj, "w") as f:
                f.write(want)
            rc, out = run(["coq_makefile", "-f", "_CoqProject", "-o", "Makefile"], cwd=COQ)
            if rc != 0:
                raise RuntimeError("coq_makefile failed:\n" + out)


def coq_make(targets, timeout=1500, keep_going=True):
    coq_makefile()
    with Lock("coqmake"):
        cmd = ["make", "-j16"] + (["-k"] if keep_going else []) + targets
        return run(cmd, timeout=timeout, cwd=COQ)


def translate_all(only_for=None):
    """Runs the translators (header -> Generated*.v).  Each translator names its
    output in a line `OUTPUT: GeneratedX.v` of its docstring.  With only_for =
    a set of Coq module names, only the translators whose output module is in
    that set run (a check regenerates what its own theorems depend on).  Returns
    a list of problems (regions a translator could no longer parse)."""
    problems = []
    tdir = os.path.join(VERIF, "translate")
    if not os.path.isdir(tdir):
        return problems
    for f in sorted(os.listdir(tdir)):
        if f.endswith(".py") and not f.startswith("_"):
            txt = open(os.path.join(tdir, f)).read()
            outs = re.findall(r"(Generated[A-Za-z0-9_]*)\.v", txt)
            if only_for is not None and not (set(outs) & set(only_for)):
                continue
            with Lock("translate_" + f):
                rc, out = run([sys.executable, os.path.join(tdir, f), REPO, os.path.join(COQ, "theories")], timeout=120)
            if rc != 0:
                problems.append("%s: %s" % (f, out.strip()[-2000:]))
    return problems


def coq_module_closure(pid):
    """Names of the Pops modules Properties_<pid>.v depends on (transitively),
    including generated ones that may not exist yet."""
    seen = set()
    todo = ["Properties_%s" % pid]
    while todo:
        mname = todo.pop()
        if mname in seen:
            continue
        seen.add(mname)
        p = os.path.join(COQ, "theories", mname + ".v")
        if not os.path.exists(p):
            continue
        txt = strip_coq_comments(open(p).read())
        for m in re.finditer(r"From\s+Pops\s+Require\s+(?:Import|Export)\s+([^.]+)\.", txt):
            todo += m.group(1).split()
    return seen


class ProofResult:
    def __init__(self):
        self.obligations = 0
        self.discharged = 0
        self.theorems = []  # names
        self.axioms = {}  # theorem -> list of axiom names ([] = closed)
        self.ok = False
        self.log = ""
        self.problems = []  # strings
        self.failed_theorem = None
        self.wall = 0.0


def prove(pid, timeout=1500):
    """Builds everything Properties_<pid>.v depends on, then recompiles that
    file itself so that its Print Assumptions output is captured on this run."""
    t0 = time.time()
    res = ProofResult()
    bad = forbidden_scan()
    if bad:
        res.problems += ["forbidden construct: " + b for b in bad]
    tp = translate_all(only_for=coq_module_closure(pid))
    res.problems += ["translator: " + p for p in tp]
    src = os.path.join(COQ, "theories", "Properties_%s.v" % pid)
    if not os.path.exists(src):
        res.problems.append("missing " + src)
        return res
    txt = strip_coq_comments(open(src).read())
    res.theorems = re.findall(r"^\s*(?:Theorem|Lemma|Corollary|Example)\s+([A-Za-z0-9_']+)", txt, re.M)
    res.obligations = len(res.theorems)
    printed = re.findall(r"Print Assumptions\s+([A-Za-z0-9_'.]+)\s*\.", txt)
    missing_pa = [t for t in res.theorems if t not in printed]
    if missing_pa:
        res.problems.append("no Print Assumptions for: " + ", ".join(missing_pa))
    # Property files may contain nothing but statements closed by `exact`.
    for m in re.finditer(r"(Theorem|Lemma|Corollary)\s+[A-Za-z0-9_']+.*?Proof\.(.*?)(Qed|Defined)\.", txt, re.S):
        body = m.group(2).strip()
        if not re.fullmatch(r"(intros[^.]*\.\s*)?(exact|apply)\s+[^;]+?\.", body):
            res.problems.append("Properties_%s.v: proof body is not a bare `exact`: %s" % (pid, body[:80]))
    # dependencies
    rc, out = coq_make(["theories/Properties_%s.vo" % pid], timeout=timeout)
    res.log = out
    if rc != 0:
        m = re.search(r'File "([^"]+)", line (\d+)', out)
        res.problems.append(
            "coq build failed (%s)%s" % ("timeout" if rc == 124 else "exit %d" % rc, " at %s:%s" % m.groups() if m else "")
        )
        res.failed_theorem = _theorem_at(out, src)
        res.wall = time.time() - t0
        return res
    # recompile the property file itself to capture Print Assumptions
    rc, out = run(
        ["coqc", "-Q", "theories", "Pops", "-w", "-deprecated", "theories/Properties_%s.v" % pid],
        timeout=timeout,
        cwd=COQ,
    )
    res.log += "\n" + out
    if rc != 0:
        res.problems.append("coqc Properties_%s.v failed" % pid)
        res.failed_theorem = _theorem_at(out, src)
    # parse Print Assumptions blocks in order
    blocks = re.split(r"(?m)^(?=Closed under the global context|Axioms:)", out)
    blocks = [b for b in blocks if b.startswith("Closed under") or b.startswith("Axioms:")]
    for name, blk in zip(printed, blocks):
        if blk.startswith("Closed under"):
            res.axioms[name] = []
        else:
            names = re.findall(r"(?m)^([A-Za-z_][A-Za-z0-9_.']*)\s*:", blk[len("Axioms:"):])
            res.axioms[name] = names
            for a in names:
                if a not in ALLOWED_AXIOMS and a.split(".")[-1] not in ALLOWED_AXIOMS:
                    res.problems.append("theorem %s depends on non-allowed axiom %s" % (name, a))
    res.discharged = len([t for t in res.theorems if t in res.axioms]) if rc == 0 else min(len(blocks), res.obligations)
    if rc == 0 and len(blocks) != len(printed):
        res.problems.append("Print Assumptions output incomplete (%d of %d)" % (len(blocks), len(printed)))
    res.ok = rc == 0 and not res.problems and res.discharged == res.obligations and res.obligations > 0
    res.wall = time.time() - t0
    return res


def _theorem_at(out, src):
    m = re.search(r'File "([^"]+)", line (\d+)', out)
    if not m:
        return None
    f, ln = m.group(1), int(m.group(2))
    p = f if os.path.isabs(f) else os.path.join(COQ, f)
    try:
        lines = open(p).read().split("\n")[:ln]
    except OSError:
        return os.path.basename(f)
    for l in reversed(lines):
        mm = re.match(r"\s*(?:Theorem|Lemma|Corollary|Example|Fact|Remark|Proposition|Definition|Fixpoint)\s+([A-Za-z0-9_']+)", l)
        if mm:
            return "%s:%s" % (os.path.basename(f), mm.group(1))
    return os.path.basename(f)


def trusted_base_lines(res):
    allax = sorted({a for v in res.axioms.values() for a in v})
    tb = ["Coq 8.16.1 kernel (coqc); vm_compute for finite sweeps; no native_compute"]
    if allax:
        tb.append("standard-library axioms used (Print Assumptions): " + ", ".join(allax))
    else:
        tb.append("Print Assumptions: all theorems closed under the global context (no axioms)")
    tb.append("extraction: ExtrOcamlBasic only, no Extract Constant; OCaml 4.13.1; ocaml/*.ml driver")
    tb.append("correspondence harness harness/*.cpp compiled from /repo with g++ -std=c++17 -D" + GUARD)
    return tb


# --------------------------------------------------------------------------
# Executables
# --------------------------------------------------------------------------

def build_model(engine):
    """Extracts the Coq model of one engine (coq/extract/Extract_<engine>.v) to
    OCaml and compiles it with ocaml/conv.ml and ocaml/drv_<engine>.ml (cached).
    Each engine has its own extraction and driver binary so that engines do not
    depend on each other's definitions."""
    odir = os.path.join(BUILD, "ocaml", engine)
    os.makedirs(odir, exist_ok=True)
    ext = os.path.join(COQ, "extract", "Extract_%s.v" % engine)
    drv = os.path.join(VERIF, "ocaml", "drv_%s.ml" % engine)
    conv = os.path.join(VERIF, "ocaml", "conv.ml")
    # the .v files the extraction file imports (From Pops Require Import A B C.)
    txt = strip_coq_comments(open(ext).read())
    mods = []
    for m in re.finditer(r"From\s+Pops\s+Require\s+Import\s+([^.]+)\.", txt):
        mods += m.group(1).split()
    defs = [os.path.join(COQ, "theories", m + ".v") for m in mods]
    closure = _coq_dep_closure(defs)
    key = sha_files(closure + [ext, drv, conv])
    exe = os.path.join(odir, "popsdriver")
    stamp = os.path.join(odir, "stamp")
    with Lock("ocaml_" + engine):
        if os.path.exists(exe) and os.path.exists(stamp) and open(stamp).read() == key:
            return exe, None
        targets = ["theories/" + os.path.basename(p)[:-2] + ".vo" for p in defs]
        rc, out = coq_make(targets, keep_going=False)
        if rc != 0:
            return None, "model definitions do not compile:\n" + out[-3000:]
        for f in os.listdir(odir):
            try:
                os.remove(os.path.join(odir, f))
            except OSError:
                pass
        rc, out = run(
            ["coqc", "-Q", os.path.join(COQ, "theories"), "Pops", "-w", "-deprecated,-extraction",
             "-o", os.path.join(odir, "Extract_%s.vo" % engine), ext],
            cwd=odir, timeout=600)
        if rc != 0:
            return None, "extraction failed:\n" + out[-3000:]
        for p in (conv, drv):
            with open(os.path.join(odir, os.path.basename(p)), "w") as f:
                f.write(open(p).read())
        rc, out = run(
            ["ocamlfind", "ocamlopt", "-w", "-a", "-O2", "-package", "str", "-linkpkg",
             "popsmodel.mli", "popsmodel.ml", "conv.ml", os.path.basename(drv), "-o", "popsdriver"],
            cwd=odir, timeout=900)
        if rc != 0:
            return None, "driver build failed:\n" + out[-3000:]
        open(stamp, "w").write(key)
        return exe, None


def _coq_dep_closure(files):
    """Transitive closure over `From Pops Require Import` of the given .v files."""
    seen = []
    todo = list(files)
    while todo:
        p = todo.pop()
        if p in seen or not os.path.exists(p):
            continue
        seen.append(p)
        txt = strip_coq_comments(open(p).read())
        for m in re.finditer(r"From\s+Pops\s+Require\s+(?:Import|Export)\s+([^.]+)\.", txt):
            for mod in m.group(1).split():
                todo.append(os.path.join(COQ, "theories", mod + ".v"))
    return seen


def build_harness(name, sanitize=False, extra_flags=()):
    """Compiles harness/<name>.cpp against /repo's *current* working tree with
    the hook guard on.  Cached on a hash of /repo/include and the harness."""
    bdir = os.path.join(BUILD, "bin")
    os.makedirs(bdir, exist_ok=True)
    src = os.path.join(VERIF, "harness", name + ".cpp")
    incs = files_under(os.path.join(REPO, "include"), (".hpp", ".h"))
    hdrs = files_under(os.path.join(VERIF, "harness"), (".hpp",))
    flags = ["-std=c++17", "-O1", "-g", "-ffp-contract=off", "-I" + os.path.join(REPO, "include"),
             "-I" + os.path.join(VERIF, "harness"), "-D" + GUARD] + list(extra_flags)
    if sanitize:
        flags += ["-fsanitize=address,undefined", "-fno-sanitize-recover=all", "-fno-omit-frame-pointer"]
    cov = bool(os.environ.get("VERIF_COV"))   # tools/coverage.py: which library lines do the harnesses reach
    if cov:
        flags = [f for f in flags if f != "-O1"] + ["-O0", "--coverage"]
    key = sha_files(incs + hdrs + [src], extra=" ".join(flags))
    exe = os.path.join(bdir, name + ("-san" if sanitize else "") + ("-cov" if cov else ""))
    stamp = exe + ".stamp"
    with Lock("h_" + name + ("-san" if sanitize else "")):
        if os.path.exists(exe) and os.path.exists(stamp) and open(stamp).read() == key:
            return exe, None
        rc, out = run(["g++"] + flags + [src, "-o", exe], timeout=900)
        if rc != 0:
            return None, "harness %s does not compile against /repo:\n%s" % (name, out[-4000:])
        open(stamp, "w").write(key)
        return exe, None


def run_to_file(cmd, outpath, timeout=1800, env=None):
    with open(outpath, "w") as f:
        try:
            p = subprocess.run(cmd, stdout=f, stderr=subprocess.PIPE, timeout=timeout, env=env)
            return p.returncode, p.stderr.decode(errors="replace")[-4000:]
        except subprocess.TimeoutExpired:
            return 124, "timeout"


# --------------------------------------------------------------------------
# Known findings, verdicts, evidence
# --------------------------------------------------------------------------

def load_known(pid):
    p = os.path.join(VERIF, "known_findings.json")
    if not os.path.exists(p):
        return []
    data = json.load(open(p))
    return [e for e in data.get("findings", []) if e.get("property") == pid and e.get("status") == "known"]


class Violation:
    def __init__(self, key, what, case=None, detail=None):
        self.key = key  # stable identification: clause + call site/first breaking action
        self.what = what
        self.case = case
        self.detail = detail


class Ctx:
    """State of one check run."""

    def __init__(self, pid, tier, seed):
        self.pid = pid
        self.tier = tier
        self.seed = seed
        self.t0 = time.time()
        self.violations = []  # Violation with failing input
        self.broken = []  # (name, detail): proof obligations / correspondences that no longer check
        self.coverage = {}
        self.assumptions = []
        self.proof = None
        self.work = os.path.join(BUILD, "work", pid)
        os.makedirs(self.work, exist_ok=True)
        rdir = os.path.join(VERIF, "replays", pid)
        if os.path.isdir(rdir):
            for f in os.listdir(rdir):
                if f.endswith(".replay"):
                    os.remove(os.path.join(rdir, f))

    def violation(self, key, what, case=None, detail=None):
        self.violations.append(Violation(key, what, case, detail))

    def broke(self, name, detail):
        self.broken.append((name, detail))

    def finish(self):
        pid = self.pid
        known = load_known(pid)
        rdir = os.path.join(VERIF, "replays", pid)
        os.makedirs(rdir, exist_ok=True)
        exit_code = 0
        n_viol = 0
        reported_known = set()
        new_viol = []
        for v in self.violations:
            hit = None
            for k in known:
                if re.search(k["match"], v.key):
                    hit = k
                    break
            if hit:
                if hit["id"] not in reported_known:
                    reported_known.add(hit["id"])
                    log("KNOWN-FINDING: property=%s %s" % (pid, hit["what"]))
            else:
                new_viol.append(v)
        if new_viol:
            # group by key, report the first of each key
            seen = set()
            for v in new_viol:
                if v.key in seen:
                    continue
                seen.add(v.key)
                n_viol += 1
                path = os.path.join(rdir, "%s_%s.replay" % (re.sub(r"[^A-Za-z0-9_.-]+", "_", v.key)[:80], self.seed))
                with open(path, "w") as f:
                    f.write("# property %s violated: %s\n# key: %s\n" % (pid, v.what, v.key))
                    if v.detail:
                        for l in str(v.detail).split("\n"):
                            f.write("# " + l + "\n")
                    if v.case:
                        f.write(v.case.rstrip("\n") + "\n")
                log("VIOLATION property=%s replay=%s" % (pid, path))
                exit_code = 1
        elif self.broken:
            # the property is no longer shown to hold, and no failing input was found
            n_viol += 1
            path = os.path.join(rdir, "broken_%s.replay" % self.seed)
            with open(path, "w") as f:
                f.write("# property %s: no failing input found, but the following no longer check\n" % pid)
                for name, detail in self.broken:
                    f.write("# BROKEN: %s\n" % name)
                    for l in str(detail).split("\n")[:60]:
                        f.write("#   " + l + "\n")
            for name, _ in self.broken:
                log("BROKEN: " + name)
            log("VIOLATION property=%s replay=%s no-failing-input-found" % (pid, path))
            exit_code = 1
        if new_viol and self.broken:
            for name, _ in self.broken:
                log("BROKEN: " + name)
        self.write_evidence(n_viol, sorted(reported_known))
        return exit_code

    def write_evidence(self, n_viol, known_hit):
        cov = dict(self.coverage)
        pr = self.proof
        if pr is not None:
            cov["obligations"] = pr.obligations
            cov["discharged"] = pr.discharged
            cov["checker_cmd"] = (
                "make -C coq theories/Properties_%s.vo && coqc -Q theories Pops theories/Properties_%s.v "
                "(Print Assumptions parsed)" % (self.pid, self.pid)
            )
            cov["trusted_base"] = trusted_base_lines(pr)
            cov["theorems"] = pr.theorems
            cov["axioms_per_theorem"] = pr.axioms
            cov["proof_wall_s"] = round(pr.wall, 1)
            if pr.problems:
                cov["proof_problems"] = pr.problems
            if pr.discharged < 1 or pr.obligations < 1:
                # nothing was discharged in this run (broken build): the schema's
                # proof keys require at least one; report the counts under other
                # names and let the run be judged by its exploration counts
                cov["obligations_total"] = cov.pop("obligations")
                cov["obligations_discharged"] = cov.pop("discharged")
        cov.setdefault("evaluations", 0)
        cov.setdefault("distinct_nontrivial", 0)
        cov.setdefault("samples", [])
        cov["known_findings_hit"] = known_hit
        ev = {
            "property_id": self.pid,
            "tier": self.tier,
            "seed": self.seed,
            "level": "proof",
            "coverage": cov,
            "assumptions": self.assumptions,
            "wall_s": round(time.time() - self.t0, 2),
            "violations": n_viol,
        }
        os.makedirs(os.path.join(VERIF, "evidence"), exist_ok=True)
        with open(os.path.join(VERIF, "evidence", self.pid + ".json"), "w") as f:
            json.dump(ev, f, indent=1, sort_keys=True)
            f.write("\n")


def diff_outputs(impl_path, model_path, relevant=None, limit=5):
    """Line-by-line comparison of the canonical outputs.  `relevant(line)`
    selects the lines a property looks at.  Returns (n_compared, diffs) where
    diffs is a list of (case_no, impl_line, model_line)."""
    def load(p):
        d = {}
        order = []
        with open(p, errors="replace") as f:
            for line in f:
                line = line.rstrip("\n")
                if not line:
                    continue
                if relevant and not relevant(line):
                    continue
                k = line.split(" ", 1)[0]
                d.setdefault(k, []).append(line)
                order.append(k)
        return d
    a = load(impl_path)
    b = load(model_path)
    diffs = []
    n = 0
    for k in sorted(set(a) | set(b), key=lambda s: int(s) if s.isdigit() else -1):
        la, lb = a.get(k, []), b.get(k, [])
        n += max(len(la), len(lb))
        if la != lb:
            for x, y in zip(la + [None] * len(lb), lb + [None] * len(la)):
                if x != y:
                    diffs.append((k, x, y))
                    break
    return n, diffs


def read_cases(path):
    out = []
    with open(path) as f:
        for line in f:
            line = line.rstrip("\n")
            if line and not line.startswith("#"):
                out.append(line)
    return out
