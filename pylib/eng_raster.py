"""Raster engine: C19 (raster arithmetic is element-wise and value-semantic for
every shape).

Case kinds (one line each; harness/raster.cpp and ocaml/drv_raster.ml read the
same file).  <R> = <t> <rows> <cols> <cell>*, <S> = <t> <value>, t = i (int) or
d (double); double values are dyadic rationals written n or n/2^m so that the
binary64 arithmetic of the implementation is exact and can be compared with the
model's Q arithmetic digit for digit.  <mode> says how operands are stored:
own (Raster(r,c) then cells written), lst (initializer list), pad (a wrapper
over a caller array that is longer than the raster and padded with sentinels).

  RR <mode> <op> <R> <R>    c = a op b           op in add sub mul div
  RS <mode> <op> <R> <S>    c = a op s
  SR <mode> <op> <S> <R>    c = s op a
  CS <mode> <op> <R> <S>    a op= s
  CR <mode> <op> <R> <R>    a op= b
  PW <mode> <R> <e>         c = pow(a, e), e an integer
  SQ <mode> <R>             c = sqrt(a)
  EQ <mode> <R> <R>         a == b, a != b
  OWN <t> <nslots> (; <ownership op>)*   a sequence on a pool of raster
        variables and caller arrays: default v | sized v r c cells | fill v r c x
        | list v r c cells | like v w x | ext n cells | wrap v e r c | copy v w
        | move v w | cassign v w | massign v w | destroy v | write v i j x
        | extw e k x

The monitor below restates the property in Python (exact integer / Fraction
arithmetic with the C++ conversion rules; a value-semantics reference for the
ownership sequences) independently of the Coq model and evaluates it on the
implementation's output only.
"""
import os
import random
from fractions import Fraction

import vcommon as vc

PROPERTIES = ["C19"]

OPS = ["add", "sub", "mul", "div"]
SHAPES = [(r, c) for r in range(1, 5) for c in range(1, 5)]
ZERO_SHAPES = [(0, 0), (0, 3), (2, 0)]
KNOWN_INT_FLOAT_KEY = "C19.elementwise.compound_scalar.int_raster_floating_scalar"


# --------------------------------------------------------------------------
# numbers (specification side)
# --------------------------------------------------------------------------
def is_dyadic(q):
    d = Fraction(q).denominator
    return d & (d - 1) == 0


def fmt(t, v):
    if t == "i":
        return str(int(v))
    q = Fraction(v)
    return str(q.numerator) if q.denominator == 1 else "%d/%d" % (q.numerator, q.denominator)


def parse_val(s):
    """A value printed by the harness -> int/Fraction, or None when it is not a
    plain integer or fraction (poison patterns, non-finite values)."""
    try:
        if "/" in s:
            n, d = s.split("/")
            return Fraction(int(n), int(d))
        return Fraction(int(s))
    except ValueError:
        return None


def cdiv(a, b):
    """C++ int division: truncation toward zero."""
    q = abs(a) // abs(b)
    return q if (a < 0) == (b < 0) else -q


class DomainError(Exception):
    pass


def c_arith(op, x, y):
    """x op y for typed values (t, v) under the usual arithmetic conversions."""
    (tx, vx), (ty, vy) = x, y
    if op == "div" and vy == 0:
        raise DomainError("division by zero")
    if tx == "i" and ty == "i":
        if op == "add":
            return ("i", vx + vy)
        if op == "sub":
            return ("i", vx - vy)
        if op == "mul":
            return ("i", vx * vy)
        return ("i", cdiv(vx, vy))
    a, b = Fraction(vx), Fraction(vy)
    if op == "add":
        return ("d", a + b)
    if op == "sub":
        return ("d", a - b)
    if op == "mul":
        return ("d", a * b)
    return ("d", a / b)


def conv(t, x):
    """Conversion of a computed value to the element type it is stored in."""
    tx, vx = x
    if t == "i":
        return ("i", int(vx))  # int() of a Fraction truncates toward zero, like C++
    return ("d", Fraction(vx))


def common(ta, tb):
    return "i" if ta == "i" and tb == "i" else "d"


def isqrt_exact(q):
    """Exact square root of a non-negative Fraction, or None."""
    import math
    q = Fraction(q)
    if q < 0:
        return None
    n, d = math.isqrt(q.numerator), math.isqrt(q.denominator)
    if n * n == q.numerator and d * d == q.denominator:
        return Fraction(n, d)
    return None


# --------------------------------------------------------------------------
# generators
# --------------------------------------------------------------------------
class Gen:
    def __init__(self, rng):
        self.rng = rng

    def ival(self, nonzero=False, pow2=False, lo=-9, hi=9):
        r = self.rng
        while True:
            v = r.choice([1, 2, 4, -1, -2, -4]) if pow2 else r.choice([r.randint(lo, hi), r.randint(-3, 3), 0, 1, -1, 7])
            if not (nonzero and v == 0):
                return v

    def dval(self, nonzero=False, pow2=False, lo=-12, hi=12):
        r = self.rng
        while True:
            if pow2:
                v = Fraction(r.choice([1, -1])) * Fraction(2) ** r.randint(-2, 2)
            else:
                v = Fraction(r.randint(lo, hi), r.choice([1, 1, 2, 4]))
                if r.random() < 0.15:
                    v = Fraction(r.choice([0, 1, -1, 5]))
            if not (nonzero and v == 0):
                return v

    def cells(self, t, n, **kw):
        return [self.ival(**kw) if t == "i" else self.dval(**kw) for _ in range(n)]

    def mode(self, allow_pad=True):
        return self.rng.choice(["own", "lst", "pad"] if allow_pad else ["own", "lst"])


def rtoks(t, r, c, cells):
    return "%s %d %d %s" % (t, r, c, " ".join(fmt(t, v) for v in cells)) if cells else "%s %d %d" % (t, r, c)


def expected_cells_ok(vals):
    """The generator only emits cases whose exact results are representable:
    ints small, doubles dyadic with small exponents."""
    for t, v in vals:
        if t == "i":
            if abs(v) > 10 ** 6:
                return False
        else:
            q = Fraction(v)
            if not is_dyadic(q) or q.denominator > 2 ** 20 or abs(q.numerator) > 10 ** 9:
                return False
    return True


INT_SCALARS = [-3, -1, 0, 1, 2, 5]
DBL_SCALARS = [Fraction(-5, 2), Fraction(-1, 2), Fraction(0), Fraction(1, 2), Fraction(3, 4), Fraction(3, 2),
               Fraction(2), Fraction(-2), Fraction(1), Fraction(1, 4), Fraction(-7, 4)]


def gen_algebra(rng, reps, shapes):
    g = Gen(rng)
    cases = []

    def attempt(build, tries=40):
        for _ in range(tries):
            line = build()
            if line:
                cases.append(line)
                return

    for (r, c) in shapes:
        n = r * c
        for _ in range(reps):
            for op in OPS:
                # raster op raster, every combination of element types
                for ta, tb in (("i", "i"), ("i", "d"), ("d", "i"), ("d", "d")):
                    def rr(kind="RR", ta=ta, tb=tb):
                        exact_div = op == "div" and common(ta, tb) == "d"
                        a = g.cells(ta, n)
                        b = g.cells(tb, n, nonzero=(op == "div"), pow2=exact_div)
                        try:
                            res = [c_arith(op, (ta, x), (tb, y)) for x, y in zip(a, b)]
                        except DomainError:
                            return None
                        if kind == "CR":
                            res = [conv(ta, v) for v in res]
                        if not expected_cells_ok(res):
                            return None
                        return "%s %s %s %s %s" % (kind, g.mode(), op, rtoks(ta, r, c, a), rtoks(tb, r, c, b))
                    attempt(rr)
                    if not (ta == "i" and tb == "d"):  # int raster op= double raster does not compile
                        attempt(lambda: rr("CR"))
                # raster/scalar forms
                for ta in ("i", "d"):
                    for ts in ("i", "d"):
                        def scal(kind, ta=ta, ts=ts):
                            s = rng.choice(INT_SCALARS) if ts == "i" else rng.choice(DBL_SCALARS)
                            if rng.random() < 0.2:
                                s = g.ival() if ts == "i" else g.dval()
                            exact = ta == "d"
                            if op == "div" and kind != "SR":
                                if s == 0:
                                    return None
                                if exact and ts == "d" and not is_dyadic(1 / Fraction(s)):
                                    return None
                                if exact and ts == "i" and (abs(s) & (abs(s) - 1)) != 0:
                                    return None
                            if kind == "CS" and op == "div" and ta == "i" and ts == "d" and s.__floor__() == 0:
                                return None  # the code divides by floor(s): outside the domain
                            a = g.cells(ta, n, nonzero=(op == "div" and kind == "SR"),
                                        pow2=(op == "div" and kind == "SR" and exact))
                            if kind == "CS" and ta == ts and n >= 2 and rng.random() < 0.4:
                                # the scalar is (a reference to) the raster's own first cell: the
                                # harness passes that cell itself; every cell must still see the
                                # ORIGINAL value of the scalar (value semantics)
                                a[0] = s
                            try:
                                if kind == "SR":
                                    res = [conv(ta, c_arith(op, (ts, s), (ta, x))) for x in a]
                                else:
                                    res = [conv(ta, c_arith(op, (ta, x), (ts, s))) for x in a]
                            except DomainError:
                                return None
                            if not expected_cells_ok(res):
                                return None
                            if kind == "SR":
                                return "SR %s %s %s %s %s" % (g.mode(), op, ts, fmt(ts, s), rtoks(ta, r, c, a))
                            return "%s %s %s %s %s %s" % (kind, g.mode(), op, rtoks(ta, r, c, a), ts, fmt(ts, s))
                        for kind in ("RS", "SR", "CS"):
                            attempt(lambda: scal(kind))
            # pow / sqrt
            for ta in ("i", "d"):
                for e in (0, 1, 2, 3, -1, -2):
                    def pw(ta=ta, e=e):
                        a = g.cells(ta, n, nonzero=(e < 0), pow2=(e < 0 and ta == "d"), lo=-6, hi=6)
                        res = [conv(ta, ("d", Fraction(x) ** e)) for x in a]
                        if not expected_cells_ok(res):
                            return None
                        return "PW %s %s %d" % (g.mode(), rtoks(ta, r, c, a), e)
                    attempt(pw)

                def sq(ta=ta):
                    if ta == "i":
                        a = [rng.choice([0, 1, 2, 3, 4, 8, 9, 15, 16, 17, 24, 25, 99, 100, rng.randint(0, 400)]) for _ in range(n)]
                    else:
                        a = [Fraction(rng.randint(0, 12), rng.choice([1, 2, 4])) ** 2 for _ in range(n)]
                    return "SQ %s %s" % (g.mode(), rtoks(ta, r, c, a))
                attempt(sq)
    return cases


def gen_mismatch(rng, reps):
    """Binary and compound operators on rasters of different shape (including
    equal cell counts such as 2x3 / 3x2 / 1x6-like pairs).  Always in pad mode:
    whatever an unchecked loop reads or writes stays inside harness memory."""
    g = Gen(rng)
    cases = []
    shapes = SHAPES + ZERO_SHAPES
    pairs = [(a, b) for a in shapes for b in shapes if a != b]
    for _ in range(reps):
        for (sa, sb) in pairs:
            if rng.random() > 0.25 and not (sa[0] * sa[1] == sb[0] * sb[1]):
                continue
            op = rng.choice(OPS)
            ta, tb = rng.choice([("i", "i"), ("d", "d"), ("d", "i"), ("i", "d")])
            a = g.cells(ta, sa[0] * sa[1])
            b = g.cells(tb, sb[0] * sb[1], nonzero=True, pow2=True)
            cases.append("RR pad %s %s %s" % (op, rtoks(ta, sa[0], sa[1], a), rtoks(tb, sb[0], sb[1], b)))
            if not (ta == "i" and tb == "d"):
                cases.append("CR pad %s %s %s" % (op, rtoks(ta, sa[0], sa[1], a), rtoks(tb, sb[0], sb[1], b)))
    return cases


def gen_equality(rng, reps, mode):
    """Exhaustive over all shapes <= 4x4 (plus zero-size ones): equal rasters,
    every single-cell difference, and every pair of different shapes."""
    g = Gen(rng)
    cases = []
    shapes = SHAPES + ZERO_SHAPES
    for _ in range(reps):
        for t in ("i", "d"):
            for (r, c) in shapes:
                n = r * c
                a = g.cells(t, n)
                cases.append("EQ %s %s %s" % (mode, rtoks(t, r, c, a), rtoks(t, r, c, a)))
                for k in range(n):
                    b = list(a)
                    b[k] = a[k] + rng.choice([1, -1, 2]) if t == "i" else a[k] + rng.choice([Fraction(1, 4), -1, Fraction(1, 2)])
                    cases.append("EQ %s %s %s" % (mode, rtoks(t, r, c, a), rtoks(t, r, c, b)))
            for sa in shapes:
                for sb in shapes:
                    if sa == sb:
                        continue
                    # same leading cells, so that only the shape distinguishes them
                    n = max(sa[0] * sa[1], sb[0] * sb[1])
                    v = g.cells(t, n)
                    cases.append("EQ %s %s %s" % (mode, rtoks(t, sa[0], sa[1], v[:sa[0] * sa[1]]),
                                                  rtoks(t, sb[0], sb[1], v[:sb[0] * sb[1]])))
    return cases


def gen_known_int_float(rng, reps):
    """Integral raster op= floating scalar with a fractional part (finding
    C19-int-compound-float-scalar) and with an integral value (must agree)."""
    g = Gen(rng)
    cases = []
    for _ in range(reps):
        for (r, c) in [(1, 3), (3, 1), (2, 3), (1, 1), (4, 2)]:
            for op in OPS:
                for s in [Fraction(1, 2), Fraction(-1, 2), Fraction(3, 2), Fraction(5, 2), Fraction(-7, 4), Fraction(2), Fraction(-3)]:
                    if op == "div" and s.__floor__() == 0:
                        continue
                    a = g.cells("i", r * c)
                    cases.append("CS %s %s %s d %s" % (g.mode(), op, rtoks("i", r, c, a), fmt("d", s)))
    return cases


# ---- ownership sequences ---------------------------------------------------
class Spec:
    """Value-semantics reference for the ownership sequences: a variable holds
    a value (its own cells), is a view of a caller array, or is empty-handed
    (default constructed / moved from).  Assignment replaces what the variable
    is; only cell writes through a view (and the caller) change a caller array."""

    def __init__(self, nslots):
        self.slots = [None] * nslots
        self.exts = []

    def contents(self, v):
        s = self.slots[v]
        n = s["rows"] * s["cols"]
        if s["kind"] == "value":
            return s["cells"][:n]
        if s["kind"] == "view":
            return self.exts[s["ext"]][:n]
        return []

    def readable(self, v):
        s = self.slots[v]
        if s is None:
            return False
        n = s["rows"] * s["cols"]
        if s["kind"] == "null":
            return n == 0
        if s["kind"] == "view":
            return n <= len(self.exts[s["ext"]])
        return True

    def apply(self, op):
        name = op[0]
        S = self.slots
        if name == "default":
            S[op[1]] = {"kind": "null", "rows": 0, "cols": 0}
        elif name in ("sized", "list"):
            S[op[1]] = {"kind": "value", "rows": op[2], "cols": op[3], "cells": list(op[4])}
        elif name == "fill":
            S[op[1]] = {"kind": "value", "rows": op[2], "cols": op[3], "cells": [op[4]] * (op[2] * op[3])}
        elif name == "like":
            w = S[op[2]]
            S[op[1]] = {"kind": "value", "rows": w["rows"], "cols": w["cols"], "cells": [op[3]] * (w["rows"] * w["cols"])}
        elif name == "ext":
            self.exts.append(list(op[1]))
        elif name == "wrap":
            S[op[1]] = {"kind": "view", "rows": op[3], "cols": op[4], "ext": op[2]}
        elif name == "copy" or (name == "cassign" and op[1] != op[2]):
            w = S[op[2]]
            S[op[1]] = {"kind": "value", "rows": w["rows"], "cols": w["cols"], "cells": list(self.contents(op[2]))}
        elif name == "move" or (name == "massign" and op[1] != op[2]):
            w = S[op[2]]
            S[op[1]] = w
            S[op[2]] = {"kind": "null", "rows": w["rows"], "cols": w["cols"]}
        elif name == "destroy":
            S[op[1]] = None
        elif name == "write":
            s = S[op[1]]
            k = op[2] * s["cols"] + op[3]
            if s["kind"] == "value":
                s["cells"][k] = op[4]
            else:
                self.exts[s["ext"]][k] = op[4]
        elif name == "extw":
            self.exts[op[1]][op[2]] = op[3]


def op_tokens(t, op):
    name = op[0]
    if name in ("sized", "list"):
        return "%s %d %d %d %s" % (name, op[1], op[2], op[3], " ".join(fmt(t, v) for v in op[4]))
    if name == "fill":
        return "fill %d %d %d %s" % (op[1], op[2], op[3], fmt(t, op[4]))
    if name == "like":
        return "like %d %d %s" % (op[1], op[2], fmt(t, op[3]))
    if name == "ext":
        return "ext %d %s" % (len(op[1]), " ".join(fmt(t, v) for v in op[1]))
    if name == "write":
        return "write %d %d %d %s" % (op[1], op[2], op[3], fmt(t, op[4]))
    if name == "extw":
        return "extw %d %d %s" % (op[1], op[2], fmt(t, op[3]))
    return " ".join([name] + [str(x) for x in op[1:]])


def parse_own(line):
    tk = line.split()
    t, nslots = tk[1], int(tk[2])
    ops = []
    i = 3
    num = (lambda s: int(s)) if t == "i" else (lambda s: parse_val(s))
    while i < len(tk):
        assert tk[i] == ";"
        name = tk[i + 1]
        i += 2
        if name in ("sized", "list"):
            v, r, c = int(tk[i]), int(tk[i + 1]), int(tk[i + 2])
            cells = [num(x) for x in tk[i + 3:i + 3 + r * c]]
            ops.append((name, v, r, c, cells))
            i += 3 + r * c
        elif name == "fill":
            ops.append((name, int(tk[i]), int(tk[i + 1]), int(tk[i + 2]), num(tk[i + 3])))
            i += 4
        elif name == "like":
            ops.append((name, int(tk[i]), int(tk[i + 1]), num(tk[i + 2])))
            i += 3
        elif name == "ext":
            n = int(tk[i])
            ops.append((name, [num(x) for x in tk[i + 1:i + 1 + n]]))
            i += 1 + n
        elif name == "wrap":
            ops.append((name, int(tk[i]), int(tk[i + 1]), int(tk[i + 2]), int(tk[i + 3])))
            i += 4
        elif name in ("copy", "move", "cassign", "massign"):
            ops.append((name, int(tk[i]), int(tk[i + 1])))
            i += 2
        elif name in ("destroy", "default"):
            ops.append((name, int(tk[i])))
            i += 1
        elif name == "write":
            ops.append((name, int(tk[i]), int(tk[i + 1]), int(tk[i + 2]), num(tk[i + 3])))
            i += 4
        elif name == "extw":
            ops.append((name, int(tk[i]), int(tk[i + 1]), num(tk[i + 2])))
            i += 3
        else:
            raise ValueError("ownership op " + name)
    return t, nslots, ops


def own_line(t, nslots, ops):
    return "OWN %s %d" % (t, nslots) + "".join(" ; " + op_tokens(t, o) for o in ops)


def gen_own_one(rng, t, length):
    g = Gen(rng)
    nslots = rng.choice([3, 4, 5])
    spec = Spec(nslots)
    ops = []

    def val():
        return g.ival() if t == "i" else g.dval()

    def shape():
        return rng.choice(SHAPES + SHAPES + [(0, 0), (0, 2), (1, 0)])

    def emit(op):
        ops.append(op)
        spec.apply(op)

    emit(("ext", [val() for _ in range(rng.choice([4, 6, 8, 12]))]))
    if rng.random() < 0.5:
        emit(("ext", [val() for _ in range(rng.choice([1, 3, 16]))]))
    for _ in range(length):
        empty = [v for v in range(nslots) if spec.slots[v] is None]
        alive = [v for v in range(nslots) if spec.slots[v] is not None]
        readable = [v for v in alive if spec.readable(v)]
        writable = [v for v in alive if spec.slots[v]["kind"] != "null" and spec.slots[v]["rows"] * spec.slots[v]["cols"] > 0
                    and spec.readable(v)]
        choices = []
        if empty:
            choices += ["sized", "fill", "list", "wrap", "wrap", "default"]
            if alive:
                choices += ["like"]
            if readable:
                choices += ["copy", "copy", "copy"]
            if alive:
                choices += ["move", "move"]
        if alive:
            choices += ["destroy", "massign", "massign"]
            if readable:
                choices += ["cassign", "cassign", "cassign"]
        if writable:
            choices += ["write"] * 4
        choices += ["extw"]
        name = rng.choice(choices)
        if name in ("sized", "fill", "list", "default", "wrap", "like", "copy", "move"):
            v = rng.choice(empty)
        if name == "default":
            emit(("default", v))
        elif name == "sized":
            r, c = shape()
            emit(("sized", v, r, c, [val() for _ in range(r * c)]))
        elif name == "fill":
            r, c = shape()
            emit(("fill", v, r, c, val()))
        elif name == "list":
            r, c = rng.choice(SHAPES)
            emit(("list", v, r, c, [val() for _ in range(r * c)]))
        elif name == "like":
            emit(("like", v, rng.choice(alive), val()))
        elif name == "wrap":
            e = rng.randrange(len(spec.exts))
            fits = [s for s in SHAPES + [(0, 0)] if s[0] * s[1] <= len(spec.exts[e])]
            r, c = rng.choice(fits)
            emit(("wrap", v, e, r, c))
        elif name == "copy":
            emit(("copy", v, rng.choice(readable)))
        elif name == "move":
            emit(("move", v, rng.choice(alive)))
        elif name == "cassign":
            w = rng.choice(readable)
            v = rng.choice(alive + [w])  # self assignment now and then
            emit(("cassign", v, w))
        elif name == "massign":
            w = rng.choice(alive)
            v = rng.choice(alive)
            emit(("massign", v, w))
        elif name == "destroy":
            emit(("destroy", rng.choice(alive)))
        elif name == "write":
            v = rng.choice(writable)
            s = spec.slots[v]
            emit(("write", v, rng.randrange(s["rows"]), rng.randrange(s["cols"]), val()))
        elif name == "extw":
            e = rng.randrange(len(spec.exts))
            emit(("extw", e, rng.randrange(len(spec.exts[e])), val()))
    return own_line(t, nslots, ops)


CORPUS = [
    # minimised past failures (run first on every check)
    # operator==/!= looped i < cols_, j < cols_ and ignored the shape (fix: C19_equality_loop_bounds)
    "EQ pad i 3 1 1 2 3 i 3 1 1 2 4",
    "EQ pad i 1 3 1 2 3 i 1 3 1 2 3",
    "EQ pad d 2 2 1/2 2 3 4 d 1 2 1/2 2",
    # pow/sqrt overwrote their const argument (fix: C19_pow_sqrt_overwrite_operand)
    "PW own d 2 2 4 5 2 3 2",
    "SQ lst i 2 2 16 25 10 0",
    # compound raster-raster operators did not compare shapes (fix: C19_compound_shape_unchecked)
    "CR pad add i 2 2 1 2 3 4 i 1 2 1 2",
    "CR pad mul d 1 2 1/2 3 d 2 2 1 2 4 1/2",
    # the pattern of test_non_owner: assignment to a wrapper must leave the array alone
    "OWN i 3 ; ext 12 11 12 13 14 21 22 23 24 31 32 33 34 ; wrap 0 0 3 4 ; write 0 2 3 40 ; extw 0 11 50 ; "
    "list 1 2 2 100 200 300 400 ; massign 0 1 ; destroy 1 ; write 0 1 0 1000",
    "OWN d 4 ; ext 4 1/2 1 3/2 2 ; wrap 0 0 2 2 ; copy 1 0 ; write 1 0 0 9 ; write 0 1 1 -7/4 ; move 2 1 ; "
    "cassign 1 2 ; massign 2 2 ; copy 3 0 ; cassign 0 2 ; destroy 2",
]


def generate(tier, seed, path):
    rng = random.Random(seed * 7919 + 19)
    thorough = tier == "thorough"
    cases = list(CORPUS)
    cdir = os.path.join(vc.VERIF, "corpus", "raster")
    if os.path.isdir(cdir):
        for f in sorted(os.listdir(cdir)):
            cases += vc.read_cases(os.path.join(cdir, f))
    cases += gen_algebra(rng, 20 if thorough else 1, SHAPES + ZERO_SHAPES)
    cases += gen_known_int_float(rng, 8 if thorough else 1)
    cases += gen_mismatch(rng, 12 if thorough else 1)
    cases += gen_equality(rng, 10 if thorough else 1, "pad")
    for i in range(8000 if thorough else 150):
        cases.append(gen_own_one(rng, rng.choice("id"), rng.choice([6, 10, 16, 25, 40])))
    if thorough:
        # the same equality sweep on rasters that own their memory: reads past a
        # buffer are then for the sanitizer to see (the harness aborts: kept last)
        cases += gen_equality(rng, 3, "own")
    with open(path, "w") as f:
        f.write("\n".join(cases) + "\n")
    return cases


# --------------------------------------------------------------------------
# implementation output
# --------------------------------------------------------------------------
def group_output(path):
    out = {}
    with open(path, errors="replace") as f:
        for line in f:
            line = line.rstrip("\n")
            if not line:
                continue
            k, _, rest = line.partition(" ")
            if k.isdigit():
                out.setdefault(int(k), []).append(rest)
    return out


def parse_raster_str(s):
    """'i:2x3:[1,2,3,4,5,6]' -> (t, rows, cols, [values or None])"""
    try:
        t, shape, cells = s.split(":", 2)
        r, c = shape.split("x")
        body = cells.strip()[1:-1]
        vals = [parse_val(x) for x in body.split(",")] if body else []
        return (t, int(r), int(c), vals)
    except (ValueError, IndexError):
        return None


def parse_cells_str(s):
    body = s.strip()[1:-1]
    return [parse_val(x) for x in body.split(",")] if body else []


def field(lines, tag):
    for l in lines:
        if l.startswith(tag + " "):
            return l[len(tag) + 1:]
    return None


def read_R(tk, i):
    t, r, c = tk[i], int(tk[i + 1]), int(tk[i + 2])
    vals = [int(x) if t == "i" else parse_val(x) for x in tk[i + 3:i + 3 + r * c]]
    return (t, r, c, vals), i + 3 + r * c


def same_raster(got, exp):
    """got: parsed implementation raster; exp: (t, r, c, [values])"""
    if got is None:
        return False
    if got[0] != exp[0] or got[1] != exp[1] or got[2] != exp[2] or len(got[3]) != len(exp[3]):
        return False
    return all(g is not None and Fraction(g) == Fraction(e) for g, e in zip(got[3], exp[3]))


def show(R):
    return "%s:%dx%d:[%s]" % (R[0], R[1], R[2], ",".join(fmt(R[0], v) for v in R[3]))


# --------------------------------------------------------------------------
# monitor
# --------------------------------------------------------------------------
def monitor_algebra(line, lines, ctx, stats):
    tk = line.split()
    kind, mode = tk[0], tk[1]
    stats[kind] = stats.get(kind, 0) + 1
    viol = lambda key, what: ctx.violation(key, what, line, "impl: " + " | ".join(lines)[:600])

    # memory: sentinels intact, nothing leaked or freed wrongly
    pad = field(lines, "pad")
    if pad is None:
        stats["cases_without_complete_output"] = stats.get("cases_without_complete_output", 0) + 1
        return
    if not pad.startswith("ok"):
        viol("C19.memory.out_of_bounds_write.%s" % kind, "cells outside the raster were modified")
    if "memerr=none" not in pad:
        viol("C19.memory.bad_free.%s" % kind, "invalid delete[]: %s" % pad)
    if "live=0" not in pad:
        stats["leaked_buffers_observed"] = stats.get("leaked_buffers_observed", 0) + 1

    if kind == "EQ":
        A, i = read_R(tk, 2)
        B, i = read_R(tk, i)
        stats["eq_pairs"] = stats.get("eq_pairs", 0) + 1
        equal = A[1] == B[1] and A[2] == B[2] and all(Fraction(x) == Fraction(y) for x, y in zip(A[3], B[3]))
        got = field(lines, "eq") or ""
        g = got.split()
        if len(g) != 3 or g[0] not in "01" or g[2] not in "01":
            viol("C19.equality.output", "unexpected output %r" % got)
            return
        eq, ne = g[0] == "1", g[2] == "1"
        if (A[1], A[2]) != (B[1], B[2]):
            stats["eq_shape_differs"] = stats.get("eq_shape_differs", 0) + 1
            if eq or not ne:
                viol("C19.equality.shape_ignored", "rasters of shape %dx%d and %dx%d: == gives %s, != gives %s"
                     % (A[1], A[2], B[1], B[2], eq, ne))
        elif equal:
            if not eq or ne:
                viol("C19.equality.equal_rasters_compare_unequal",
                     "%s compared with an equal raster: == gives %s, != gives %s" % (show(A), eq, ne))
        else:
            stats["eq_single_cell_diffs"] = stats.get("eq_single_cell_diffs", 0) + 1
            if eq or not ne:
                k = [j for j in range(len(A[3])) if Fraction(A[3][j]) != Fraction(B[3][j])][0]
                viol("C19.equality.differing_rasters_compare_equal",
                     "%s and %s differ in cell %d (row %d, col %d): == gives %s, != gives %s"
                     % (show(A), show(B), k, k // A[2], k % A[2], eq, ne))
        for tag, X in (("lhs", A), ("rhs", B)):
            if not same_raster(parse_raster_str(field(lines, tag) or ""), X):
                viol("C19.operands_unchanged.equality", "%s changed by the comparison: %s" % (tag, field(lines, tag)))
        return

    if kind in ("RR", "CR"):
        op = tk[2]
        A, i = read_R(tk, 3)
        B, i = read_R(tk, i)
        mismatch = (A[1], A[2]) != (B[1], B[2])
        if mismatch:
            stats["shape_mismatch"] = stats.get("shape_mismatch", 0) + 1
        tagres = "res" if kind == "RR" else "status"
        got = field(lines, tagres) or ""
        if mismatch:
            if got != "err:invalid_argument":
                viol("C19.shape_mismatch.%s" % ("binary" if kind == "RR" else "compound"),
                     "%s %s on shapes %dx%d and %dx%d is not rejected with invalid_argument: %s"
                     % ("a op b" if kind == "RR" else "a op= b", op, A[1], A[2], B[1], B[2], got[:80]))
                return  # what an unchecked loop then did to the operands is a consequence, not a second finding
            expA = A
        else:
            try:
                cells = [c_arith(op, (A[0], x), (B[0], y)) for x, y in zip(A[3], B[3])]
            except DomainError:
                stats["skipped_out_of_domain"] = stats.get("skipped_out_of_domain", 0) + 1
                return
            if kind == "RR":
                exp = (common(A[0], B[0]), A[1], A[2], [v for _, v in cells])
                if not same_raster(parse_raster_str(got), exp):
                    viol("C19.elementwise.raster_raster.%s" % op, "a %s b gives %s, cell-wise result is %s" % (op, got[:120], show(exp)))
                expA = A
            else:
                expA = (A[0], A[1], A[2], [conv(A[0], v)[1] for v in cells])
                if got != "ok":
                    viol("C19.elementwise.compound_raster.%s" % op, "a %s= b on equal shapes failed: %s" % (op, got))
        gl = parse_raster_str(field(lines, "lhs") or "")
        if not same_raster(gl, expA):
            if kind == "CR" and not mismatch:
                viol("C19.elementwise.compound_raster.%s" % op, "a %s= b gives %s, cell-wise result is %s" % (op, field(lines, "lhs"), show(expA)))
            else:
                viol("C19.operands_unchanged.%s" % ("raster_raster" if kind == "RR" else "compound_rejected"),
                     "left operand is %s afterwards, was %s" % (field(lines, "lhs"), show(A)))
        if not same_raster(parse_raster_str(field(lines, "rhs") or ""), B):
            viol("C19.operands_unchanged.%s" % ("raster_raster" if kind == "RR" else "compound_raster"),
                 "right operand is %s afterwards, was %s" % (field(lines, "rhs"), show(B)))
        if mode == "pad":
            mem = field(lines, "mem")
            if mem is None or [None if v is None else Fraction(v) for v in parse_cells_str(mem)] != [Fraction(v) for v in expA[3]]:
                viol("C19.wrapper_writes_through.%s" % kind, "caller array holds %s, the raster %s" % (mem, show(expA)))
        return

    if kind in ("RS", "SR", "CS"):
        op = tk[2]
        if kind == "SR":
            ts, s = tk[3], (int(tk[4]) if tk[3] == "i" else parse_val(tk[4]))
            A, i = read_R(tk, 5)
        else:
            A, i = read_R(tk, 3)
            ts, s = tk[i], (int(tk[i + 1]) if tk[i] == "i" else parse_val(tk[i + 1]))
        try:
            if kind == "SR":
                cells = [conv(A[0], c_arith(op, (ts, s), (A[0], x)))[1] for x in A[3]]
            else:
                # the same operation on the cell: C++ `cell op s` / `cell op= s`, stored in the element type
                cells = [conv(A[0], c_arith(op, (A[0], x), (ts, s)))[1] for x in A[3]]
        except DomainError:
            stats["skipped_out_of_domain"] = stats.get("skipped_out_of_domain", 0) + 1
            return
        exp = (A[0], A[1], A[2], cells)
        if kind == "CS":
            got = field(lines, "lhs") or ""
            if not same_raster(parse_raster_str(got), exp):
                if A[0] == "i" and ts == "d":
                    stats["int_raster_float_scalar_diffs"] = stats.get("int_raster_float_scalar_diffs", 0) + 1
                    viol(KNOWN_INT_FLOAT_KEY,
                         "int raster %s= %s gives %s, the same operation on each cell gives %s (the scalar is floored first)"
                         % (op, fmt(ts, s), got[:120], show(exp)))
                else:
                    viol("C19.elementwise.compound_scalar.%s" % op, "a %s= %s gives %s, cell-wise result is %s" % (op, fmt(ts, s), got[:120], show(exp)))
            elif A[0] == "i" and ts == "d":
                stats["int_raster_float_scalar_agree"] = stats.get("int_raster_float_scalar_agree", 0) + 1
            if parse_raster_str(got) and parse_raster_str(got)[0] != A[0]:
                viol("C19.integer_stays_integer.compound", "element type changed: %s" % got[:60])
            after = parse_raster_str(got)
        else:
            got = field(lines, "res") or ""
            if not same_raster(parse_raster_str(got), exp):
                viol("C19.elementwise.%s.%s" % ("raster_scalar" if kind == "RS" else "scalar_raster", op),
                     "%s gives %s, cell-wise result is %s" % ("a %s %s" % (op, fmt(ts, s)) if kind == "RS" else "%s %s a" % (fmt(ts, s), op), got[:120], show(exp)))
            if not same_raster(parse_raster_str(field(lines, "arg") or ""), A):
                viol("C19.operands_unchanged.%s" % ("raster_scalar" if kind == "RS" else "scalar_raster"),
                     "operand is %s afterwards, was %s" % (field(lines, "arg"), show(A)))
            after = A
        if mode == "pad" and after is not None:
            mem = field(lines, "mem")
            if mem is None or [None if v is None else Fraction(v) for v in parse_cells_str(mem)] != [None if v is None else Fraction(v) for v in after[3]]:
                viol("C19.wrapper_writes_through.%s" % kind, "caller array holds %s, the raster %s" % (mem, after))
        return

    if kind in ("PW", "SQ"):
        A, i = read_R(tk, 2)
        if kind == "PW":
            e = int(tk[i])
            try:
                cells = [conv(A[0], ("d", Fraction(x) ** e))[1] for x in A[3]]
            except ZeroDivisionError:
                return
        else:
            import math
            cells = []
            for x in A[3]:
                if A[0] == "i":
                    if x < 0:
                        return
                    cells.append(math.isqrt(x))
                else:
                    q = isqrt_exact(x)
                    if q is None:
                        stats["skipped_inexact"] = stats.get("skipped_inexact", 0) + 1
                        return
                    cells.append(q)
        exp = (A[0], A[1], A[2], cells)
        name = "pow" if kind == "PW" else "sqrt"
        got = field(lines, "res") or ""
        if not same_raster(parse_raster_str(got), exp):
            viol("C19.elementwise.%s" % name, "%s gives %s, cell-wise result is %s" % (name, got[:120], show(exp)))
        if not same_raster(parse_raster_str(field(lines, "arg") or ""), A):
            viol("C19.operands_unchanged.%s" % name, "the const argument of %s is %s afterwards, was %s" % (name, field(lines, "arg"), show(A)))
        return


CLAUSE = {"copy": "copies_independent", "cassign": "copies_independent", "move": "moves_transfer",
          "massign": "moves_transfer", "write": "write", "extw": "wrapper_writes_through", "wrap": "wrapper",
          "destroy": "destroy"}


def monitor_own(line, lines, ctx, stats):
    t, nslots, ops = parse_own(line)
    spec = Spec(nslots)
    stats["OWN"] = stats.get("OWN", 0) + 1
    steps = [l for l in lines if l.startswith("step ")]

    def report(idx, key, what, impl_line):
        # replay: the sequence up to the failing operation
        ctx.violation(key, what, own_line(t, nslots, ops[:idx + 1]), "step %d (%s)\nimpl: %s" % (idx, op_tokens(t, ops[idx]), impl_line[:700]))

    for idx, op in enumerate(ops):
        name = op[0]
        stats["own_ops"] = stats.get("own_ops", 0) + 1
        stats["own_" + name] = stats.get("own_" + name, 0) + 1
        was_view = name in ("write",) and spec.slots[op[1]]["kind"] == "view"
        spec.apply(op)
        if idx >= len(steps):
            stats["cases_without_complete_output"] = stats.get("cases_without_complete_output", 0) + 1
            return
        l = steps[idx]
        parts = l.split(" | ")
        head = parts[0].split()
        if len(parts) < 2 or len(head) < 5 or head[2] != "ok":
            report(idx, "C19.ownership.%s.rejected" % name, "operation not executed: %s" % l[:100], l)
            return
        clause = CLAUSE.get(name, "construct")
        if name == "write":
            clause = "wrapper_writes_through" if was_view else "copies_independent"
        memerr = head[4][len("memerr="):]
        if "double_free" in memerr:
            report(idx, "C19.ownership.no_double_free.%s" % name, "a buffer was freed twice", l)
        if "free_of_caller_memory" in memerr or "foreign_free" in memerr:
            report(idx, "C19.ownership.never_frees_caller_memory.%s" % name, "delete[] on memory the class did not allocate (%s)" % memerr, l)
        got_slots = parts[1].split(" ") if parts[1] else []
        got_exts = parts[2].split(" ") if len(parts) > 2 and parts[2] else []
        # caller arrays
        for e, arr in enumerate(spec.exts):
            g = got_exts[e] if e < len(got_exts) else ""
            gv = parse_cells_str(g.partition("=")[2]) if "=" in g else None
            if gv is None or [None if v is None else Fraction(v) for v in gv] != [Fraction(v) for v in arr]:
                key = "C19.ownership.%s.caller_array.%s" % ("wrapper_writes_through" if name in ("write", "extw") else "caller_memory_untouched", name)
                report(idx, key, "caller array %d is %s, expected [%s]" % (e, g, ",".join(fmt(t, v) for v in arr)), l)
                return
        # variables
        labels = {}
        for v in range(nslots):
            g = got_slots[v] if v < len(got_slots) else "?"
            s = spec.slots[v]
            if s is None:
                if g != "-":
                    report(idx, "C19.ownership.%s.slot" % clause, "variable %d should not exist: %s" % (v, g), l)
                    return
                continue
            f = g.split(":", 3)
            if len(f) != 4:
                report(idx, "C19.ownership.%s.slot" % clause, "variable %d: unexpected %s" % (v, g), l)
                return
            shape, owns, label, cells = f
            if shape != "%dx%d" % (s["rows"], s["cols"]):
                report(idx, "C19.ownership.%s.shape.%s" % (clause, name), "variable %d has shape %s, expected %dx%d" % (v, shape, s["rows"], s["cols"]), l)
                return
            if s["kind"] == "null":
                if label != "null":
                    report(idx, "C19.ownership.moves_transfer.source_keeps_pointer.%s" % name,
                           "variable %d gave its data away but still points to a buffer (%s)" % (v, g), l)
                    return
                continue
            exp = spec.contents(v)
            gv = parse_cells_str(cells)
            if label == "null" and s["rows"] * s["cols"] > 0:
                report(idx, "C19.ownership.%s.lost_data.%s" % (clause, name), "variable %d has no data: %s" % (v, g), l)
                return
            if [None if x is None else Fraction(x) for x in gv] != [Fraction(x) for x in exp]:
                report(idx, "C19.ownership.%s.cells.%s" % (clause, name),
                       "variable %d holds %s, expected [%s]" % (v, cells, ",".join(fmt(t, x) for x in exp)), l)
                return
            if s["kind"] == "view":
                if label != "E%d" % s["ext"]:
                    report(idx, "C19.ownership.wrapper_writes_through.not_aliasing.%s" % name,
                           "variable %d wraps caller array %d but its data is %s" % (v, s["ext"], label), l)
                    return
                if owns != "o0":
                    report(idx, "C19.ownership.never_frees_caller_memory.owns_flag.%s" % name,
                           "variable %d wraps caller memory and claims ownership" % v, l)
                    return
            else:
                if label.startswith("E"):
                    report(idx, "C19.ownership.copies_independent.aliases_caller_array.%s" % name,
                           "variable %d holds a value of its own but points into caller array %s" % (v, label), l)
                    return
                if label in labels and label != "null":
                    report(idx, "C19.ownership.copies_independent.shared_buffer.%s" % name,
                           "variables %d and %d share one buffer" % (labels[label], v), l)
                    return
                labels[label] = v
    end = field(lines, "end") or ""
    if "memerr=none" not in end:
        if "double_free" in end:
            ctx.violation("C19.ownership.no_double_free.cleanup", "a buffer was freed twice while destroying the remaining variables", line, end)
        elif "free" in end:
            ctx.violation("C19.ownership.never_frees_caller_memory.cleanup", "delete[] on memory the class did not allocate: " + end, line, end)
        elif not end:
            stats["cases_without_complete_output"] = stats.get("cases_without_complete_output", 0) + 1
    if end.startswith("live=") and not end.startswith("live=0"):
        stats["leaked_buffers_observed"] = stats.get("leaked_buffers_observed", 0) + 1


def monitor(cases, out, ctx):
    stats = {}
    for k, line in enumerate(cases):
        lines = out.get(k, [])
        if line.startswith("OWN"):
            monitor_own(line, lines, ctx, stats)
        else:
            monitor_algebra(line, lines, ctx, stats)
    return stats


# --------------------------------------------------------------------------
# check
# --------------------------------------------------------------------------
def run_engine(ctx, cases_path):
    thorough = ctx.tier == "thorough"
    h, err = vc.build_harness("raster", sanitize=thorough)
    if err:
        ctx.broke("harness raster.cpp builds against /repo", err)
        return None, None
    m, err = vc.build_model("raster")
    if err:
        ctx.broke("model extraction/driver build", err)
        return None, None
    impl = os.path.join(ctx.work, "impl.out")
    model = os.path.join(ctx.work, "model.out")
    cases = vc.read_cases(cases_path)
    crashed = run_impl_with_restarts(ctx, h, cases, impl)
    ctx.crashed_cases = crashed
    if crashed:
        ctx.broke("implementation harness stopped abnormally on %d case(s)%s" % (len(crashed), ", sanitizer build" if thorough else ""),
                  "\n".join("case #%d (exit %s): %s\n%s" % (k, rc, cases[k][:300], err[:1500]) for k, rc, err in crashed[:3]))
    rc, e = vc.run_to_file([m, cases_path], model)
    if rc != 0:
        ctx.broke("model driver run (exit %d)" % rc, e)
    return impl, model


def run_keep_head(cmd, outpath, timeout=1800):
    """Like vc.run_to_file, but keeps the beginning of stderr (where a
    sanitizer names the error and the source line) rather than its end."""
    import subprocess
    with open(outpath, "w") as f:
        try:
            p = subprocess.run(cmd, stdout=f, stderr=subprocess.PIPE, timeout=timeout)
        except subprocess.TimeoutExpired:
            return 124, "timeout"
    err = p.stderr.decode(errors="replace")
    i = err.find("ERROR: AddressSanitizer")
    if i < 0:
        i = err.find("runtime error")
    i = max(0, err.rfind("\n", 0, max(i, 0)) + 1) if i >= 0 else 0
    return p.returncode, err[i:i + 2500]


def run_impl_with_restarts(ctx, exe, cases, impl_path, max_restarts=25):
    """Runs the harness; when it dies (crash, sanitizer abort) the case it died
    on is recorded and the harness is restarted on the cases after it.
    Returns [(case number, exit code, stderr tail)]."""
    crashed = []
    start = 0
    open(impl_path, "w").close()
    part = os.path.join(ctx.work, "impl.part")
    sub = os.path.join(ctx.work, "cases.part")
    while start < len(cases):
        with open(sub, "w") as f:
            f.write("\n".join(cases[start:]) + "\n")
        rc, err = run_keep_head([exe, sub, str(start)], part)
        txt = open(part, errors="replace").read()
        with open(impl_path, "a") as f:
            f.write(txt if txt.endswith("\n") or not txt else txt + "\n")
        if rc == 0:
            break
        done = start - 1
        for l in txt.split("\n"):
            p = l.split(" ", 2)
            if len(p) >= 2 and p[0].isdigit() and p[1] in ("pad", "end") and (p[1] == "end" or "memerr=" in l):
                done = max(done, int(p[0]))
        crashed.append((done + 1, rc, err))
        start = done + 2
        if len(crashed) >= max_restarts:
            break
    return crashed


def nontrivial(line):
    tk = line.split()
    if tk[0] == "OWN":
        names = [tk[i + 1] for i in range(len(tk) - 1) if tk[i] == ";"]
        return len(names) >= 5 and any(n in ("copy", "move", "cassign", "massign") for n in names)
    i = {"RR": 3, "RS": 3, "CS": 3, "CR": 3, "SR": 5, "PW": 2, "SQ": 2, "EQ": 2}[tk[0]]
    return int(tk[i + 1]) * int(tk[i + 2]) >= 2


def check(ctx, replay=None):
    pid = ctx.pid
    ctx.proof = vc.prove(pid)
    if not ctx.proof.ok:
        ctx.broke("proof obligations of Properties_%s.v%s" % (pid, (" (" + ctx.proof.failed_theorem + ")") if ctx.proof.failed_theorem else ""),
                  "\n".join(ctx.proof.problems) + "\n" + ctx.proof.log[-1500:])
    cases_path = os.path.join(ctx.work, "cases.txt")
    if replay:
        cases = vc.read_cases(replay)
        with open(cases_path, "w") as f:
            f.write("\n".join(cases) + "\n")
    else:
        cases = generate(ctx.tier, ctx.seed, cases_path)
    impl, model = run_engine(ctx, cases_path)
    if impl is None:
        return
    out = group_output(impl)
    stats = monitor(cases, out, ctx)
    for k, rc, err in getattr(ctx, "crashed_cases", []):
        if k < len(cases):
            kind = cases[k].split()[0]
            san = [l for l in err.split("\n") if "ERROR: AddressSanitizer" in l or "runtime error" in l]
            ctx.violation("C19.no_crash.%s" % kind,
                          "the implementation stopped abnormally (exit %s) on this case%s" % (rc, ": " + san[0][:200] if san else ""),
                          cases[k], err[:1800])
    ncmp, diffs = vc.diff_outputs(impl, model)
    if diffs:
        k, a, b = diffs[0]
        ctx.broke("correspondence raster model vs implementation (%d differing cases)" % len(diffs),
                  "first differing case #%s: %s\nimpl : %s\nmodel: %s" % (k, cases[int(k)][:400] if k.isdigit() and int(k) < len(cases) else "?", a, b))
    kinds = {}
    shapes = set()
    for c in cases:
        tk = c.split()
        kinds[tk[0]] = kinds.get(tk[0], 0) + 1
        if tk[0] != "OWN":
            i = {"RR": 3, "RS": 3, "CS": 3, "CR": 3, "SR": 5, "PW": 2, "SQ": 2, "EQ": 2}[tk[0]]
            shapes.add("%sx%s" % (tk[i + 1], tk[i + 2]))
    ctx.coverage.update({
        "evaluations": len(cases),
        "distinct_nontrivial": len(set(c for c in cases if nontrivial(c))),
        "rule": "one case = one operator application (RR/RS/SR/CS/CR/PW/SQ), one comparison (EQ) or one ownership sequence (OWN), "
                "generated from VERIF_SEED; non-trivial: the first raster has at least 2 cells, or the sequence has at least 5 "
                "operations with a copy/move/assignment; distinct = distinct case lines",
        "samples": [cases[0], cases[len(cases) // 3][:300], cases[-1][:300]],
        "exhaustive": False,
        "equality_sweep": "every shape r x c with 1 <= r, c <= 4 plus 0x0, 0x3, 2x0: equal pair, every single-cell difference, "
                          "every pair of different shapes; int and double; %s" % ("pad and own storage" if ctx.tier == "thorough" else "pad storage"),
        "case_kinds": kinds,
        "shapes_covered": sorted(shapes),
        "monitor_stats": stats,
        "lines_compared_model_vs_impl": ncmp,
        "traces_validated_against_impl": ncmp,
        "correspondence_diffs": len(diffs),
        "sanitizers": "address,undefined" if ctx.tier == "thorough" else "off (quick tier)",
    })
    ctx.assumptions += [
        "division by zero, int overflow, NaN/inf, negative dimensions, ragged or empty initializer lists and use of a "
        "moved-from raster as a source are outside the domain and are not generated",
        "double cells are modelled as exact rationals; the correspondence run uses dyadic values for which binary64 is exact; "
        "pow is modelled for integer exponents, sqrt for perfect squares (int rasters: all non-negative cells)",
        "int raster /= floating scalar with floor(scalar) = 0 divides by zero in the code (consequence of the known finding) and is not generated",
        "scalars of types other than int and double, and Index types other than int, are not exercised",
        "memory leaks are not part of C19; leaked buffers are counted in monitor_stats.leaked_buffers_observed "
        "(copy assignment into a wrapper leaks, see notes/findings/C19_observation_copy_assign_wrapper_leak.md)",
    ]
