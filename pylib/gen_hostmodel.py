"""Scenario generator for the host-model engine (harness/hostmodel.cpp,
ocaml/drv_hostmodel.ml).  All random choices come from one random.Random.

A scenario is a block of `key value...` lines between `case <entry>` and `end`
(see harness/hostmodel.cpp).  Real parameters are dyadic rationals so that the
double arithmetic of the library and the exact Q arithmetic of the model agree.
"""
import random

import eng_calendar as cal

SHAPES = [(1, 1), (1, 4), (3, 1), (2, 3), (3, 2), (3, 3), (2, 2), (4, 5)]
DYADIC01 = ["0", "1/4", "1/2", "3/4", "1", "1/8", "7/8", "3/8", "5/8"]


class Scenario:
    def __init__(self):
        self.lines = []
        self.meta = {}

    def add(self, *toks):
        self.lines.append(" ".join(str(t) for t in toks))

    def text(self):
        return "\n".join(self.lines) + "\n"


def dy(rng, choices=DYADIC01):
    return rng.choice(choices)


def gen_cell(rng, ne, nm, mt, empty_p=0.25, big=False, huge=False):
    if rng.random() < empty_p:
        return dict(S=0, E=[0] * ne, I=0, R=0, M=[0] * nm, D=0)
    S = rng.choice([0, 1, 2, 5, 10, rng.randint(0, 40 if big else 20)])
    if huge and rng.random() < 0.15:
        S = rng.choice([100, 300, 257, rng.randint(50, 300)])   # the extracted model validates draws in quadratic time
    E = [0] * ne
    if mt == "SEI" and ne and rng.random() < 0.5:
        E = [rng.choice([0, 0, 1, 2, rng.randint(0, 6)]) for _ in range(ne)]
    M = [rng.choice([0, 0, 1, 2, 3, rng.randint(0, 8)]) for _ in range(nm)]
    if rng.random() < 0.3:
        M = [0] * nm
    R = rng.choice([0, 0, 0, rng.randint(0, 4)])
    return dict(S=S, E=E, I=sum(M), R=R, M=M, D=0)


def cell_text(c):
    th = c["S"] + sum(c["E"]) + c["I"] + c["R"]
    return "%d|%s|%d|%d|%d|%s|%d|%d" % (
        c["S"], ",".join(map(str, c["E"])), c["I"], sum(c["E"]), c["R"],
        ",".join(map(str, c["M"])), c["D"], th)


def steps_of(start, end, unit, n):
    steps = []
    cur = start
    while cal.dn(cur) <= cal.dn(end):
        nx = cal.next_start_spec(cur, unit, n)
        steps.append((cur, cal.from_dn(cal.dn(nx) - 1)))
        cur = nx
    return steps


def gen_scenario(rng, focus=None, entry=None):
    """focus biases the feature mix: None, 'treat', 'mortality', 'sei', 'soil',
    'multi', 'overpop', 'movement', 'removal', 'det', 'lonecell' (a single-cell landscape with
    several hosts of which one dies out during the run: every per-cell lookup of a step is
    about the same cell as the last lookup of the step before, while the host combination
    present there changes), 'oversuit' (several hosts and a
    cell whose total population is below the hosts' combined susceptibles: every
    host's own suitability is <= 1 but their sum is not - documented as rejected)."""
    sc = Scenario()
    entry = entry or ("rasters" if rng.random() < 0.12 else "pools")
    # a tail of larger scenarios: parameter values beyond the usual small ranges (long runs,
    # long latency, long mortality trackers, more hosts, bigger rasters and counts)
    large = rng.random() < 0.05
    rows, cols = rng.choice(SHAPES + ([(5, 7), (6, 3), (1, 12), (7, 2)] * 3 if large else []))
    if focus == "lonecell":
        entry, large, rows, cols = "pools", False, 1, 1
    ncell = rows * cols
    res = rng.choice([("30", "30"), ("10", "30"), ("100", "100"), ("1/2", "1/2"), ("30", "10")])
    # calendar: short runs, a unit so that yearly things fire somewhere
    unit, n = rng.choice([("month", 1), ("month", 1), ("month", 2), ("week", 1), ("week", 2), ("day", 7), ("day", 28), ("month", 3)])
    sy = rng.choice([2019, 2020, 2021])
    start = (sy, rng.choice([1, 1, 3, 11, 12]) if unit != "month" else rng.choice([1, 1, 6, 10, 12]), 1)
    nsteps_wanted = rng.randint(15, 24) if large else rng.randint(2, 14)
    # find an end date giving about that many steps
    cur = start
    for _ in range(nsteps_wanted):
        cur = cal.next_start_spec(cur, unit, n)
    end = cal.from_dn(cal.dn(cur) - 1)
    if cal.dn(end) <= cal.dn(start):
        end = cal.from_dn(cal.dn(start) + 40)
    steps = steps_of(start, end, unit, n)
    nsteps = len(steps)
    run_steps = nsteps if rng.random() < 0.8 else rng.randint(1, nsteps)
    mt = rng.choice(["SI", "SEI", "SEI"]) if focus != "sei" else "SEI"
    latency = (rng.choice([4, 5, 7]) if large and rng.random() < 0.6 else rng.choice([0, 1, 2, 3])) if mt == "SEI" else 0
    ne = latency + 1 if mt == "SEI" else rng.choice([0, 0, 2])
    nm = rng.choice([5, 6, 8]) if large and rng.random() < 0.6 else rng.choice([1, 2, 3, 4])
    det = focus == "det" or rng.random() < 0.25
    gen_st = 0 if det else rng.choice([0, 1])
    est_st = 0 if det else rng.choice([0, 1, 1])
    disp_st = rng.choice([0, 1, 1, 1])
    nhosts = 1 if entry == "rasters" else (rng.choice([4, 5]) if large and rng.random() < 0.4 else rng.choice([2, 3]) if focus in ("multi", "oversuit", "lonecell") else rng.choice([1, 1, 1, 2, 3]))
    season = rng.choice([(1, 12), (1, 12), (3, 9), (5, 6), (12, 12)])
    use = lambda p: 1 if rng.random() < p else 0
    f = focus
    use_lethal = use(0.7 if f == "removal" else 0.3)
    use_surv = use(0.7 if f == "removal" else 0.3)
    use_overpop = use(0.9 if f == "overpop" else 0.2)
    use_moves = use(0.9 if f == "movement" else 0.25)
    use_treat = use(0.95 if f == "treat" else 0.4)
    use_mort = 1 if f == "lonecell" else use(0.95 if f == "mortality" else 0.4)
    if f == "lonecell":
        use_moves = 0
    use_soil = use(0.9 if f == "soil" else 0.15)
    use_weather = 1 if use_soil and rng.random() < 0.95 else use(0.4)
    use_sr = use(0.2)
    use_q = use(0.2)
    if entry == "rasters":
        # the two features that cannot run through this entry point are kept to
        # a separate small stream (known findings C09)
        if rng.random() < 0.75:
            use_mort = 0
            use_sr = 0
    sc.add("case", entry)
    sc.add("grid", rows, cols, res[0], res[1])
    sc.add("calendar", start[0], start[1], start[2], end[0], end[1], end[2], unit, n)
    sc.add("season", season[0], season[1])
    sc.add("seed", rng.randint(1, 10 ** 6))
    sc.add("steps", run_steps)
    sc.add("mt", mt, latency)
    sc.add("stoch", gen_st, est_st, 1, disp_st)
    sc.add("estprob", dy(rng, ["0", "1/4", "1/2", "3/4", "1", "1"]))
    # (large scenarios: low rates - the outside-disperser list is printed in every snapshot and the
    # extracted model appends to it in linear time, so tens of thousands of dispersers cost hours)
    sc.add("rr", dy(rng, ["0", "1/4", "1/2", "1/4", "1"]) if large else dy(rng, ["1/2", "1", "2", "3"]) if focus == "lonecell" else dy(rng, ["0", "1/2", "1", "2", "3", "3/2", "4", "1/4"]))
    ktype = rng.choice(["cauchy", "exponential", "deterministic-neighbor", "cauchy", "weibull", "logistic", "normal", "uniform"])
    if focus == "overpop" and rng.random() < 0.4:
        ktype = "deterministic-neighbor"
    if not disp_st and ktype in ("uniform", "deterministic-neighbor"):
        ktype = "cauchy"
    direction = rng.choice(["N", "NE", "E", "SE", "S", "SW", "W", "NW", "none"])
    if ktype == "deterministic-neighbor" and direction == "none":
        direction = "E"
    scale = rng.choice(["1/2", "1", "2", "4"]) if res[0] == "1/2" else rng.choice(["10", "20", "30", "60", "200"])
    sc.add("kernel", ktype, direction, scale, dy(rng, ["0", "0", "1", "2", "1/2"]), dy(rng, ["1", "2", "3/2"]))
    sc.add("anthro", use(0.15), rng.choice(["cauchy", "exponential"]), rng.choice(["N", "E", "none", "S", "W", "NW", "SE"]), scale, "0", dy(rng, ["1/2", "3/4", "1/4", "1"]))
    lethal_month = rng.randint(1, 12)
    sc.add("lethal", use_lethal, lethal_month, rng.choice(["-10", "-5", "0", "-25/2"]))
    sm, sd = rng.randint(1, 12), rng.randint(1, 28)
    sc.add("survival", use_surv, sm, sd)
    sc.add("overpop", use_overpop, dy(rng, ["1/4", "1/2", "3/4", "1/8", "0", "1"]), dy(rng), rng.choice(["1", "2", "1/2"]))
    sc.add("movements", use_moves)
    sc.add("treatments", use_treat)
    mfreq = rng.choice(["month", "year", "every_n_steps", "every_step", "final_step", "month", "every_step", "every_n_steps", "week"] if rng.random() < 0.15 else ["month", "year", "every_n_steps", "every_step", "final_step"])
    if focus == "lonecell":
        mfreq = rng.choice(["every_step", "every_n_steps", "month"])
    sc.add("mortality", use_mort, mfreq, rng.choice([1, 2, 3]))
    sc.add("spreadrates", use_sr, rng.choice(["year", "every_n_steps", "month"]), rng.choice([1, 2]))
    sc.add("quarantine", use_q, rng.choice(["year", "every_n_steps", "month"]), rng.choice([1, 2]))
    sc.add("soils", use_soil, dy(rng, ["1/2", "1/4", "1", "0", "3/4"]), rng.choice([1, 2, 3]))
    nweather = rng.choice([1, 2, 3])
    sc.add("weather", use_weather, nweather)
    sc.add("arrival", rng.choice(["infect", "infect", "land"]))
    sc.add("hosts", nhosts)
    # pest-host table: needed for mortality; susceptibilities such that the sum stays <= 1
    if use_mort or rng.random() < 0.4 or (focus == "multi" and rng.random() < 0.8):
        for h in range(nhosts):
            sus = "1" if nhosts == 1 else rng.choice(["1/2", "1/4", "1/8"] if nhosts > 2 else ["1/2", "1/4", "1/2"])
            if nhosts == 1 and rng.random() < 0.3:
                sus = rng.choice(["1/2", "3/4", "0"])
            lag = rng.randint(0, nm - 1)
            rate = dy(rng, ["0", "1/4", "1/2", "3/4", "1", "1/2", "1/8"])
            if focus == "lonecell":
                # the last host dies out (only infected hosts, all of them die at the first mortality
                # step they are eligible for); the others keep their infection
                lag, rate = (rng.choice([0, 0, min(1, nm - 1)]), "1") if h == nhosts - 1 else (lag, rng.choice(["0", "0", "1/4"]))
            sc.add("pht", h, sus, rate, lag)
        if entry == "pools" and rng.random() < 0.3:
            sc.add("tables", "direct")   # pest-host table filled with add_host_info, not through Config
        if rng.random() < (1.0 if focus == "lonecell" else 0.85 if focus == "multi" else 0.5) and nhosts >= 1 and entry == "pools":
            # competency table: complete (2^n rows) or partial
            if rng.random() < 0.5:
                for mask in range(2 ** nhosts):
                    pres = [(mask >> b) & 1 for b in range(nhosts)]
                    sc.add("comprow", ",".join(map(str, pres)), "0" if mask == 0 else dy(rng, ["1/4", "1/2", "1", "3/4", "0", "1"]))   # a combination may score 0 (no transmission)
            else:
                # partial table: several rows that overlap (one host in many rows), in any
                # order of score - the lookup is "highest score among the satisfied rows that
                # include the producing host", whatever the order of the rows
                nrows = rng.randint(1, 5)
                scores = [dy(rng, ["1/8", "1/4", "3/8", "1/2", "5/8", "3/4", "7/8", "1"]) for _ in range(nrows)]
                order = rng.choice(["asc", "desc", "random"])
                if order != "random":
                    from fractions import Fraction as _F
                    scores.sort(key=_F, reverse=(order == "desc"))
                common = rng.randrange(nhosts)
                for r in range(nrows):
                    pres = [rng.choice([0, 1]) for _ in range(nhosts)]
                    if rng.random() < 0.7:
                        pres[common] = 1
                    if sum(pres) == 0:
                        pres[0] = 1
                    sc.add("comprow", ",".join(map(str, pres)), scores[r])
                if 2 ** nhosts == nrows:
                    sc.add("comprow", ",".join(["1"] * nhosts), "1/2")
    hosts = []
    for h in range(nhosts):
        cells = [gen_cell(rng, ne, nm, mt, big=(nhosts == 1), huge=large) for _ in range(ncell)]
        if all(c["I"] == 0 for c in cells) and h == 0:
            cells[rng.randrange(ncell)] = dict(S=10, E=[0] * ne, I=nm and 4, R=0, M=([4] + [0] * (nm - 1)), D=0)
        if focus == "lonecell":
            if h == nhosts - 1:
                kk = rng.randint(1, 3)
                cells[0] = dict(S=0, E=[0] * ne, I=kk, R=0, M=([0] * (nm - 1) + [kk]) if rng.random() < 0.5 else ([kk] + [0] * (nm - 1)), D=0)
            elif cells[0]["I"] == 0:
                cells[0] = dict(S=10, E=[0] * ne, I=4, R=0, M=([4] + [0] * (nm - 1)), D=0)
        hosts.append(cells)
        sc.add("cells", h, *[cell_text(c) for c in cells])
    # suitable cells: where any host has hosts (shared list content, per-host copy)
    suit = []
    for i in range(ncell):
        if any(hosts[h][i]["S"] + sum(hosts[h][i]["E"]) + hosts[h][i]["I"] + hosts[h][i]["R"] > 0 for h in range(nhosts)):
            suit.append("%d,%d" % (i // cols, i % cols))
    if rng.random() < 0.1 and suit:
        suit = suit[:-1]
    for h in range(nhosts):
        sc.add("suitable", h, *suit)
    tot = []
    for i in range(ncell):
        base = sum(hosts[h][i]["S"] + sum(hosts[h][i]["E"]) + hosts[h][i]["I"] + hosts[h][i]["R"] for h in range(nhosts))
        tot.append(base + rng.choice([0, 0, 5, 20]) if base > 0 or rng.random() < 0.3 else 0)
    if nhosts >= 2 and not use_moves and (focus == "oversuit" or rng.random() < 0.05):
        # combined suitability above one: population between the largest single
        # susceptible count and the sum of the susceptible counts (the infected cells first:
        # that is where dispersers land with short kernels)
        order = sorted(range(ncell), key=lambda i: -sum(hosts[h][i]["I"] for h in range(nhosts)))
        for i in order[:rng.choice([1, 1, 2, ncell])]:
            ss = [hosts[h][i]["S"] for h in range(nhosts)]
            if sorted(ss)[-2] > 0:
                tot[i] = rng.randint(max(ss), sum(ss) - 1)
    if use_moves:
        # hosts can be moved anywhere: keep total population >= hosts everywhere
        allhosts = sum(tot)
        tot = [max(t, allhosts) for t in tot]
    sc.add("totpop", *tot)
    for _ in range(nweather):
        sc.add("wraster", *[dy(rng, ["1", "1/2", "3/4", "1/4", "0", "1"]) for _ in range(ncell)])
    # temperature / survival inputs: as many as the schedules fire, sometimes one more
    def yearly_firings(m, d):
        return sum(1 for a, b in steps if any(cal.contains_date(a, b, y, m, d) for y in range(a[0], b[0] + 1)))
    nleth = yearly_firings(lethal_month, 1)
    for _ in range(nleth + rng.choice([0, 1])):
        sc.add("temp", *[rng.choice(["-20", "-10", "-5", "0", "5", "-25/2", "-21/2"]) for _ in range(ncell)])
    nsurv = yearly_firings(sm, sd)
    for _ in range(nsurv + rng.choice([0, 1])):
        sc.add("surv", *[dy(rng, ["0", "1/4", "1/2", "3/4", "1", "1", "7/8"]) for _ in range(ncell)])
    if use_moves:
        sched = sorted(rng.randrange(0, nsteps) for _ in range(rng.randint(1, 5)))
        for s in sched:
            rf, cf = rng.randrange(rows), rng.randrange(cols)
            rt, ct = rng.randrange(rows), rng.randrange(cols)
            sc.add("move", rf, cf, rt, ct, rng.choice([0, 1, 2, 5, 10, 100]), s)
    if use_treat:
        for _ in range(rng.randint(1, 3)):
            si = rng.randrange(0, nsteps)
            a, b = steps[si]
            d0 = cal.from_dn(rng.randint(cal.dn(a), cal.dn(b)))
            pest = rng.random() < 0.45
            days = 0
            if pest:
                # end date in a later step of the schedule
                if si + 1 < nsteps:
                    ei = rng.randrange(si + 1, nsteps)
                    ea, eb = steps[ei]
                    days = rng.randint(cal.dn(ea), cal.dn(eb)) - cal.dn(d0)
                else:
                    pest = False
            coefs = [dy(rng, ["0", "1/4", "1/2", "3/4", "1", "1", "0", "1/2"]) for _ in range(ncell)]
            sc.add("treat", 1 if pest else 0, d0[0], d0[1], d0[2], days, rng.choice(["ratio", "ratio", "all_infected_in_cell"]), *coefs)
        if entry == "pools" and rng.random() < (0.5 if f == "treat" else 0.25):
            # computational steering: before step K the treatments dated after step S are dropped
            K = rng.randrange(0, nsteps)
            sc.add("clearafter", K, max(0, rng.choice([K - 1, K - 1, K, rng.randrange(0, nsteps), 0])))
    sc.add("end")
    sc.meta = dict(entry=entry, rows=rows, cols=cols, mt=mt, latency=latency, nhosts=nhosts, nsteps=run_steps,
                   steps=steps, features=dict(lethal=use_lethal, survival=use_surv, overpop=use_overpop, movements=use_moves,
                                              treatments=use_treat, mortality=use_mort, soils=use_soil, weather=use_weather,
                                              spreadrates=use_sr, quarantine=use_q, det=det))
    return sc


def gen_pair_L0(rng):
    """A scenario in the SEI model with latency 0 and the same scenario in the SI
    model (same seed): C05 demands identical trajectories."""
    while True:
        sc = gen_scenario(rng, focus="sei", entry="pools")
        if sc.meta["mt"] == "SEI":
            break
    lines = []
    for l in sc.lines:
        t = l.split()
        if t[0] == "mt":
            l = "mt SEI 0"
        elif t[0] == "cells":
            cells = []
            for tok in t[2:]:
                p = tok.split("|")
                p[1] = "0"
                p[3] = "0"
                p[7] = str(int(p[0]) + int(p[2]) + int(p[4]))
                cells.append("|".join(p))
            l = " ".join(t[:2] + cells)
        elif t[0] == "movements":
            l = "movements 0"
        lines.append(l)
    a = Scenario()
    a.lines = lines[:-1] + ["pair L0_SEI", "end"]
    a.meta = dict(sc.meta, mt="SEI", latency=0)
    b = Scenario()
    b.lines = []
    for l in lines[:-1]:
        t = l.split()
        if t[0] == "mt":
            l = "mt SI 0"
        elif t[0] == "cells":
            cells = []
            for tok in t[2:]:
                p = tok.split("|")
                p[1] = ""
                cells.append("|".join(p))
            l = " ".join(t[:2] + cells)
        b.lines.append(l)
    b.lines += ["pair L0_SI", "end"]
    b.meta = dict(sc.meta, mt="SI", latency=0)
    return [a, b]


FOCI = [None, "treat", "mortality", "sei", "soil", "multi", "overpop", "movement", "removal", "det", "oversuit"]


def generate(seed, n, focus_weights=None):
    rng = random.Random(seed * 104729 + 7)
    out = []
    for i in range(n):
        focus = FOCI[i % len(FOCI)] if focus_weights is None else rng.choice(focus_weights)
        out.append(gen_scenario(rng, focus))
    return out
