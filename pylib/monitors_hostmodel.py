"""Property monitors of the host-model engine.  Each re-states its property in
Python over the implementation's per-action snapshots, independently of the
Coq model, and reports a violation with the scenario as the replay."""
import math
from fractions import Fraction

import eng_calendar as cal
import gen_hostmodel as gen

# which generator foci feed the property's own extra stream
FOCUS = {
    "C01": ["treat", "removal", "movement", "sei"], "C02": ["removal", "overpop", "movement", "mortality", "soil"],
    "C03": ["treat", "sei", "removal"], "C04": ["soil", "multi", "det", None], "C05": ["sei"],
    "C09": [None, "det", "removal"], "C10": ["treat"], "C11": ["mortality", "multi"],
    "C12": ["removal", "det"], "C16": ["multi"], "C17": ["overpop", "movement"],
}
OWN_STREAM = set(FOCUS)


def Q(s):
    return Fraction(s)


def lround(x):
    return int(math.floor(x + Fraction(1, 2))) if x >= 0 else -int(math.floor(-x + Fraction(1, 2)))


def hosts_of(c):
    return c["S"] + sum(c["E"]) + c["I"] + c["R"]


class Scenario:
    def __init__(self, text):
        self.text = text
        kv = {}
        self.multi = []
        self.entry = "pools"
        for l in text.split("\n"):
            t = l.split()
            if not t:
                continue
            if t[0] == "case":
                self.entry = t[1]
            elif t[0] in ("pht", "comprow", "cells", "suitable", "totpop", "wraster", "temp", "surv", "move", "treat"):
                self.multi.append(t)
            elif t[0] != "end":
                kv[t[0]] = t[1:]
        self.kv = kv
        self.rows, self.cols = int(kv["grid"][0]), int(kv["grid"][1])
        self.ncell = self.rows * self.cols
        c = kv["calendar"]
        self.start = (int(c[0]), int(c[1]), int(c[2]))
        self.end = (int(c[3]), int(c[4]), int(c[5]))
        self.unit, self.n = c[6], int(c[7])
        self.steps = gen.steps_of(self.start, self.end, self.unit, self.n)
        self.mt = kv["mt"][0]
        self.latency = int(kv["mt"][1])
        self.nhosts = int(kv["hosts"][0])
        self.use = {k: kv[k][0] == "1" for k in ("lethal", "survival", "overpop", "movements", "treatments", "mortality", "spreadrates", "quarantine", "soils", "weather")}
        self.pht = {}
        self.treats = []
        self.moves = []
        self.init = {}
        self.totpop = []
        self.weathers, self.temps, self.survs = [], [], []
        self.init_suit = {}
        for t in self.multi:
            if t[0] == "pht":
                self.pht[int(t[1])] = (Q(t[2]), Q(t[3]), int(t[4]))
            elif t[0] == "cells":
                import eng_hostmodel
                self.init[int(t[1])] = [eng_hostmodel.parse_cell(x) for x in t[2:2 + self.ncell]]
            elif t[0] == "suitable":
                self.init_suit[int(t[1])] = [tuple(int(x) for x in v.split(",")) for v in t[2:]]
            elif t[0] == "totpop":
                self.totpop = [int(x) for x in t[1:1 + self.ncell]]
            elif t[0] == "wraster":
                self.weathers.append([Q(x) for x in t[1:1 + self.ncell]])
            elif t[0] == "temp":
                self.temps.append([Q(x) for x in t[1:1 + self.ncell]])
            elif t[0] == "surv":
                self.survs.append([Q(x) for x in t[1:1 + self.ncell]])
            elif t[0] == "move":
                self.moves.append(tuple(int(x) for x in t[1:7]))
            elif t[0] == "treat":
                d0 = (int(t[2]), int(t[3]), int(t[4]))
                days = int(t[5])
                st = self.step_of(d0)
                en = self.step_of(cal.from_dn(cal.dn(d0) + days)) if days else st
                if self.entry == "rasters":
                    continue   # the raster entry point takes no treatments
                self.treats.append(dict(pest=days != 0, start=st, end=en, app=t[6], coef=[Q(x) for x in t[7:7 + self.ncell]]))

    def step_of(self, d):
        for i, (a, b) in enumerate(self.steps):
            if cal.dn(a) <= cal.dn(d) <= cal.dn(b):
                return i
        return None


def treated(app, coef, count):
    if app in ("ratio", "ratio_to_all"):
        return count * coef
    return count if coef != 0 else 0


def expected_removal(cell, coef, app):
    """Hosts a host-removal treatment takes out of one cell by the documented
    rule (share rounded up from S, every E cohort and infected)."""
    s = math.ceil(treated("ratio", coef, cell["S"]))
    e = [math.ceil(treated(app, coef, x)) for x in cell["E"]]
    i = math.ceil(treated(app, coef, cell["I"]))
    return max(s, 0) + sum(e) + max(i, 0)


def iter_pairs(sc, tr):
    """Yields (prev_state, step, tag, idx, state) for consecutive snapshots,
    starting from the scenario's initial landscape."""
    prev = dict(hosts=[sc.init[h] for h in range(sc.nhosts)], suit=[sc.init_suit.get(h, []) for h in range(sc.nhosts)], disp=[0] * sc.ncell, estab=[0] * sc.ncell, outside=[], soil=[])
    for (step, tag, idx, st) in tr["snaps"]:
        yield prev, step, tag, idx, st
        prev = st


def total_and_dead(st):
    return (sum(hosts_of(c) for h in st["hosts"] for c in h), sum(c["D"] for h in st["hosts"] for c in h))


# ------------------------------------------------------------------ C01
def mon_C01(ctx, k, sc, tr, stats):
    for prev, step, tag, idx, st in iter_pairs(sc, tr):
        if tag == "end":
            continue
        stats["actions"] = stats.get("actions", 0) + 1
        t0, d0 = total_and_dead(prev)
        t1, d1 = total_and_dead(st)
        removed = 0
        if tag == "treatments":
            # recompute what the removal treatments of this step take out, from
            # the pre-treatment snapshot and the coefficient rasters, sequentially
            import copy
            work = copy.deepcopy(prev["hosts"])
            for h in range(len(work)):
                for t in sc.treats:
                    if t["start"] == step and not t["pest"]:
                        for (r, c) in (prev["suit"][h] if prev["suit"] else []):
                            i = r * sc.cols + c
                            cell = work[h][i]
                            coef = t["coef"][i]
                            removed += expected_removal(cell, coef, t["app"])
                            cell["S"] -= max(math.ceil(treated("ratio", coef, cell["S"])), 0)
                            cell["E"] = [x - math.ceil(treated(t["app"], coef, x)) for x in cell["E"]]
                            cell["I"] -= max(math.ceil(treated(t["app"], coef, cell["I"])), 0)
                    # a pesticide treatment only reclassifies
                    if t["start"] == step and t["pest"]:
                        for (r, c) in (prev["suit"][h] if prev["suit"] else []):
                            i = r * sc.cols + c
                            cell = work[h][i]
                            coef = t["coef"][i]
                            s = math.floor(treated("ratio", coef, cell["S"]))
                            e = [math.floor(treated(t["app"], coef, x)) for x in cell["E"]]
                            ii = math.floor(treated(t["app"], coef, cell["I"]))
                            cell["S"] -= s
                            cell["E"] = [x - y for x, y in zip(cell["E"], e)]
                            cell["I"] -= ii
                            cell["R"] += s + sum(e) + ii
                    if t["pest"] and t["end"] == step and t["start"] != step:
                        for (r, c) in (prev["suit"][h] if prev["suit"] else []):
                            i = r * sc.cols + c
                            if t["coef"][i] > 0:
                                work[h][i]["S"] += work[h][i]["R"]
                                work[h][i]["R"] = 0
            stats["removed_by_treatments"] = stats.get("removed_by_treatments", 0) + removed
        died = d1 - d0
        if died:
            stats["died"] = stats.get("died", 0) + died
        if t1 != t0 - died - removed:
            what = "created" if t1 > t0 - died - removed else "lost"
            ctx.violation("C01.ledger.%s.%s" % (tag, what),
                          "step %d action %s: hosts %d -> %d with %d died and %d removed by treatment (hosts %s)" % (step, tag, t0, t1, died, removed, what),
                          sc.text, "scenario #%d" % k)
            return
        if died and tag != "mortality":
            ctx.violation("C01.died_outside_mortality.%s" % tag, "step %d action %s reports %d dead hosts" % (step, tag, died), sc.text)
            return


# ------------------------------------------------------------------ C02
def mon_C02(ctx, k, sc, tr, stats):
    for prev, step, tag, idx, st in iter_pairs(sc, tr):
        stats["snapshots"] = stats.get("snapshots", 0) + 1
        for h, cells in enumerate(st["hosts"]):
            for i, c in enumerate(cells):
                vals = [("S", c["S"]), ("I", c["I"]), ("TE", c["TE"]), ("R", c["R"]), ("D", c["D"]), ("TH", c["TH"])] + \
                       [("E%d" % j, v) for j, v in enumerate(c["E"])] + [("M%d" % j, v) for j, v in enumerate(c["M"])]
                for name, v in vals:
                    if v < 0:
                        ctx.violation("C02.negative.%s.%s" % (name[0], tag), "step %d after %s: host %d cell %d has %s = %d" % (step, tag, h, i, name, v), sc.text)
                        return
                if c["I"] > c["TH"]:
                    ctx.violation("C02.infected_gt_total.%s" % tag, "step %d after %s: host %d cell %d infected %d > total hosts %d" % (step, tag, h, i, c["I"], c["TH"]), sc.text)
                    return
                if tag == "mortality":
                    p = prev["hosts"][h][i]
                    if c["D"] - p["D"] > p["I"]:
                        ctx.violation("C02.deaths_gt_infected", "step %d: host %d cell %d: %d died, %d infected were present" % (step, h, i, c["D"] - p["D"], p["I"]), sc.text)
                        return
        for name in ("disp", "estab"):
            if any(v < 0 for v in st[name]):
                ctx.violation("C02.negative.%s.%s" % (name, tag), "negative %s after %s" % (name, tag), sc.text)
                return
        if any(v < 0 for cs in st["soil"] for v in cs):
            ctx.violation("C02.negative.soil.%s" % tag, "negative soil cohort after %s" % tag, sc.text)
            return
        if tag == "spread" and any(e > d for e, d in zip(st["estab"], st["disp"])):
            ctx.violation("C02.established_gt_dispersers", "established dispersers exceed dispersers of a cell", sc.text)
            return
        if tag == "overpopulation":
            # pests taken out of a cell never exceed what it contained
            for h, cells in enumerate(st["hosts"]):
                for i, c in enumerate(cells):
                    p = prev["hosts"][h][i]
                    if p["I"] - c["I"] > p["I"]:
                        ctx.violation("C02.pests_overdrawn", "more pests left host %d cell %d than it held" % (h, i), sc.text)
                        return


# ------------------------------------------------------------------ C03
def mon_C03(ctx, k, sc, tr, stats):
    cohorts_ok = {}  # (h, i) -> still tracked
    overpop_ran = False
    for prev, step, tag, idx, st in iter_pairs(sc, tr):
        stats["snapshots"] = stats.get("snapshots", 0) + 1
        if tag == "overpopulation":
            overpop_ran = True   # documented not to maintain cohorts
        for h, cells in enumerate(st["hosts"]):
            for i, c in enumerate(cells):
                if c["TH"] != c["S"] + sum(c["E"]) + c["I"] + c["R"]:
                    ctx.violation("C03.total_hosts.%s" % tag, "step %d after %s: host %d cell %d total hosts %d != %d+%d+%d+%d" %
                                  (step, tag, h, i, c["TH"], c["S"], sum(c["E"]), c["I"], c["R"]), sc.text)
                    return
                if c["TE"] != sum(c["E"]):
                    ctx.violation("C03.total_exposed.%s" % tag, "step %d after %s: host %d cell %d total exposed %d != sum of cohorts %d" % (step, tag, h, i, c["TE"], sum(c["E"])), sc.text)
                    return
                if not overpop_ran and cohorts_ok.get((h, i), True) and c["I"] != sum(c["M"]):
                    cohorts_ok[(h, i)] = False
                    ctx.violation("C03.infected_eq_mortality_cohorts.%s" % tag,
                                  "step %d after %s: host %d cell %d infected %d != sum of mortality cohorts %s" % (step, tag, h, i, c["I"], c["M"]), sc.text)
    # mortality must never fail on a state the model itself produced
    if tr["err"] and tr["err"][1] == "runtime_error" and not overpop_ran:
        pest = any(t["pest"] for t in sc.treats) and sc.use["treatments"]
        ctx.violation("C03.mortality_fails.%s" % ("after_pesticide" if pest else "other"),
                      "step %s: a run-time error was raised on a state the model produced (pesticide treatment in the scenario: %s)" % (tr["err"][0], pest), sc.text)


MONITORS = {"C01": mon_C01, "C02": mon_C02, "C03": mon_C03}


def run_monitor(pid, ctx, blocks, trace):
    stats = {"scenarios": 0, "errors": {}}
    f = MONITORS.get(pid)
    for k, text in enumerate(blocks):
        tr = trace.get(k)
        if tr is None:
            continue
        stats["scenarios"] += 1
        if tr["err"]:
            key = "%s:%s" % ("setup" if tr["err"][0] == "setup" else "step", tr["err"][1])
            stats["errors"][key] = stats["errors"].get(key, 0) + 1
        sc = Scenario(text)
        if f:
            f(ctx, k, sc, tr, stats)
    return stats
