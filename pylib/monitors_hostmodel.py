"""Property monitors of the host-model engine.  Each re-states its property in
Python over the implementation's per-action snapshots, independently of the
Coq model, and reports a violation with the scenario as the replay."""
import math
from fractions import Fraction

import eng_calendar as cal
import gen_hostmodel as gen

# which generator foci feed the property's own extra stream
FOCUS = {
    "C01": ["treat", "removal", "movement", "sei"], "C02": ["removal", "overpop", "movement", "mortality", "soil"],
    "C03": ["treat", "sei", "removal"], "C04": ["soil", "multi", "det", None], "C05": ["sei"],
    "C09": [None, "det", "removal"], "C10": ["treat"], "C11": ["mortality", "multi"],
    "C12": ["removal", "det"], "C16": ["multi", "multi", "oversuit", "lonecell"], "C17": ["overpop", "movement"],
}
OWN_STREAM = set(FOCUS)


def Q(s):
    return Fraction(s)


def lround(x):
    return int(math.floor(x + Fraction(1, 2))) if x >= 0 else -int(math.floor(-x + Fraction(1, 2)))


def hosts_of(c):
    return c["S"] + sum(c["E"]) + c["I"] + c["R"]


class Scenario:
    def __init__(self, text):
        self.text = text
        kv = {}
        self.multi = []
        self.entry = "pools"
        for l in text.split("\n"):
            t = l.split()
            if not t:
                continue
            if t[0] == "case":
                self.entry = t[1]
            elif t[0] in ("pht", "comprow", "cells", "suitable", "totpop", "wraster", "temp", "surv", "move", "treat"):
                self.multi.append(t)
            elif t[0] != "end":
                kv[t[0]] = t[1:]
        self.kv = kv
        self.rows, self.cols = int(kv["grid"][0]), int(kv["grid"][1])
        self.ncell = self.rows * self.cols
        c = kv["calendar"]
        self.start = (int(c[0]), int(c[1]), int(c[2]))
        self.end = (int(c[3]), int(c[4]), int(c[5]))
        self.unit, self.n = c[6], int(c[7])
        self.steps = gen.steps_of(self.start, self.end, self.unit, self.n)
        self.mt = kv["mt"][0]
        self.latency = int(kv["mt"][1])
        self.nhosts = int(kv["hosts"][0])
        self.use = {k: kv[k][0] == "1" for k in ("lethal", "survival", "overpop", "movements", "treatments", "mortality", "spreadrates", "quarantine", "soils", "weather")}
        self.pht = {}
        self.treats = []
        self.moves = []
        self.init = {}
        self.totpop = []
        self.weathers, self.temps, self.survs = [], [], []
        self.init_suit = {}
        for t in self.multi:
            if t[0] == "pht":
                self.pht[int(t[1])] = (Q(t[2]), Q(t[3]), int(t[4]))
            elif t[0] == "cells":
                import eng_hostmodel
                self.init[int(t[1])] = [eng_hostmodel.parse_cell(x) for x in t[2:2 + self.ncell]]
            elif t[0] == "suitable":
                self.init_suit[int(t[1])] = [tuple(int(x) for x in v.split(",")) for v in t[2:]]
            elif t[0] == "totpop":
                self.totpop = [int(x) for x in t[1:1 + self.ncell]]
            elif t[0] == "wraster":
                self.weathers.append([Q(x) for x in t[1:1 + self.ncell]])
            elif t[0] == "temp":
                self.temps.append([Q(x) for x in t[1:1 + self.ncell]])
            elif t[0] == "surv":
                self.survs.append([Q(x) for x in t[1:1 + self.ncell]])
            elif t[0] == "move":
                self.moves.append(tuple(int(x) for x in t[1:7]))
            elif t[0] == "treat":
                d0 = (int(t[2]), int(t[3]), int(t[4]))
                days = int(t[5])
                st = self.step_of(d0)
                en = self.step_of(cal.from_dn(cal.dn(d0) + days)) if days else st
                if self.entry == "rasters":
                    continue   # the raster entry point takes no treatments
                self.treats.append(dict(pest=days != 0, start=st, end=en, app=t[6], coef=[Q(x) for x in t[7:7 + self.ncell]]))

    def treats_at(self, step):
        """The treatments still registered at `step`: `clearafter K S` drops, before step
        K, every treatment dated after step S (Treatments::clear_after_step)."""
        ca = self.kv.get("clearafter")
        if ca and self.entry == "pools" and step >= int(ca[0]):
            return [t for t in self.treats if t["start"] <= int(ca[1])]
        return self.treats

    def step_of(self, d):
        for i, (a, b) in enumerate(self.steps):
            if cal.dn(a) <= cal.dn(d) <= cal.dn(b):
                return i
        return None


def treated(app, coef, count):
    if app in ("ratio", "ratio_to_all"):
        return count * coef
    return count if coef != 0 else 0


def expected_removal(cell, coef, app):
    """Hosts a host-removal treatment takes out of one cell by the documented
    rule (share rounded up from S, every E cohort and infected)."""
    s = math.ceil(treated("ratio", coef, cell["S"]))
    e = [math.ceil(treated(app, coef, x)) for x in cell["E"]]
    i = math.ceil(treated(app, coef, cell["I"]))
    return max(s, 0) + sum(e) + max(i, 0)


def iter_pairs(sc, tr):
    """Yields (prev_state, step, tag, idx, state) for consecutive snapshots,
    starting from the scenario's initial landscape."""
    prev = dict(hosts=[sc.init[h] for h in range(sc.nhosts)], suit=[sc.init_suit.get(h, []) for h in range(sc.nhosts)], disp=[0] * sc.ncell, estab=[0] * sc.ncell, outside=[], soil=[])
    for (step, tag, idx, st) in tr["snaps"]:
        yield prev, step, tag, idx, st
        prev = st


def total_and_dead(st):
    return (sum(hosts_of(c) for h in st["hosts"] for c in h), sum(c["D"] for h in st["hosts"] for c in h))


# ------------------------------------------------------------------ C01
def mon_C01(ctx, k, sc, tr, stats):
    for prev, step, tag, idx, st in iter_pairs(sc, tr):
        if tag == "end":
            continue
        stats["actions"] = stats.get("actions", 0) + 1
        t0, d0 = total_and_dead(prev)
        t1, d1 = total_and_dead(st)
        removed = 0
        if tag == "treatments":
            # recompute what the removal treatments of this step take out, from
            # the pre-treatment snapshot and the coefficient rasters, sequentially
            import copy
            work = copy.deepcopy(prev["hosts"])
            for h in range(len(work)):
                for t in sc.treats_at(step):
                    if t["start"] == step and not t["pest"]:
                        for (r, c) in (prev["suit"][h] if prev["suit"] else []):
                            i = r * sc.cols + c
                            cell = work[h][i]
                            coef = t["coef"][i]
                            removed += expected_removal(cell, coef, t["app"])
                            cell["S"] -= max(math.ceil(treated("ratio", coef, cell["S"])), 0)
                            cell["E"] = [x - math.ceil(treated(t["app"], coef, x)) for x in cell["E"]]
                            cell["I"] -= max(math.ceil(treated(t["app"], coef, cell["I"])), 0)
                    # a pesticide treatment only reclassifies
                    if t["start"] == step and t["pest"]:
                        for (r, c) in (prev["suit"][h] if prev["suit"] else []):
                            i = r * sc.cols + c
                            cell = work[h][i]
                            coef = t["coef"][i]
                            s = math.floor(treated("ratio", coef, cell["S"]))
                            e = [math.floor(treated(t["app"], coef, x)) for x in cell["E"]]
                            ii = math.floor(treated(t["app"], coef, cell["I"]))
                            cell["S"] -= s
                            cell["E"] = [x - y for x, y in zip(cell["E"], e)]
                            cell["I"] -= ii
                            cell["R"] += s + sum(e) + ii
                    if t["pest"] and t["end"] == step and t["start"] != step:
                        for (r, c) in (prev["suit"][h] if prev["suit"] else []):
                            i = r * sc.cols + c
                            if t["coef"][i] > 0:
                                work[h][i]["S"] += work[h][i]["R"]
                                work[h][i]["R"] = 0
            stats["removed_by_treatments"] = stats.get("removed_by_treatments", 0) + removed
        died = d1 - d0
        if died:
            stats["died"] = stats.get("died", 0) + died
        if t1 != t0 - died - removed:
            what = "created" if t1 > t0 - died - removed else "lost"
            ctx.violation("C01.ledger.%s.%s" % (tag, what),
                          "step %d action %s: hosts %d -> %d with %d died and %d removed by treatment (hosts %s)" % (step, tag, t0, t1, died, removed, what),
                          sc.text, "scenario #%d" % k)
            return
        if died and tag != "mortality":
            ctx.violation("C01.died_outside_mortality.%s" % tag, "step %d action %s reports %d dead hosts" % (step, tag, died), sc.text)
            return


# ------------------------------------------------------------------ C02
def mon_C02(ctx, k, sc, tr, stats):
    for prev, step, tag, idx, st in iter_pairs(sc, tr):
        stats["snapshots"] = stats.get("snapshots", 0) + 1
        for h, cells in enumerate(st["hosts"]):
            for i, c in enumerate(cells):
                vals = [("S", c["S"]), ("I", c["I"]), ("TE", c["TE"]), ("R", c["R"]), ("D", c["D"]), ("TH", c["TH"])] + \
                       [("E%d" % j, v) for j, v in enumerate(c["E"])] + [("M%d" % j, v) for j, v in enumerate(c["M"])]
                for name, v in vals:
                    if v < 0:
                        ctx.violation("C02.negative.%s.%s" % (name[0], tag), "step %d after %s: host %d cell %d has %s = %d" % (step, tag, h, i, name, v), sc.text)
                        return
                if c["I"] > c["TH"]:
                    ctx.violation("C02.infected_gt_total.%s" % tag, "step %d after %s: host %d cell %d infected %d > total hosts %d" % (step, tag, h, i, c["I"], c["TH"]), sc.text)
                    return
                if tag == "mortality":
                    p = prev["hosts"][h][i]
                    if c["D"] - p["D"] > p["I"]:
                        ctx.violation("C02.deaths_gt_infected", "step %d: host %d cell %d: %d died, %d infected were present" % (step, h, i, c["D"] - p["D"], p["I"]), sc.text)
                        return
        for name in ("disp", "estab"):
            if any(v < 0 for v in st[name]):
                ctx.violation("C02.negative.%s.%s" % (name, tag), "negative %s after %s" % (name, tag), sc.text)
                return
        if any(v < 0 for cs in st["soil"] for v in cs):
            ctx.violation("C02.negative.soil.%s" % tag, "negative soil cohort after %s" % tag, sc.text)
            return
        if tag == "spread" and any(e > d for e, d in zip(st["estab"], st["disp"])):
            ctx.violation("C02.established_gt_dispersers", "established dispersers exceed dispersers of a cell", sc.text)
            return
        if tag == "overpopulation":
            # pests only move (or die on arrival): over all cells and hosts the infected cannot
            # increase and the susceptible cannot decrease - more arriving than left is creation
            tot_i0 = sum(c["I"] for cells in prev["hosts"] for c in cells)
            tot_i1 = sum(c["I"] for cells in st["hosts"] for c in cells)
            if tot_i1 > tot_i0:
                ctx.violation("C02.pests_created.overpopulation", "step %d: overpopulation movement raised the infected total from %d to %d (more pests arrived than left)" % (step, tot_i0, tot_i1), sc.text)
                return
            # pests taken out of a cell never exceed what it contained
            for h, cells in enumerate(st["hosts"]):
                for i, c in enumerate(cells):
                    p = prev["hosts"][h][i]
                    if p["I"] - c["I"] > p["I"]:
                        ctx.violation("C02.pests_overdrawn", "more pests left host %d cell %d than it held" % (h, i), sc.text)
                        return


# ------------------------------------------------------------------ C03
def mon_C03(ctx, k, sc, tr, stats):
    cohorts_ok = {}  # (h, i) -> still tracked
    overpop_ran = False
    for prev, step, tag, idx, st in iter_pairs(sc, tr):
        stats["snapshots"] = stats.get("snapshots", 0) + 1
        if tag == "overpopulation":
            overpop_ran = True   # documented not to maintain cohorts
        for h, cells in enumerate(st["hosts"]):
            for i, c in enumerate(cells):
                if c["TH"] != c["S"] + sum(c["E"]) + c["I"] + c["R"]:
                    ctx.violation("C03.total_hosts.%s" % tag, "step %d after %s: host %d cell %d total hosts %d != %d+%d+%d+%d" %
                                  (step, tag, h, i, c["TH"], c["S"], sum(c["E"]), c["I"], c["R"]), sc.text)
                    return
                if c["TE"] != sum(c["E"]):
                    ctx.violation("C03.total_exposed.%s" % tag, "step %d after %s: host %d cell %d total exposed %d != sum of cohorts %d" % (step, tag, h, i, c["TE"], sum(c["E"])), sc.text)
                    return
                if not overpop_ran and cohorts_ok.get((h, i), True) and c["I"] != sum(c["M"]):
                    cohorts_ok[(h, i)] = False
                    if tag == "movement" and any(p["I"] != sum(p["M"]) for p in prev["hosts"][h]):
                        # host movement draws infected hosts and cohort members separately: it
                        # keeps infected = sum of cohorts only when the SOURCE cell had it
                        # (MoveProps.v); a source already inconsistent (reported when it became
                        # so) carries the mismatch into the destination - a consequence, not a
                        # second violation
                        stats["cohort_mismatch_moved"] = stats.get("cohort_mismatch_moved", 0) + 1
                        continue
                    ctx.violation("C03.infected_eq_mortality_cohorts.%s" % tag,
                                  "step %d after %s: host %d cell %d infected %d != sum of mortality cohorts %s" % (step, tag, h, i, c["I"], c["M"]), sc.text)
    # mortality must never fail on a state the model itself produced
    if tr["err"] and tr["err"][1] == "runtime_error" and not overpop_ran:
        pest = any(t["pest"] for t in sc.treats) and sc.use["treatments"]
        ctx.violation("C03.mortality_fails.%s" % ("after_pesticide" if pest else "other"),
                      "step %s: a run-time error was raised on a state the model produced (pesticide treatment in the scenario: %s)" % (tr["err"][0], pest), sc.text)


MONITORS = {"C01": mon_C01, "C02": mon_C02, "C03": mon_C03}


def run_monitor(pid, ctx, blocks, trace):
    stats = {"scenarios": 0, "errors": {}}
    f = MONITORS.get(pid)
    for k, text in enumerate(blocks):
        tr = trace.get(k)
        if tr is None:
            continue
        stats["scenarios"] += 1
        if tr["err"]:
            key = "%s:%s" % ("setup" if tr["err"][0] == "setup" else "step", tr["err"][1])
            stats["errors"][key] = stats["errors"].get(key, 0) + 1
        sc = Scenario(text)
        if f:
            f(ctx, k, sc, tr, stats)
    if pid == "C12":
        finalize_C12(ctx, stats)
    if pid == "C05":
        pairs_C05(ctx, blocks, trace, stats)
    stats.pop("_testers", None)
    stats.pop("_decisions", None)
    return stats


def finalize_C12(ctx, stats):
    """Validation of the modelled part only (never a theorem): the establishment
    testers behave like uniform variates on [0,1) and the frequency of
    establishment matches the probability, with margins far beyond sampling noise."""
    xs = sorted(stats.get("_testers", []))
    n = len(xs)
    stats["uniformity_sample"] = n
    if n >= 1500:
        d = max(max((i + 1) / n - x, x - i / n) for i, x in enumerate(xs))
        stats["ks_distance_testers_vs_uniform"] = round(d, 4)
        if d > 3.0 / n ** 0.5:
            ctx.violation("C12.establish.tester_not_uniform", "Kolmogorov-Smirnov distance %.4f of %d establishment testers from the uniform law" % (d, n), None)
        dec = stats.get("_decisions", [])
        exp = sum(p for p, _ in dec)
        got = sum(1 for _, r in dec if r)
        var = sum(p * (1 - p) for p, _ in dec)
        stats["established_expected_vs_observed"] = [round(exp, 1), got]
        if abs(got - exp) > 6 * max(var, 1.0) ** 0.5:
            ctx.violation("C12.establish.frequency", "%d of %d dispersers established, expected %.1f (6 sigma = %.1f)" % (got, len(dec), exp, 6 * var ** 0.5), None)


# ================================================================== helpers
def cells_equal(a, b, fields=("S", "E", "I", "TE", "R", "M", "D", "TH")):
    return all(a[f] == b[f] for f in fields)


def fmt_cell(c):
    return "S=%d E=%s I=%d TE=%d R=%d M=%s D=%d TH=%d" % (c["S"], c["E"], c["I"], c["TE"], c["R"], c["M"], c["D"], c["TH"])


def expected_plan(sc, step, has_soil):
    """The documented action order of one model step (names as the hooks print
    them) with the index argument each reports."""
    import eng_calendar as cal
    kv = sc.kv
    steps = sc.steps
    N = len(steps)

    def fs(freq, n):
        e = cal.expected_fs(freq if freq != "-" else "-", n, sc.unit, sc.n, steps)
        return e

    def yearly(m, d):
        return [any(cal.contains_date(a, b, y, m, d) for y in range(a[0], b[0] + 1)) for a, b in steps]
    plan = []
    if has_soil:
        plan.append(("soil_next_step", step))
    if sc.use["lethal"]:
        sched = yearly(int(kv["lethal"][1]), 1)
        if sched[step]:
            plan.append(("lethal_temperature", sum(sched[:step])))
    if sc.use["survival"]:
        sched = yearly(int(kv["survival"][1]), int(kv["survival"][2]))
        if sched[step]:
            plan.append(("survival_rate", sum(sched[:step])))
    ss, se = int(kv["season"][0]), int(kv["season"][1])
    a, b = steps[step]
    if (ss <= a[1] <= se) or (ss <= b[1] <= se):
        plan += [("generate", -1), ("spread", step), ("step_forward", step)]
        if sc.use["overpop"]:
            plan.append(("overpopulation", step))
        if sc.use["movements"]:
            plan.append(("movement", None))
    if sc.use["treatments"]:
        plan.append(("treatments", step))
    if sc.use["mortality"]:
        sched = fs(kv["mortality"][1], int(kv["mortality"][2]))
        if sched is not None and sched[step]:
            plan.append(("mortality", step))
    if sc.use["spreadrates"]:
        sched = fs(kv["spreadrates"][1], int(kv["spreadrates"][2]))
        if sched is not None and sched[step]:
            plan.append(("spread_rate", sum(sched[:step])))
    if sc.use["quarantine"]:
        sched = fs(kv["quarantine"][1], int(kv["quarantine"][2]))
        if sched is not None and sched[step]:
            plan.append(("quarantine", sum(sched[:step])))
    return plan


# ------------------------------------------------------------------ C09
def mon_C09(ctx, k, sc, tr, stats):
    by_step = {}
    for (step, tag, idx, st) in tr["snaps"]:
        by_step.setdefault(step, []).append((tag, idx, st))
    nsteps = int(sc.kv["steps"][0])
    err = tr["err"]
    if err and err[0] == "setup":
        return
    for step in range(nsteps):
        got = [(t, i) for (t, i, _) in by_step.get(step, []) if t != "end"]
        exp = expected_plan(sc, step, sc.use["soils"])
        stats["steps"] = stats.get("steps", 0) + 1
        if err and err[0] == step:
            # the step was aborted by an exception: the actions before it must be a prefix of the plan
            ok = all(g[0] == e[0] and (e[1] is None or g[1] == e[1]) for g, e in zip(got, exp)) and len(got) <= len(exp)
            if not ok:
                ctx.violation("C09.order.before_exception", "step %d ran %s, plan %s" % (step, got, exp), sc.text)
                return
            nxt = exp[len(got)][0] if len(got) < len(exp) else "?"
            if sc.entry == "rasters" and nxt in ("mortality", "spread_rate"):
                ctx.violation("C09.raster_entry.%s.%s" % (nxt, err[1]),
                              "raster entry point: scheduled %s in step %d ends in %s" % (nxt, step, err[1]), sc.text)
            break
        if err and isinstance(err[0], int) and step > err[0]:
            break
        ok = len(got) == len(exp) and all(g[0] == e[0] and (e[1] is None or g[1] == e[1]) for g, e in zip(got, exp))
        if not ok:
            ctx.violation("C09.order_or_runs_iff", "step %d ran %s but the enabled, scheduled actions in documented order are %s" % (step, got, exp), sc.text)
            return
        # measurements do not change host state
        prev = None
        for (t, i, st) in by_step.get(step, []):
            if t in ("spread_rate", "quarantine") and prev is not None and st["hosts"] != prev["hosts"]:
                ctx.violation("C09.measurement_changes_state.%s" % t, "step %d: %s changed the host rasters" % (step, t), sc.text)
                return
            prev = st
    # soil ageing is the first action of EVERY step (not only of spread steps) and no
    # action other than ageing, generation (gain) and dispersal (release) touches the soil
    if err:
        return
    for prev, step, tag, idx, st in iter_pairs(sc, tr):
        if not prev["soil"] or tag == "end":
            continue
        if tag == "soil_next_step":
            if st["soil"] != [cs[1:] + [0] for cs in prev["soil"]]:
                ctx.violation("C09.soil_ageing_every_step", "step %d: the soil-ageing slot of the step left the soil cohorts %s -> %s (must drop the oldest cohort and open an empty one)" % (step, prev["soil"], st["soil"]), sc.text)
                return
        elif tag not in ("generate", "spread", "disperse") and st["soil"] != prev["soil"]:
            ctx.violation("C09.soil_changed_by.%s" % tag, "step %d: %s changed the soil cohorts %s -> %s" % (step, tag, prev["soil"], st["soil"]), sc.text)
            return


# ------------------------------------------------------------------ C10
def apply_removal(cell, coef, app):
    c = dict(cell, E=list(cell["E"]), M=list(cell["M"]))
    s = math.ceil(treated("ratio", coef, c["S"]))
    e = [math.ceil(treated(app, coef, x)) for x in c["E"]]
    i = math.ceil(treated(app, coef, c["I"]))
    m = [math.ceil(treated(app, coef, x)) for x in c["M"]]
    if s > 0:
        c["S"] -= s
    c["E"] = [x - y for x, y in zip(c["E"], e)]
    c["TE"] -= sum(e)
    if i > 0:
        c["M"] = [x - y for x, y in zip(c["M"], m)]
        c["I"] -= i
    c["TH"] = c["S"] + sum(c["E"]) + c["I"] + c["R"]
    return c


def apply_pesticide(cell, coef, app):
    c = dict(cell, E=list(cell["E"]), M=list(cell["M"]))
    s = math.floor(treated("ratio", coef, c["S"]))
    e = [math.floor(treated(app, coef, x)) for x in c["E"]]
    i = math.floor(treated(app, coef, c["I"]))
    m = [math.floor(treated(app, coef, x)) for x in c["M"]]
    c["S"] -= s
    c["E"] = [x - y for x, y in zip(c["E"], e)]
    c["TE"] -= sum(e)
    c["I"] -= i
    c["M"] = [x - y for x, y in zip(c["M"], m)]
    c["R"] += s + sum(e) + i
    return c


def mon_C10(ctx, k, sc, tr, stats):
    import copy
    for prev, step, tag, idx, st in iter_pairs(sc, tr):
        if tag != "treatments":
            continue
        stats["treatment_actions"] = stats.get("treatment_actions", 0) + 1
        work = copy.deepcopy(prev["hosts"])
        for h in range(len(work)):
            suit = prev["suit"][h]
            for t in sc.treats_at(step):
                if t["start"] == step:
                    stats["applications"] = stats.get("applications", 0) + 1
                    for (r, c) in suit:
                        i = r * sc.cols + c
                        work[h][i] = (apply_pesticide if t["pest"] else apply_removal)(work[h][i], t["coef"][i], t["app"])
                elif t["pest"] and t["end"] == step:
                    stats["pesticide_ends"] = stats.get("pesticide_ends", 0) + 1
                    for (r, c) in suit:
                        i = r * sc.cols + c
                        if t["coef"][i] > 0:
                            work[h][i] = dict(work[h][i], S=work[h][i]["S"] + work[h][i]["R"], R=0)
        for h in range(len(work)):
            for i in range(sc.ncell):
                if not cells_equal(work[h][i], st["hosts"][h][i]):
                    kinds = sorted(set(("pesticide" if t["pest"] else "removal") for t in sc.treats_at(step) if t["start"] == step or (t["pest"] and t["end"] == step))) or ["none_scheduled"]
                    ctx.violation("C10.share.%s" % "+".join(kinds),
                                  "step %d host %d cell %d: after treatments %s, documented %s (before: %s)" %
                                  (step, h, i, fmt_cell(st["hosts"][h][i]), fmt_cell(work[h][i]), fmt_cell(prev["hosts"][h][i])), sc.text)
                    return


# ------------------------------------------------------------------ C11
def mon_C11(ctx, k, sc, tr, stats):
    for prev, step, tag, idx, st in iter_pairs(sc, tr):
        if tag != "mortality":
            continue
        stats["mortality_actions"] = stats.get("mortality_actions", 0) + 1
        for h in range(len(st["hosts"])):
            if h not in sc.pht:
                continue
            _, rate, lag = sc.pht[h]
            suit = set(prev["suit"][h] and prev["suit"][0])  # the multi-host pool iterates host 0's list
            for i in range(sc.ncell):
                p, c = prev["hosts"][h][i], st["hosts"][h][i]
                m = list(p["M"])
                dead = 0
                if ((i // sc.cols, i % sc.cols) in suit) and rate > 0:
                    n = len(m) - lag
                    for j in range(max(n, 0)):
                        if m[j] > 0:
                            d = m[j] if j == 0 else math.floor(rate * m[j])
                            m[j] -= d
                            dead += d
                exp_m = m[1:] + m[:1] if m else m
                if c["M"] != exp_m or c["D"] - p["D"] != dead or p["I"] - c["I"] != dead or p["TH"] - c["TH"] != dead:
                    ctx.violation("C11.cohort_rule", "step %d host %d cell %d (rate %s lag %d): cohorts %s -> %s, documented %s; died %d (documented %d), infected %d -> %d, total hosts %d -> %d" %
                                  (step, h, i, rate, lag, p["M"], c["M"], exp_m, c["D"] - p["D"], dead, p["I"], c["I"], p["TH"], c["TH"]), sc.text)
                    return
                if dead:
                    stats["dead"] = stats.get("dead", 0) + dead
                if (c["S"], c["E"], c["R"]) != (p["S"], p["E"], p["R"]):
                    ctx.violation("C11.other_classes_touched", "step %d host %d cell %d: mortality changed S/E/R" % (step, h, i), sc.text)
                    return


# ------------------------------------------------------------------ C12 (removal rules; establishment rule from the tape)
def mon_C12(ctx, k, sc, tr, stats):
    for prev, step, tag, idx, st in iter_pairs(sc, tr):
        if tag == "lethal_temperature":
            stats["lethal_actions"] = stats.get("lethal_actions", 0) + 1
            temps = sc.temps[idx] if idx < len(sc.temps) else None
            thr = Q(sc.kv["lethal"][2])
            suit = set(prev["suit"][0])
            for h in range(len(st["hosts"])):
                for i in range(sc.ncell):
                    p, c = prev["hosts"][h][i], st["hosts"][h][i]
                    cold = temps is not None and ((i // sc.cols, i % sc.cols) in suit) and temps[i] < thr
                    if cold:
                        ok = c["I"] == 0 and c["S"] == p["S"] + p["I"] and c["E"] == p["E"] and c["TE"] == p["TE"] and c["R"] == p["R"] and sum(c["M"]) == sum(p["M"]) - min(p["I"], sum(p["M"]))
                        stats["cold_cells"] = stats.get("cold_cells", 0) + 1
                    else:
                        ok = cells_equal(p, c)
                    if not ok:
                        ctx.violation("C12.lethal.%s" % ("cold_cell" if cold else "other_cell"),
                                      "step %d host %d cell %d (%s): %s -> %s" % (step, h, i, "colder than threshold" if cold else "not colder", fmt_cell(p), fmt_cell(c)), sc.text)
                        return
        elif tag == "survival_rate":
            stats["survival_actions"] = stats.get("survival_actions", 0) + 1
            rates = sc.survs[idx] if idx < len(sc.survs) else None
            suit = set(prev["suit"][0])
            for h in range(len(st["hosts"])):
                for i in range(sc.ncell):
                    p, c = prev["hosts"][h][i], st["hosts"][h][i]
                    act = rates is not None and ((i // sc.cols, i % sc.cols) in suit) and rates[i] < 1
                    if act:
                        ki, ke = lround(p["I"] * rates[i]), lround(p["TE"] * rates[i])
                        ok = c["I"] == ki and c["TE"] == ke and sum(c["E"]) == ke and c["S"] == p["S"] + (p["I"] - ki) + (p["TE"] - ke) and c["R"] == p["R"]
                    else:
                        ok = cells_equal(p, c)
                    if not ok:
                        ctx.violation("C12.survival.%s" % ("rate_lt_1" if act else "other_cell"),
                                      "step %d host %d cell %d survival rate %s: %s -> %s" % (step, h, i, rates[i] if rates else None, fmt_cell(p), fmt_cell(c)), sc.text)
                        return
    # every establishment goes through the establishment test: the susceptibles consumed by a
    # dispersal action are exactly the tests that succeeded (a disperser that establishes without a
    # test - e.g. because a shortcut skipped it - did not "establish with the cell's probability")
    for prev, step, tag, idx, st in iter_pairs(sc, tr):
        if tag != "spread":
            continue
        consumed = sum(p["S"] - c["S"] for h in range(len(st["hosts"])) for p, c in zip(prev["hosts"][h], st["hosts"][h]))
        passed = sum(1 for ev in tr["tapes"].get(step, []) if ev.startswith("establish:") and ev.endswith(":1"))
        stats["establishments"] = stats.get("establishments", 0) + consumed
        if consumed != passed:
            ctx.violation("C12.establish.without_test", "step %d: %d susceptible hosts were infected/exposed by dispersal, but %d establishment tests succeeded" % (step, consumed, passed), sc.text)
            return
    # establishment decisions on the tape: established exactly when tester < probability;
    # deterministic establishment uses tester = 1 - establishment probability
    det = sc.kv["stoch"][1] == "0"
    p_det = 1 - Q(sc.kv["estprob"][0])
    for step, evs in tr["tapes"].items():
        for ev in evs:
            if ev.startswith("establish:"):
                _, t, p, r = ev.split(":")
                tq, pq = parse_q(t), parse_q(p)
                stats["establish_events"] = stats.get("establish_events", 0) + 1
                if not det:
                    stats.setdefault("_testers", []).append(float(tq))
                    stats.setdefault("_decisions", []).append((float(pq), r == "1"))
                if (tq < pq) != (r == "1"):
                    ctx.violation("C12.establish.decision", "tester %s probability %s result %s" % (t, p, r), sc.text)
                    return
                if det and tq != p_det:
                    ctx.violation("C12.establish.deterministic_tester", "deterministic establishment tested %s, documented 1 - %s" % (t, sc.kv["estprob"][0]), sc.text)
                    return
                if not (0 <= pq <= 1):
                    ctx.violation("C12.establish.probability_range", "establishment probability %s outside [0,1]" % p, sc.text)
                    return
    # the probability of every establishment test is the documented one for the state of the
    # destination cell at that moment: susceptible / total population x weather coefficient x the
    # host's susceptibility in the table the pool has NOW (single host, dispersers arriving through
    # a kernel; susceptibles are consumed one by one as dispersers establish)
    if sc.nhosts == 1 and not sc.use["soils"] and sc.kv["arrival"][0] == "infect":
        susc = sc.pht[0][0] if (sc.entry == "pools" and 0 in sc.pht) else Fraction(1)   # no table through the raster entry point
        for prev, step, tag, idx, st in iter_pairs(sc, tr):
            if tag != "spread":
                continue
            weather = sc.weathers[step % len(sc.weathers)] if sc.use["weather"] and sc.weathers else None
            S = [c["S"] for c in prev["hosts"][0]]
            cur = None
            for ev in tr["tapes"].get(step, []):
                if ev.startswith("kernel:"):
                    _, r, c, tr_, tc = ev.split(":")
                    tr_, tc = int(tr_), int(tc)
                    cur = tr_ * sc.cols + tc if (0 <= tr_ < sc.rows and 0 <= tc < sc.cols) else None
                elif ev.startswith("establish:") and cur is not None:
                    _, t, p, r = ev.split(":")
                    if sc.totpop[cur] > 0:
                        exp_p = Fraction(S[cur], sc.totpop[cur]) * susc * (weather[cur] if weather else 1)
                        stats["establish_probabilities"] = stats.get("establish_probabilities", 0) + 1
                        if abs(parse_q(p) - exp_p) > Fraction(1, 10 ** 9):   # the logged value is a binary64 number
                            ctx.violation("C12.establish.probability", "step %d cell %d: establishment tested with probability %s, documented susceptible/population x weather x susceptibility = %d/%d x %s x %s = %s" %
                                          (step, cur, p, S[cur], sc.totpop[cur], weather[cur] if weather else 1, susc, exp_p), sc.text)
                            return
                    if r == "1":
                        S[cur] -= 1
                    cur = None
                elif not ev.startswith(("generate:", "draw:")):
                    cur = None if ev.startswith(("soil_", "okernel:")) else cur


def parse_q(s):
    num, _, den = s.partition("/")

    def pw(t):
        if "^" in t:
            a, _, b = t.partition("^")
            a = a[:-1]  # drop the 2
            if a.endswith("*"):
                a = a[:-1]
            return (int(a) if a else 1) * 2 ** int(b)
        return int(t)
    return Fraction(pw(num), pw(den) if den else 1)


# ------------------------------------------------------------------ C05
def mon_C05(ctx, k, sc, tr, stats):
    if sc.mt != "SEI":
        return
    L = sc.latency
    for prev, step, tag, idx, st in iter_pairs(sc, tr):
        for h in range(len(st["hosts"])):
            for i in range(sc.ncell):
                p, c = prev["hosts"][h][i], st["hosts"][h][i]
                if c["TE"] != sum(c["E"]) and p["TE"] == sum(p["E"]):
                    # the hosts the model counts as exposed are exactly those inside their latency
                    # window (the cohorts): a host counted as exposed but in no cohort never becomes infected
                    ctx.violation("C05.exposed_count.%s" % tag, "step %d after %s: host %d cell %d counts %d exposed hosts, the cohorts hold %d: %s -> %s" %
                                  (step, tag, h, i, c["TE"], sum(c["E"]), fmt_cell(p), fmt_cell(c)), sc.text)
                    return
                if tag == "step_forward":
                    stats["cohort_shifts"] = stats.get("cohort_shifts", 0) + 1
                    old = p["E"]
                    if step >= L:
                        exp_e = old[1:] + [0]
                        ok = c["E"] == exp_e and c["I"] == p["I"] + old[0] and c["TE"] == p["TE"] - old[0] and c["M"][:-1] == p["M"][:-1] and c["M"][-1] == p["M"][-1] + old[0]
                    else:
                        exp_e = old[1:] + old[:1]
                        ok = c["E"] == exp_e and c["I"] == p["I"] and c["M"] == p["M"] and c["TE"] == p["TE"]
                    if not ok:
                        ctx.violation("C05.step_forward.%s" % ("transition" if step >= L else "before_latency"),
                                      "step %d (latency %d) host %d cell %d: %s -> %s" % (step, L, h, i, fmt_cell(p), fmt_cell(c)), sc.text)
                        return
                elif tag == "spread":
                    # new exposure goes to the youngest cohort only; nobody becomes infected during dispersal
                    if c["E"][:-1] != p["E"][:-1] or c["E"][-1] < p["E"][-1] or c["I"] != p["I"]:
                        ctx.violation("C05.exposure_not_youngest", "step %d host %d cell %d: %s -> %s" % (step, h, i, fmt_cell(p), fmt_cell(c)), sc.text)
                        return
                elif tag not in ("movement", "end", "overpopulation"):
                    # no other action increases a cohort, moves hosts between cohort positions, or creates infection
                    if any(x > y for x, y in zip(c["E"], p["E"])) or c["I"] > p["I"]:
                        ctx.violation("C05.cohort_or_infected_increase.%s" % tag, "step %d host %d cell %d: %s -> %s" % (step, h, i, fmt_cell(p), fmt_cell(c)), sc.text)
                        return


# ------------------------------------------------------------------ C17
def mon_C17(ctx, k, sc, tr, stats):
    thr = Q(sc.kv["overpop"][1])
    share = Q(sc.kv["overpop"][2])
    applied_rows = 0
    for prev, step, tag, idx, st in iter_pairs(sc, tr):
        if tag == "overpopulation":
            stats["overpop_actions"] = stats.get("overpop_actions", 0) + 1
            evs = [e for e in tr["tapes"].get(step, []) if e.startswith("okernel:")]
            nh = len(st["hosts"])
            I = [sum(prev["hosts"][h][i]["I"] for h in range(nh)) for i in range(sc.ncell)]
            S = [sum(prev["hosts"][h][i]["S"] for h in range(nh)) for i in range(sc.ncell)]
            expI, expS = list(I), list(S)
            moves, out_exp = [], []
            leaving_cells = []
            for (r, c) in prev["suit"][0]:
                i = r * sc.cols + c
                if I[i] >= 2 and Fraction(I[i], S[i] + I[i]) >= thr:
                    leaving_cells.append((r, c))
            if [tuple(int(x) for x in e.split(":")[1:3]) for e in evs] != leaving_cells:
                ctx.violation("C17.leaves_iff", "step %d: cells drawing a destination %s, cells meeting the departure rule %s" %
                              (step, [e.split(":")[1:3] for e in evs], leaving_cells), sc.text)
                return
            # the destination is drawn by the NATURAL kernel (rescaled): for the deterministic
            # neighbour kernel that is the adjacent cell in the natural direction
            if sc.kv["kernel"][0] == "deterministic-neighbor":
                dr, dc = {"N": (-1, 0), "NE": (-1, 1), "E": (0, 1), "SE": (1, 1), "S": (1, 0), "SW": (1, -1), "W": (0, -1), "NW": (-1, -1)}[sc.kv["kernel"][1]]
                for e in evs:
                    _, r, c, tr_, tc = e.split(":")
                    stats["neighbour_destinations"] = stats.get("neighbour_destinations", 0) + 1
                    if (int(tr_), int(tc)) != (int(r) + dr, int(c) + dc):
                        ctx.violation("C17.overpopulation.destination_kernel", "step %d: pests leaving (%s,%s) were sent to (%s,%s); the natural kernel is the deterministic neighbour kernel towards %s" %
                                      (step, r, c, tr_, tc, sc.kv["kernel"][1]), sc.text)
                        return
            for e in evs:
                _, r, c, tr_, tc = e.split(":")
                i = int(r) * sc.cols + int(c)
                leaving = min(lround(I[i] * share), I[i])
                expI[i] -= leaving
                expS[i] += leaving
                tr_, tc = int(tr_), int(tc)
                if tr_ < 0 or tr_ >= sc.rows or tc < 0 or tc >= sc.cols:
                    out_exp += [(tr_, tc)] * leaving
                else:
                    moves.append((tr_ * sc.cols + tc, leaving))
            for (t, n) in moves:   # all departures are decided before any arrival
                est = min(n, expS[t])
                expS[t] -= est
                expI[t] += est
                stats["pests_moved"] = stats.get("pests_moved", 0) + est
            gotI = [sum(st["hosts"][h][i]["I"] for h in range(nh)) for i in range(sc.ncell)]
            gotS = [sum(st["hosts"][h][i]["S"] for h in range(nh)) for i in range(sc.ncell)]
            if gotI != expI or gotS != expS:
                ctx.violation("C17.overpopulation.counts", "step %d: infected %s susceptible %s, documented %s %s" % (step, gotI, gotS, expI, expS), sc.text)
                return
            if st["outside"][len(prev["outside"]):] != out_exp:
                ctx.violation("C17.overpopulation.outside", "step %d: outside dispersers recorded %s, documented %s" % (step, st["outside"][len(prev["outside"]):], out_exp), sc.text)
                return
        elif tag == "movement":
            stats["movement_actions"] = stats.get("movement_actions", 0) + 1
            rows = []
            j = applied_rows
            while j < len(sc.moves) and sc.moves[j][5] == step:
                rows.append(sc.moves[j])
                j += 1
            if idx != j:
                ctx.violation("C17.movement.cursor", "step %d: cursor %d after the action, rows scheduled up to here %d" % (step, idx, j), sc.text)
                return
            applied_rows = j
            th = [c["TH"] for c in prev["hosts"][0]]
            suit = list(prev["suit"][0])
            for (rf, cf, rt, ct, cnt, _) in rows:
                a, b = rf * sc.cols + cf, rt * sc.cols + ct
                moved = min(cnt, th[a])
                if th[b] == 0 and (rt, ct) not in suit:
                    suit.append((rt, ct))
                th[a] -= moved
                th[b] += moved
                stats["hosts_moved"] = stats.get("hosts_moved", 0) + moved
            got = [c["TH"] for c in st["hosts"][0]]
            if got != th:
                ctx.violation("C17.movement.counts", "step %d rows %s: total hosts %s, documented %s" % (step, rows, got, th), sc.text)
                return
            if st["suit"][0] != suit:
                ctx.violation("C17.movement.suitable", "step %d: suitable cells %s, documented %s" % (step, st["suit"][0], suit), sc.text)
                return
            for i in range(sc.ncell):
                c = st["hosts"][0][i]
                if c["TH"] != c["S"] + sum(c["E"]) + c["I"] + c["R"] or c["I"] != sum(c["M"]) and prev["hosts"][0][i]["I"] == sum(prev["hosts"][0][i]["M"]) and not rows == [] and False:
                    ctx.violation("C17.movement.classes", "step %d cell %d: classes do not add up after the move: %s" % (step, i, fmt_cell(c)), sc.text)
                    return


# ------------------------------------------------------------------ C04 / C16 (disperser accounting, competency)
def competency_of(sc, presence, h):
    rows = [(tuple(int(x) for x in t[1].split(",")), Q(t[2])) for t in sc.multi if t[0] == "comprow"]
    if not rows:
        return Fraction(1)
    if len(rows) == 2 ** len(rows[0][0]):      # complete table: the matching row (later rows overwrite)
        found = None
        for key, comp in rows:
            if tuple(bool(x) for x in key) == tuple(presence):
                found = comp
        return found
    best = Fraction(0)
    for key, comp in rows:
        if not key[h]:
            continue
        if comp <= best:
            continue
        if all((not key[j]) or presence[j] for j in range(len(key))):
            best = comp
    return best


def mon_C04(ctx, k, sc, tr, stats, check_competency=False):
    nh = sc.nhosts
    gen_st = sc.kv["stoch"][0] == "1"
    rr = Q(sc.kv["rr"][0])
    pct = Q(sc.kv["soils"][1])
    last_gen = None
    for prev, step, tag, idx, st in iter_pairs(sc, tr):
        evs = tr["tapes"].get(step, [])
        if tag == "soil_next_step" and prev["soil"]:
            if st["soil"] != [cs[1:] + [0] for cs in prev["soil"]]:
                ctx.violation("C04.soil_ageing", "step %d: soil cohorts %s -> %s" % (step, prev["soil"], st["soil"]), sc.text)
                return
        if tag == "generate":
            last_gen = st
            stats["generate_actions"] = stats.get("generate_actions", 0) + 1
            weather = sc.weathers[step % len(sc.weathers)] if sc.use["weather"] and sc.weathers else None
            gens = {}
            for e in evs:
                if e.startswith("generate:"):
                    _, r, c, lam, n = e.split(":")
                    gens.setdefault((int(r), int(c)), []).append((parse_q(lam), int(n)))
            for (r, c) in prev["suit"][0]:
                i = r * sc.cols + c
                infected = [prev["hosts"][h][i]["I"] for h in range(nh)]
                produced = sum(n for _, n in gens.get((r, c), []))
                if sum(1 for x in infected if x > 0) != len(gens.get((r, c), [])):
                    ctx.violation("C04.generation_events", "step %d cell %s: %d hosts with infection, %d generation events" % (step, (r, c), sum(1 for x in infected if x > 0), len(gens.get((r, c), []))), sc.text)
                    return
                if all(x <= 0 for x in infected) and st["disp"][i] != 0:
                    ctx.violation("C04.no_infection_no_dispersers", "step %d cell %s without infection has %d dispersers" % (step, (r, c), st["disp"][i]), sc.text)
                    return
                if not gen_st:
                    presence = [prev["hosts"][h][i]["S"] + prev["hosts"][h][i]["I"] != 0 for h in range(nh)]
                    exp = 0
                    for h in range(nh):
                        if infected[h] > 0:
                            comp = competency_of(sc, presence, h) if (sc.entry == "pools" and sc.pht) else Fraction(1)
                            if comp is None:
                                exp = None
                                break
                            lam = rr * (weather[i] if weather else 1) * comp
                            exp += lround(lam * infected[h])
                            if check_competency:
                                stats["competency_lookups"] = stats.get("competency_lookups", 0) + 1
                    if exp is not None and produced != exp:
                        ctx.violation("C16.competency_or_generation" if check_competency else "C04.deterministic_generation",
                                      "step %d cell %s: produced %d dispersers, documented round(rate x weather x competency x infected) = %d (infected %s)" % (step, (r, c), produced, exp, infected), sc.text)
                        return
                to_soil = lround(pct * produced) if (sc.use["soils"] and produced > 0) else 0
                if st["disp"][i] != produced - to_soil:
                    ctx.violation("C04.soil_split", "step %d cell %s: produced %d, dispersing %d, documented soil share %d" % (step, (r, c), produced, st["disp"][i], to_soil), sc.text)
                    return
                if sc.use["soils"] and prev["soil"]:
                    gained = st["soil"][i][-1] - prev["soil"][i][-1]
                    if not (0 <= gained <= to_soil):
                        ctx.violation("C04.soil_gain", "step %d cell %s: youngest soil cohort gained %d of %d dispersers sent to the soil" % (step, (r, c), gained, to_soil), sc.text)
                        return
        if tag == "spread" and last_gen is not None:
            stats["spread_actions"] = stats.get("spread_actions", 0) + 1
            # every disperser is dispatched exactly once: kernel events per origin = dispersers of the origin
            per_origin, est_per_origin, outside = {}, {}, []
            soil_est = 0
            cur_origin = None
            in_soil = False
            for e in evs:
                if e.startswith("kernel:"):
                    _, r, c, tr_, tc = e.split(":")
                    cur_origin = (int(r), int(c))
                    in_soil = False
                    per_origin[cur_origin] = per_origin.get(cur_origin, 0) + 1
                    tr_, tc = int(tr_), int(tc)
                    if tr_ < 0 or tr_ >= sc.rows or tc < 0 or tc >= sc.cols:
                        outside.append((tr_, tc))
                elif e.startswith("soil_from:"):
                    in_soil = True
                elif e.startswith("establish:") and e.endswith(":1"):
                    if in_soil:
                        soil_est += 1
                    else:
                        est_per_origin[cur_origin] = est_per_origin.get(cur_origin, 0) + 1
            for (r, c) in prev["suit"][0]:
                i = r * sc.cols + c
                if per_origin.get((r, c), 0) != max(last_gen["disp"][i], 0):
                    ctx.violation("C04.each_disperser_once", "step %d cell %s: %d dispersers, %d kernel draws" % (step, (r, c), last_gen["disp"][i], per_origin.get((r, c), 0)), sc.text)
                    return
            exp_est = [0] * sc.ncell
            for (r, c), n in est_per_origin.items():
                exp_est[r * sc.cols + c] = n
            if st["estab"] != exp_est:
                ctx.violation("C04.established_count", "step %d: established dispersers %s, establishments on the tape %s" % (step, st["estab"], exp_est), sc.text)
                return
            if st["outside"][len(prev["outside"]):] != outside:
                ctx.violation("C04.outside_recorded", "step %d: outside dispersers %s, kernel results outside %s" % (step, st["outside"][len(prev["outside"]):], outside), sc.text)
                return
            dS = sum(prev["hosts"][h][i]["S"] - st["hosts"][h][i]["S"] for h in range(nh) for i in range(sc.ncell))
            if dS != sum(st["estab"]) + soil_est:
                ctx.violation("C04.balance", "step %d: %d susceptible hosts consumed, %d established (+%d from soil)" % (step, dS, sum(st["estab"]), soil_est), sc.text)
                return
            stats["established"] = stats.get("established", 0) + sum(st["estab"]) + soil_est
            # each establishment turns one susceptible into one exposed (SEI) / infected (SI) host of the same cell
            for h in range(nh):
                for i in range(sc.ncell):
                    p, c = prev["hosts"][h][i], st["hosts"][h][i]
                    ds = p["S"] - c["S"]
                    if sc.mt == "SI":
                        ok = c["I"] - p["I"] == ds and c["M"][-1] - p["M"][-1] == ds and c["M"][:-1] == p["M"][:-1] and c["E"] == p["E"] if p["M"] else True
                    else:
                        ok = c["E"][-1] - p["E"][-1] == ds and c["E"][:-1] == p["E"][:-1] and c["I"] == p["I"] and c["M"] == p["M"] and c["TE"] - p["TE"] == ds
                    if ds < 0 or not ok:
                        ctx.violation("C04.establish_reclassifies", "step %d host %d cell %d: %s -> %s" % (step, h, i, fmt_cell(p), fmt_cell(c)), sc.text)
                        return


def mon_C16(ctx, k, sc, tr, stats):
    if sc.nhosts < 1:
        return
    mon_C04(ctx, k, sc, tr, stats, check_competency=True)
    mon_C16_oversuitable(ctx, k, sc, tr, stats)
    mon_C16_pick(ctx, k, sc, tr, stats)
    # the establishment test the multi-host pool makes itself ("land") or delegates ("infect") must be
    # the documented one for both arrival behaviours: same decision rule, deterministic tester 1 - p,
    # every establishment tested (the checks of C12 on the tape's establish events)
    class EstablishView:
        def __init__(self, c):
            self._c = c

        def __getattr__(self, n):
            return getattr(self._c, n)

        def violation(self, key, what, case=None, detail=None):
            if key.startswith("C12.establish."):
                self._c.violation("C16.%s.%s" % (sc.kv["arrival"][0], key[len("C12."):]), what, case, detail)
    mon_C12(EstablishView(ctx), k, sc, tr, {})
    if sc.nhosts >= 2:
        # pests leaving or arriving are split among the hosts so that the pool as a whole behaves
        # like the sum of its hosts: what the overpopulation rule of C17 demands of the TOTALS
        # over hosts (departures by the rounding rule, arrivals min(count, all susceptibles)) is a
        # statement about the split when there are several hosts
        class SplitView:
            def __init__(self, c):
                self._c = c

            def __getattr__(self, n):
                return getattr(self._c, n)

            def violation(self, key, what, case=None, detail=None):
                if key in ("C17.overpopulation.counts", "C17.overpopulation.outside"):
                    self._c.violation(key.replace("C17.overpopulation", "C16.pests_split"), what, case, detail)
        mon_C17(SplitView(ctx), k, sc, tr, {})
    # a landing disperser goes to at most one host, which must have a susceptible individual:
    # covered by C04.establish_reclassifies per host; here: pests split among hosts
    for prev, step, tag, idx, st in iter_pairs(sc, tr):
        if tag == "overpopulation":
            for h in range(len(st["hosts"])):
                for i in range(sc.ncell):
                    p, c = prev["hosts"][h][i], st["hosts"][h][i]
                    if c["I"] < 0 or c["S"] < 0:
                        ctx.violation("C16.split_exceeds_availability", "step %d host %d cell %d: %s -> %s" % (step, h, i, fmt_cell(p), fmt_cell(c)), sc.text)
                        return


def mon_C16_oversuitable(ctx, k, sc, tr, stats):
    """Input for which the combined suitability of a cell exceeds one is rejected (both
    arrival behaviours).  Susceptibles of a cell only decrease during a dispersal action, so
    the FIRST disperser landing in a cell sees exactly the combined suitability computed from
    the state before the action: if that exceeds one, the action had to end in
    std::invalid_argument - a completed dispersal action with a landing there is a violation."""
    if sc.nhosts < 2 or not sc.totpop:
        return
    for prev, step, tag, idx, st in iter_pairs(sc, tr):
        if tag != "spread":
            continue
        weather = sc.weathers[step % len(sc.weathers)] if sc.use["weather"] and sc.weathers else None
        landed = set()
        for e in tr["tapes"].get(step, []):
            if e.startswith("kernel:"):
                _, r, c, tr_, tc = e.split(":")
                tr_, tc = int(tr_), int(tc)
                if 0 <= tr_ < sc.rows and 0 <= tc < sc.cols:
                    landed.add(tr_ * sc.cols + tc)
        for i in range(sc.ncell):
            if sc.totpop[i] <= 0:
                continue
            total = sum(Fraction(prev["hosts"][h][i]["S"], sc.totpop[i]) * (sc.pht[h][0] if h in sc.pht else 1) * (weather[i] if weather else 1)
                        for h in range(sc.nhosts))
            if total > 1:
                stats["oversuitable_cells_seen"] = stats.get("oversuitable_cells_seen", 0) + 1
                if i in landed:
                    ctx.violation("C16.oversuitable_accepted", "step %d cell %d: a disperser landed and the dispersal action completed although the combined suitability of the cell is %s > 1 (population %d)" % (step, i, total, sc.totpop[i]), sc.text)
                    return


def mon_C16_pick(ctx, k, sc, tr, stats):
    """A landing disperser is handed to a host by weight = the host's suitability in the cell.
    Susceptibles only decrease during a dispersal action, so a host that had NO susceptible in
    the cell before the action has weight 0 for every pick of the action; it must not be picked
    while another host still has susceptibles (and positive susceptibility and weather) there
    after the action - that host had a positive weight at every pick."""
    if sc.nhosts < 2:
        return
    for prev, step, tag, idx, st in iter_pairs(sc, tr):
        if tag != "spread":
            continue
        weather = sc.weathers[step % len(sc.weathers)] if sc.use["weather"] and sc.weathers else None
        cur = None
        for e in tr["tapes"].get(step, []):
            if e.startswith("kernel:"):
                _, r, c, tr_, tc = e.split(":")
                tr_, tc = int(tr_), int(tc)
                cur = tr_ * sc.cols + tc if (0 <= tr_ < sc.rows and 0 <= tc < sc.cols) else None
            elif e.startswith("soil_from:"):
                p_ = e.split(":")
                cur = int(p_[1]) * sc.cols + int(p_[2])
            elif e.startswith("pick:") and cur is not None:
                h = int(e.split(":")[1])
                stats["picks"] = stats.get("picks", 0) + 1
                if not (0 <= h < sc.nhosts):
                    ctx.violation("C16.pick.no_such_host", "step %d: host index %d picked, %d hosts" % (step, h, sc.nhosts), sc.text)
                    return
                if weather is not None and weather[cur] <= 0:
                    continue
                if prev["hosts"][h][cur]["S"] == 0:
                    others = [g for g in range(sc.nhosts) if g != h and st["hosts"][g][cur]["S"] > 0 and (sc.pht[g][0] if g in sc.pht else 1) > 0]
                    if others:
                        ctx.violation("C16.pick.zero_weight_host", "step %d cell %d: host %d was picked for a landing disperser although it had no susceptible there (weight 0) while host(s) %s had" % (step, cur, h, others), sc.text)
                        return


MONITORS.update({"C04": mon_C04, "C05": mon_C05, "C09": mon_C09, "C10": mon_C10, "C11": mon_C11, "C12": mon_C12, "C16": mon_C16, "C17": mon_C17})


def pairs_C05(ctx, blocks, trace, stats):
    """SEI with latency 0 against SI, same seed: identical trajectories (state at
    the end of every step), implementation against implementation."""
    for k in range(len(blocks) - 1):
        if "\npair L0_SEI\n" not in blocks[k] or "\npair L0_SI\n" not in blocks[k + 1]:
            continue
        a, b = trace.get(k), trace.get(k + 1)
        if a is None or b is None:
            continue
        stats["L0_pairs"] = stats.get("L0_pairs", 0) + 1
        ea = [(s, st) for (s, tag, i, st) in a["snaps"] if tag == "end"]
        eb = [(s, st) for (s, tag, i, st) in b["snaps"] if tag == "end"]
        if (a["err"] is None) != (b["err"] is None) or len(ea) != len(eb):
            ctx.violation("C05.L0_vs_SI.run_length", "SEI(L=0) ran %d steps (error %s), SI ran %d (error %s)" % (len(ea), a["err"], len(eb), b["err"]), blocks[k] + blocks[k + 1])
            return
        for (s, x), (_, y) in zip(ea, eb):
            for h in range(len(x["hosts"])):
                for i, (c, d) in enumerate(zip(x["hosts"][h], y["hosts"][h])):
                    stats["L0_cells_compared"] = stats.get("L0_cells_compared", 0) + 1
                    if (c["S"], c["I"], c["M"], c["R"], c["D"], c["TH"]) != (d["S"], d["I"], d["M"], d["R"], d["D"], d["TH"]) or any(c["E"]):
                        ctx.violation("C05.L0_vs_SI.trajectory", "step %d host %d cell %d: SEI(L=0) %s, SI %s" % (s, h, i, fmt_cell(c), fmt_cell(d)), blocks[k] + blocks[k + 1])
                        return
