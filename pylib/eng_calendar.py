"""Calendar engine: C07 (steps tile the calendar) and C08 (schedules and indices).

Case kinds (one line each, see harness/calendar.cpp and ocaml/drv_calendar.ml):
  S <op> y m d [n]     successor functions
  C y m d y m d        comparisons
  K ...                a whole Scheduler with schedules and lookups
  G ...                Config::create_schedules wiring
The monitor below re-states the two properties in Python over a linear day
number, independently of the Coq model, and is evaluated on the
implementation's output only.
"""
import os
import random

import vcommon as vc

PROPERTIES = ["C07", "C08"]

FREQS = ["-", "final_step", "year", "yearly", "month", "monthly", "week", "weekly",
         "day", "daily", "every_n_steps", "every_step", "time_step", "bogus", "Year"]


# ---- independent calendar arithmetic (specification side) ----
def is_leap(y):
    return y % 4 == 0 and (y % 100 != 0 or y % 400 == 0)


def dim(y, m):
    return [0, 31, 29 if is_leap(y) else 28, 31, 30, 31, 30, 31, 31, 30, 31, 30, 31][m]


def dby(y):
    return 365 * y + (y - 1) // 4 - (y - 1) // 100 + (y - 1) // 400


def dn(d):
    y, m, dd = d
    return dby(y) + sum(dim(y, k) for k in range(1, m)) + dd


def valid(d):
    y, m, dd = d
    return 1 <= m <= 12 and 1 <= dd <= dim(y, m)


def from_dn(n):
    y = n // 366 - 1
    while dby(y + 1) < n:
        y += 1
    r = n - dby(y)
    m = 1
    while r > dim(y, m):
        r -= dim(y, m)
        m += 1
    return (y, m, r)


def pdate(s):
    y, m, d = s.rsplit("-", 2) if not s.startswith("-") else (None, None, None)
    return (int(y), int(m), int(d))


def next_start_spec(d, unit, n):
    """The documented successor of a step start (C07)."""
    y = d[0]
    if unit == "month":
        yy, mm = d[0], d[1]
        for _ in range(n):
            mm += 1
            if mm > 12:
                yy, mm = yy + 1, 1
        return (yy, mm, 1)
    if unit == "week":
        cur = d
        for _ in range(n):
            cur = next_start_spec(cur, "day7", 7)
        return cur
    # n days (or one week = 7 days): merged when it would start in the last
    # n days of the year (n+1 in leap years) or beyond the year's end
    yend = dn((y, 12, 31))
    s = dn(d) + n
    tail = n + (1 if is_leap(y) else 0)
    if s > yend - tail:
        return (y + 1, 1, 1)
    return from_dn(s)


# ---- generators ----
def boundary_dates(rng, years):
    out = []
    for y in years:
        for m, d in [(1, 1), (1, 31), (2, 27), (2, 28), (3, 1), (11, 2), (11, 3), (11, 15), (11, 29), (11, 30),
                     (12, 1), (12, 2), (12, 3), (12, 4), (12, 17), (12, 18), (12, 23), (12, 24), (12, 25), (12, 30), (12, 31),
                     (10, 31), (6, 30), (7, 31), (8, 31)]:
            out.append((y, m, d))
        if is_leap(y):
            out.append((y, 2, 29))
    return out


def rand_date(rng, ylo=1890, yhi=2110):
    y = rng.choice([rng.randint(ylo, yhi), rng.choice([1900, 2000, 2100, 2020, 2019, 2021, 2023, 2024])])
    m = rng.randint(1, 12)
    d = rng.randint(1, dim(y, m))
    return (y, m, d)


def gen_S(rng, n_random, exhaustive=False):
    cases = []
    if exhaustive:
        lo, hi = dn((2000, 1, 1)), dn((2399, 12, 31))
        for x in range(lo, hi + 1):
            d = from_dn(x)
            for op in ("add", "sub", "week", "month"):
                cases.append("S %s %d %d %d" % ((op,) + d))
            for n in range(1, 29):
                cases.append("S days %d %d %d %d" % (d + (n,)))
        return cases
    dates = boundary_dates(rng, [1900, 2000, 2019, 2020, 2021, 2100, 2400, rng.randint(1700, 2300)])
    dates += [rand_date(rng) for _ in range(n_random)]
    for d in dates:
        for op in ("add", "sub", "week", "month"):
            cases.append("S %s %d %d %d" % ((op,) + d))
        ns = set([1, 7, 14, 16, 23, 28, rng.randint(1, 28), rng.randint(1, 28)])
        if d[1] >= 11 or d[1] == 2:
            ns = set(range(1, 29))
        for n in sorted(ns):
            cases.append("S days %d %d %d %d" % (d + (n,)))
    return cases


def gen_C(rng, n):
    cases = []
    for _ in range(n):
        a = rand_date(rng, 2018, 2022)
        b = rng.choice([a, rand_date(rng, 2018, 2022), (a[0], a[1], rng.randint(1, dim(a[0], a[1]))),
                        (a[0], rng.randint(1, 12), a[2] if a[2] <= 28 else 28)])
        cases.append("C %d %d %d %d %d %d" % (a + b))
    return cases


def gen_K_one(rng, malformed=False):
    unit = rng.choice(["day", "day", "week", "week", "month"])
    if unit == "day":
        n = rng.choice([1, 7, 14, 16, 20, 23, 27, 28, rng.randint(1, 28)])
    elif unit == "week":
        n = rng.choice([1, 1, 2, 3, 4, rng.randint(1, 12), rng.choice([26, 40, 49, 51])])
    else:
        n = rng.choice([1, 1, 2, 3, 4, 5, 6, 7, 11])
    start = rand_date(rng)
    if rng.random() < 0.4:
        start = (start[0], rng.choice([1, 11, 12]), rng.choice([1, 2, 3, 4, 15, 18, 29, 30]))
    if unit == "month" and not (malformed and rng.random() < 0.3):
        start = (start[0], start[1], 1)
    if unit == "day" and n > 7:
        span = rng.randint(40, 900)
    elif unit == "day":
        span = rng.randint(3, 420)
    elif unit == "week":
        span = rng.randint(7 * n, 7 * n * rng.randint(2, 40) + 1200 * (n > 20))
    else:
        span = rng.randint(31 * n, 31 * n * rng.randint(2, 30))
    end = from_dn(dn(start) + span)
    if malformed:
        k = rng.randint(0, 3)
        if k == 0:
            end = rng.choice([start, from_dn(dn(start) - rng.randint(1, 400))])
        elif k == 1:
            n = 0
        elif k == 2:
            end = from_dn(dn(start) + rng.randint(1, 3))
            if unit == "day":
                n = rng.randint(5, 28)
    am, ad = rng.randint(1, 12), rng.randint(1, 28)
    if rng.random() < 0.3:
        am, ad = rng.choice([(1, 1), (1, 3), (12, 28), (12, 24), (1, 7), (2, 28)])
    ss = rng.randint(1, 12)
    se = rng.randint(ss, 12)
    fn = rng.choice([0, 1, 2, 3, 5, 7, rng.randint(1, 12)])
    ws = rng.choice([1, 2, 3, 5, 12, 52, rng.randint(1, 400)])
    if malformed and rng.random() < 0.2:
        ws = 0
    lookups = []
    lo, hi = min(dn(start), dn(end)), max(dn(start), dn(end))
    for _ in range(rng.randint(2, 6)):
        x = rng.choice([lo, lo - 1, hi, hi + 1, hi + 2, hi + 40, rng.randint(lo - 5, hi + 45), rng.randint(lo, hi)])
        lookups.append(from_dn(x))
    flat = " ".join("%d %d %d" % d for d in lookups)
    return "K %d %d %d %d %d %d %s %d %d %d %d %d %d %d %d %s" % (
        start + end + (unit, n, am, ad, ss, se, fn, ws, len(lookups), flat))


CORPUS_K = [
    # minimised past failures (run first on every check)
    # 2021-11-30 + 28 days used to give a 4-day tail step (fixed: 35e920a)
    "K 2021 11 2 2022 3 1 day 28 1 3 1 12 1 3 2 2021 12 28 2021 12 31",
    "K 2020 11 2 2021 3 1 day 27 1 3 1 12 1 3 1 2020 12 30",
    # 2-week steps from 2019-12-04: step 2019-12-18..2020-01-07 straddles the year
    "K 2019 12 4 2020 3 1 week 2 1 3 1 12 2 5 2 2020 1 3 2019 12 31",
    "K 2019 11 1 2021 3 1 month 3 1 15 3 9 2 4 1 2020 1 15",
]


def gen_G_one(rng):
    k = gen_K_one(rng).split()
    head = k[1:9]
    ss, se = k[11], k[12]
    f = lambda: rng.choice(FREQS[:13] + ["year", "month", "every_n_steps", "final_step", "-"])
    b = lambda: rng.choice("01")
    parts = head + [ss, se, f(), str(rng.randint(0, 5)), b(), f(), str(rng.randint(0, 5)), b(), str(rng.randint(1, 12)),
                    b(), str(rng.randint(1, 12)), str(rng.randint(1, 28)), b(), f(), str(rng.randint(0, 5)),
                    b(), f(), str(rng.randint(0, 5)), str(rng.choice([0, 1, 2, 7, 52]))]
    return "G " + " ".join(parts)


def generate(tier, seed, path):
    rng = random.Random(seed * 7919 + 17)
    thorough = tier == "thorough"
    cases = list(CORPUS_K)
    cdir = os.path.join(vc.VERIF, "corpus", "calendar")
    if os.path.isdir(cdir):
        for f in sorted(os.listdir(cdir)):
            cases += vc.read_cases(os.path.join(cdir, f))
    cases += gen_S(rng, 600 if thorough else 120, exhaustive=thorough)
    cases += gen_C(rng, 3000 if thorough else 400)
    nK = 6000 if thorough else 500
    for i in range(nK):
        cases.append(gen_K_one(rng, malformed=(i % 7 == 6)))
    for i in range(3000 if thorough else 300):
        cases.append(gen_G_one(rng))
    with open(path, "w") as f:
        f.write("\n".join(cases) + "\n")
    return cases


# ---- parsing implementation output ----
def group_output(path):
    out = {}
    with open(path, errors="replace") as f:
        for line in f:
            line = line.rstrip("\n")
            if not line:
                continue
            k, rest = line.split(" ", 1)
            out.setdefault(int(k), []).append(rest)
    return out


def parse_steps(s):
    steps = []
    for tok in s.split():
        a, b = tok.split(":")
        steps.append((pdate(a), pdate(b)))
    return steps


def expected_ctor_error(start, end, unit, n):
    """Documented rejections of the Scheduler constructor."""
    if dn(start) >= dn(end):
        return True
    if n <= 0:
        return True
    if dn(next_start_spec(start, unit, n)) > dn(end):
        return True
    if unit == "month" and start[2] != 1:
        return True
    return False


# ---- monitors ----
def monitor_C07(cases, out, ctx):
    stats = {"S": 0, "C": 0, "K": 0, "K_rejected": 0, "steps": 0, "lookups": 0, "merged_tail_steps": 0}
    for k, line in enumerate(cases):
        t = line.split()
        lines = out.get(k, [])
        if t[0] == "S":
            stats["S"] += 1
            op = t[1]
            d = (int(t[2]), int(t[3]), int(t[4]))
            got = pdate(lines[0].split()[1]) if lines else None
            if op == "add":
                exp = from_dn(dn(d) + 1)
            elif op == "sub":
                exp = from_dn(dn(d) - 1)
            elif op == "days":
                exp = next_start_spec(d, "day", int(t[5]))
            elif op == "week":
                exp = next_start_spec(d, "week", 1)
            elif op == "month":
                if d[2] != 1:
                    # only first-of-month starts are in the domain; others: stays valid and in next month
                    y, m = (d[0], d[1] + 1) if d[1] < 12 else (d[0] + 1, 1)
                    exp = (y, m, min(d[2], dim(y, m)))
                else:
                    exp = next_start_spec(d, "month", 1)
            if got != exp:
                ctx.violation("C07.successor.%s" % op, "successor %s of %s is %s, documented %s" % (op, d, got, exp), line,
                              "impl: %s" % lines)
        elif t[0] == "C":
            stats["C"] += 1
            a = (int(t[1]), int(t[2]), int(t[3]))
            b = (int(t[4]), int(t[5]), int(t[6]))
            x, y = dn(a), dn(b)
            exp = "".join("1" if v else "0" for v in (x > y, x < y, x >= y, x <= y, x == y))
            got = lines[0].split()[1] if lines else None
            if got != exp:
                ctx.violation("C07.compare", "comparison of %s and %s gives %s, expected %s" % (a, b, got, exp), line)
        elif t[0] == "K":
            stats["K"] += 1
            start = (int(t[1]), int(t[2]), int(t[3]))
            end = (int(t[4]), int(t[5]), int(t[6]))
            unit, n = t[7], int(t[8])
            rej = expected_ctor_error(start, end, unit, n)
            first = lines[0] if lines else ""
            if rej:
                stats["K_rejected"] += 1
                if first != "err invalid_argument":
                    ctx.violation("C07.constructor.reject", "scheduler for start=%s end=%s %d %s must be rejected with invalid_argument, got: %s"
                                  % (start, end, n, unit, first[:80]), line)
                continue
            if not first.startswith("steps "):
                ctx.violation("C07.constructor.accept", "valid scheduler rejected: %s" % first, line)
                continue
            steps = parse_steps(first[6:])
            stats["steps"] += len(steps)
            bad = check_tiling(steps, start, end, unit, n, stats)
            if bad:
                ctx.violation("C07.tiling." + bad[0], bad[1], line, "steps: " + first[6:200])
            nl = int(t[15])
            for j in range(nl):
                d = (int(t[16 + 3 * j]), int(t[17 + 3 * j]), int(t[18 + 3 * j]))
                stats["lookups"] += 1
                lk = [l for l in lines if l.startswith("lookup %d-%d-%d " % d)]
                got = lk[0].split()[2] if lk else None
                owners = [i for i, (a, b) in enumerate(steps) if dn(a) <= dn(d) <= dn(b)]
                exp = str(owners[0]) if owners else "err:invalid_argument"
                if len(owners) > 1 or got != exp:
                    ctx.violation("C07.lookup", "lookup of %s returns %s, steps containing it: %s" % (d, got, owners), line)
    return stats


def check_tiling(steps, start, end, unit, n, stats):
    if not steps:
        return ("empty", "no steps generated")
    if steps[0][0] != start:
        return ("first", "first step starts at %s, not at the start date %s" % (steps[0][0], start))
    for i, (a, b) in enumerate(steps):
        if not valid(a) or not valid(b):
            return ("valid", "step %d has an invalid date %s..%s" % (i, a, b))
        if dn(a) > dn(b):
            return ("order", "step %d ends before it starts %s..%s" % (i, a, b))
        if dn(a) > dn(end):
            return ("beyond", "step %d starts after the end date" % i)
        if i + 1 < len(steps) and dn(steps[i + 1][0]) != dn(b) + 1:
            return ("gap", "step %d ends %s but step %d starts %s" % (i, b, i + 1, steps[i + 1][0]))
        nxt = from_dn(dn(b) + 1)
        if nxt != next_start_spec(a, unit, n):
            return ("length", "step %d is %s..%s; the documented next start after %s (%d %s) is %s"
                    % (i, a, b, a, n, unit, next_start_spec(a, unit, n)))
    if dn(steps[-1][1]) + 1 <= dn(end):
        return ("stop", "steps stop at %s although %s is not after the end date %s"
                % (steps[-1][1], from_dn(dn(steps[-1][1]) + 1), end))
    if unit == "day" or (unit == "week" and n == 1):
        ln = n if unit == "day" else 7
        jan_firsts = set()
        for i, (a, b) in enumerate(steps):
            if a[0] != b[0]:
                return ("within_year", "step %d %s..%s is not within one calendar year" % (i, a, b))
            length = dn(b) - dn(a) + 1
            if length != ln:
                # merged tail: ends 31 December and absorbed a step that would begin in the last ln(+1) days
                tail = ln + (1 if is_leap(a[0]) else 0)
                first_in_tail = i == 0 and dn(a) > dn((a[0], 12, 31)) - tail
                # the first step may itself begin inside the tail (it has no predecessor
                # to be merged into): it then simply runs to 31 December
                lo_ok = length >= 1 if first_in_tail else ln < length
                if not (b[1] == 12 and b[2] == 31 and lo_ok and length <= 2 * ln + (1 if is_leap(a[0]) else 0)):
                    return ("n_days", "step %d %s..%s is %d days long, not %d, and is not a merged year-end step" % (i, a, b, length, ln))
                stats["merged_tail_steps"] += 1
            if a[1] == 1 and a[2] == 1:
                jan_firsts.add(a[0])
        for y in range(start[0] + 1, steps[-1][1][0] + 1):
            if y not in jan_firsts:
                return ("jan1", "year %d is covered but no step starts on 1 January" % y)
    return None


def contains_date(a, b, y, m, d):
    return valid((y, m, d)) and dn(a) <= dn((y, m, d)) <= dn(b)


def month_ends_in(a, b):
    y, m = a[0], a[1]
    while (y, m) <= (b[0], b[1]):
        last = (y, m, dim(y, m))
        if dn(a) <= dn(last) <= dn(b):
            return True
        m += 1
        if m > 12:
            y, m = y + 1, 1
    return False


def expected_fs(freq, fn, unit, n, steps):
    """Documented meaning of each frequency name (None = rejected)."""
    N = len(steps)
    nsteps = lambda k: [((i + 1) % k == 0) for i in range(N)]
    eoy = [any(contains_date(a, b, y, 12, 31) for y in range(a[0], b[0] + 1)) for a, b in steps]
    monthly = [month_ends_in(a, b) for a, b in steps]
    if freq == "-":
        return [False] * N
    if freq == "final_step":
        return [i == N - 1 for i in range(N)]
    if freq in ("year", "yearly"):
        return eoy
    if freq in ("month", "monthly"):
        return monthly
    if freq in ("week", "weekly"):
        if unit == "day" and n == 1:
            return nsteps(7)
        if (unit == "day" and n == 7) or (unit == "week" and n == 1):
            return nsteps(1)
        return None
    if freq in ("day", "daily"):
        return nsteps(1) if unit == "day" and n == 1 else None
    if freq == "every_n_steps":
        return nsteps(fn) if fn > 0 else None
    if freq in ("every_step", "time_step"):
        return nsteps(1)
    return None


def tobits(v):
    return "".join("1" if b else "0" for b in v)


def monitor_C08(cases, out, ctx):
    stats = {"K": 0, "G": 0, "schedule_vectors": 0, "straddling_steps": 0, "firings": 0, "rejected_freq": 0}
    for k, line in enumerate(cases):
        t = line.split()
        lines = out.get(k, [])
        if t[0] == "K":
            first = lines[0] if lines else ""
            if not first.startswith("steps "):
                continue
            stats["K"] += 1
            steps = parse_steps(first[6:])
            unit, n = t[7], int(t[8])
            am, ad, ss, se, fn, ws = (int(x) for x in t[9:15])
            N = len(steps)
            stats["straddling_steps"] += sum(1 for a, b in steps if a[0] != b[0])
            got = {}
            for l in lines:
                p = l.split(" ", 1)
                if p[0] == "fs":
                    q = p[1].split(" ")
                    got["fs " + q[0]] = q[1] if len(q) > 1 else ""
                else:
                    got[p[0]] = p[1] if len(p) > 1 else ""
            exp = {}
            exp["yearly"] = tobits(any(contains_date(a, b, y, am, ad) for y in range(a[0], b[0] + 1)) for a, b in steps)
            exp["eoy"] = tobits(expected_fs("year", fn, unit, n, steps))
            exp["monthly"] = tobits(expected_fs("month", fn, unit, n, steps))
            exp["final"] = tobits(i == N - 1 for i in range(N))
            exp["spread"] = tobits((ss <= a[1] <= se) or (ss <= b[1] <= se) for a, b in steps)
            if fn >= 1:
                exp["nsteps"] = tobits((i + 1) % fn == 0 for i in range(N))
            for f in FREQS:
                e = expected_fs(f, fn, unit, n, steps)
                exp["fs " + f] = "err:invalid_argument" if e is None else tobits(e)
                if e is None:
                    stats["rejected_freq"] += 1
            exp["weather"] = ",".join(str(i % ws) for i in range(N)) if ws >= 1 else "err:invalid_argument"
            for key, e in exp.items():
                stats["schedule_vectors"] += 1
                g = got.get(key)
                if g != e:
                    bad = [i for i in range(min(len(g or ""), len(e))) if (g or "")[i] != e[i]][:1]
                    where = ""
                    if bad and not e.startswith("err"):
                        where = " (step %d = %s..%s)" % (bad[0], steps[bad[0]][0], steps[bad[0]][1]) if bad[0] < N else ""
                    ctx.violation("C08.schedule.%s" % key.replace(" ", "_"),
                                  "schedule '%s' is %s, documented %s%s" % (key, (g or "")[:60], e[:60], where), line)
            # a yearly action: at most one firing per covered year
            yv = got.get("yearly", "")
            stats["firings"] += yv.count("1")
            # action indices: the k-th firing step maps to k-1; count = firings
            for tag in ("yearly", "spread"):
                g = got.get("aidx_" + tag)
                if g is None:
                    continue
                sched = got.get(tag, "")
                idxs, rest = g.split(" ; count ")
                cnt, beyond = rest.split(" ; beyond ")
                idxs = idxs.split(",") if idxs else []
                kk = 0
                for i, bch in enumerate(sched):
                    if bch == "1":
                        if idxs[i] != str(kk):
                            ctx.violation("C08.action_index", "firing number %d of schedule %s (step %d) maps to index %s" % (kk + 1, sched, i, idxs[i]), line)
                            break
                        kk += 1
                if int(cnt) != sched.count("1"):
                    ctx.violation("C08.action_count", "number of scheduled actions %s for %s" % (cnt, sched), line)
                if beyond != "err:out_of_range":
                    ctx.violation("C08.action_index.range", "step index beyond the schedule gives %s" % beyond, line)
        elif t[0] == "G":
            stats["G"] += 1
            monitor_G(t, lines, ctx, line)
    return stats


def monitor_G(t, lines, ctx, line):
    start = (int(t[1]), int(t[2]), int(t[3]))
    end = (int(t[4]), int(t[5]), int(t[6]))
    unit, n = t[7], int(t[8])
    first = lines[0] if lines else ""
    if expected_ctor_error(start, end, unit, n):
        if first != "cfg err invalid_argument":
            ctx.violation("C08.config.reject", "invalid calendar accepted by create_schedules: %s" % first[:60], line)
        return
    # reconstruct the steps from the specification
    steps = []
    cur = start
    while dn(cur) <= dn(end):
        nx = next_start_spec(cur, unit, n)
        steps.append((cur, from_dn(dn(nx) - 1)))
        cur = nx
    ss, se = int(t[9]), int(t[10])
    N = len(steps)
    fld = {}

    def fs(use, f, fn):
        if not use:
            return ""
        e = expected_fs(f, fn, unit, n, steps)
        return None if e is None else tobits(e)
    exp = {}
    exp["spread"] = tobits((ss <= a[1] <= se) or (ss <= b[1] <= se) for a, b in steps)
    exp["output"] = fs(True, t[11], int(t[12]))
    exp["mortality"] = fs(t[13] == "1", t[14], int(t[15]))
    lm = int(t[17])
    exp["lethal"] = tobits(any(contains_date(a, b, y, lm, 1) for y in range(a[0], b[0] + 1)) for a, b in steps) if t[16] == "1" else ""
    sm, sd = int(t[19]), int(t[20])
    exp["survival"] = tobits(any(contains_date(a, b, y, sm, sd) for y in range(a[0], b[0] + 1)) for a, b in steps) if t[18] == "1" else ""
    exp["spread_rate"] = fs(t[21] == "1", t[22], int(t[23]))
    exp["quarantine"] = fs(t[24] == "1", t[25], int(t[26]))
    ws = int(t[27])
    exp["weather"] = ",".join(str(i % ws) for i in range(N)) if ws else ""
    if any(v is None for v in exp.values()):
        if first != "cfg err invalid_argument":
            ctx.violation("C08.config.incompatible", "incompatible frequency accepted: %s" % first[:80], line)
        return
    if not first.startswith("cfg ") or first.startswith("cfg err"):
        ctx.violation("C08.config.accept", "valid configuration rejected: %s" % first[:80], line)
        return
    for kv in first[4:].split(" "):
        key, _, val = kv.partition("=")
        fld[key] = val
    for key, e in exp.items():
        if fld.get(key) != e:
            ctx.violation("C08.config.%s" % key, "Config %s schedule is %s, documented %s" % (key, fld.get(key, "")[:60], e[:60]), line)


def relevant_C07(l):
    tag = l.split(" ", 2)[1]
    return tag in ("succ", "cmp", "err", "steps", "num_steps", "get_step", "lookup")


def relevant_C08(l):
    tag = l.split(" ", 2)[1]
    return tag not in ("succ", "cmp", "lookup", "get_step")


def run_engine(ctx, cases_path):
    """Runs implementation and model on the case file; returns their output paths."""
    h, err = vc.build_harness("calendar", sanitize=(ctx.tier == "thorough"))
    if err:
        ctx.broke("harness calendar.cpp builds against /repo", err)
        return None, None
    m, err = vc.build_model("calendar")
    if err:
        ctx.broke("model extraction/driver build", err)
        return None, None
    impl = os.path.join(ctx.work, "impl.out")
    model = os.path.join(ctx.work, "model.out")
    rc, e = vc.run_to_file([h, cases_path], impl)
    if rc != 0:
        ctx.broke("implementation harness run (exit %d)" % rc, e)
    rc, e = vc.run_to_file([m, cases_path], model)
    if rc != 0:
        ctx.broke("model driver run (exit %d)" % rc, e)
    return impl, model


def check(ctx, replay=None):
    pid = ctx.pid
    ctx.proof = vc.prove(pid)
    if not ctx.proof.ok:
        ctx.broke("proof obligations of Properties_%s.v%s" % (pid, (" (" + ctx.proof.failed_theorem + ")") if ctx.proof.failed_theorem else ""),
                  "\n".join(ctx.proof.problems) + "\n" + ctx.proof.log[-1500:])
    cases_path = os.path.join(ctx.work, "cases.txt")
    if replay:
        cases = vc.read_cases(replay)
        with open(cases_path, "w") as f:
            f.write("\n".join(cases) + "\n")
    else:
        cases = generate(ctx.tier, ctx.seed, cases_path)
    impl, model = run_engine(ctx, cases_path)
    if impl is None:
        return
    out = group_output(impl)
    stats = (monitor_C07 if pid == "C07" else monitor_C08)(cases, out, ctx)
    rel = relevant_C07 if pid == "C07" else relevant_C08
    ncmp, diffs = vc.diff_outputs(impl, model, rel)
    if diffs:
        k, a, b = diffs[0]
        ctx.broke("correspondence calendar model vs implementation (%d differing cases)" % len(diffs),
                  "first differing case #%s: %s\nimpl : %s\nmodel: %s" % (k, cases[int(k)] if k.isdigit() and int(k) < len(cases) else "?", a, b))
    kinds = {}
    for c in cases:
        kinds[c.split()[0]] = kinds.get(c.split()[0], 0) + 1
    relevant_cases = [c for c in cases if (pid == "C07" and c[0] in "SCK") or (pid == "C08" and c[0] in "KG")]
    ctx.coverage.update({
        "evaluations": len(relevant_cases),
        "distinct_nontrivial": len(set(c for c in relevant_cases if c[0] in "KG" or c.startswith("S days") or c.startswith("S week"))),
        "rule": "cases are generated from VERIF_SEED: S = one successor call (non-trivial: day/week successors, which have the merge rule), "
                "C = comparison, K = whole scheduler with schedules and lookups (always non-trivial), G = Config::create_schedules; "
                "distinct = distinct case lines; thorough tier enumerates every start date of 2000-01-01..2399-12-31 for S",
        "samples": [cases[0], cases[len(cases) // 2], cases[-1]],
        "exhaustive": False,
        "case_kinds": kinds,
        "monitor_stats": stats,
        "lines_compared_model_vs_impl": ncmp,
        "traces_validated_against_impl": ncmp,
        "correspondence_diffs": len(diffs),
        "exhaustive_successor_sweep": ctx.tier == "thorough",
    })
    ctx.assumptions += [
        "int overflow of year arithmetic is outside the model (years are unbounded Z)",
        "Date(std::string) parsing is not modelled",
    ]
