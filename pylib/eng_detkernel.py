"""Deterministic-kernel engine: C14 (dispersers are allotted in proportion to the
kernel density).

Case kinds of the first pass (harness/detkernel.cpp; the model driver
ocaml/drv_detkernel.ml reads a file derived from it after the implementation
ran):
  A rows cols den w.. nb (row col n len)*     dyadic window written over the kernel's
  W kernel scale shape pct ew ns nb (..)*      a real kernel
  Q kernel scale shape u..                     icdf values
  P kernel scale shape x..                     pdf values
A batch (row col n len) sets dispersers(row, col) = n and calls the kernel `len`
times; len = n is what SpreadAction::disperse does for one source cell.
A second pass asks the implementation for pdf values at the quadrature nodes
and window distances the monitor needs.

The monitor below states the property in Python on the implementation's output
only: counts against n * p, equal-weight cells, fresh start, window extent
against the numerically integrated pdf of the same class, distance scaling.  It
does not use the Coq model; the translated formulas (translate/kernels.py) are
used only for the correspondence part and are themselves validated numerically
against the compiled C++ on every run.
"""
import importlib.util
import math
import os
import random
from fractions import Fraction

import vcommon as vc

PROPERTIES = ["C14"]

_spec = importlib.util.spec_from_file_location("kernels_translate", os.path.join(vc.VERIF, "translate", "kernels.py"))
KT = importlib.util.module_from_spec(_spec)
_spec.loader.exec_module(KT)

KERNEL_NAMES = [k for k, _, _ in KT.KERNELS]
TWO_SIDED = {"cauchy", "normal", "logistic", "hyperbolic_secant", "exponential_power"}
CLOSED_FORM = {"cauchy", "exponential", "weibull", "logistic", "hyperbolic_secant", "power_law"}
# |cdf(icdf(u)) - u| allowed: exact closed forms / Winitzki's approximation of
# the inverse error function / Newton iteration that stops at 0.001
TOL = {k: 1e-6 for k in CLOSED_FORM}
TOL.update({"normal": 1e-3, "lognormal": 1e-3, "gamma": 2.5e-3, "exponential_power": 2.5e-3})
MAX_MODEL_CELLS = 169

# which member variable of each class receives (scale, shape) from the
# constructor of DeterministicDispersalKernel (for evaluating the translated
# formulas in the correspondence part; the implementation side never uses this)
MEMBERS = {
    "cauchy": lambda sc, sh: {"s": sc},
    "exponential": lambda sc, sh: {"beta": sc},
    "weibull": lambda sc, sh: {"a": sh, "b": sc},
    "normal": lambda sc, sh: {"sigma": sc},
    "lognormal": lambda sc, sh: {"sigma": sc},
    "logistic": lambda sc, sh: {"s": sc},
    "hyperbolic_secant": lambda sc, sh: {"sigma": sc},
    "gamma": lambda sc, sh: {"alpha": sc, "theta": sh},
    "exponential_power": lambda sc, sh: {"alpha": sc, "beta": sh},
    "power_law": lambda sc, sh: {"alpha": sc, "xmin": sh},
}


def quantile_key(kern, scale, shape, where):
    """Stable key of a quantile clause.  Two parameter regions in which the
    iterative quantiles are wrong for a known reason get their own key."""
    if kern == "gamma" and scale != int(scale):
        return "C14.quantile.gamma.noninteger_alpha." + where
    if kern == "exponential_power" and (scale != 1 or 1.0 / shape != int(1.0 / shape)):
        return "C14.quantile.exponential_power.general." + where
    return "C14.quantile.%s.%s" % (kern, where)


def fnum(x):
    """A double as text that std::stod reads back exactly."""
    if isinstance(x, int):
        return str(x)
    if x == int(x) and abs(x) < 1e15:
        return str(int(x))
    return repr(float(x))


def parse_hex(tok):
    if tok in ("nan", "-nan") or tok.startswith("err"):
        return float("nan")
    if tok == "inf":
        return float("inf")
    if tok == "-inf":
        return float("-inf")
    return float.fromhex(tok)


def qstr(x):
    """Exact rational of a double (or Fraction) as hexnum/hexden for the model driver."""
    fr = Fraction(x)
    return ("-" if fr < 0 else "") + "%x/%x" % (abs(fr.numerator), fr.denominator)


def parse_q(tok):
    a, b = tok.split("/")
    neg = a.startswith("-")
    if neg:
        a = a[1:]
    v = Fraction(int(a, 16), int(b, 16))
    return -v if neg else v


# --------------------------------------------------------------------------
# generators
# --------------------------------------------------------------------------
DISP_SHAPES = [(16, 16), (2, 5), (2, 7), (3, 7), (3, 4), (4, 6), (6, 4), (7, 2), (5, 2), (1, 9), (9, 1), (2, 2), (1, 2), (2, 1), (3, 3)]


def colliding_partner(rng, prev, R, C):
    """A different cell of the R x C dispersers raster that a wrong notion of 'the same
    cell as before' would confuse with prev: equal under r*R+c (rows used as the stride),
    r+c, r*c, |r-c|, same row, same column, swapped coordinates."""
    keys = [lambda r, c: r * R + c, lambda r, c: r + c, lambda r, c: r * c, lambda r, c: abs(r - c),
            lambda r, c: r, lambda r, c: c, lambda r, c: r * (C - 1) + c, lambda r, c: r * (C + 1) + c]
    rng.shuffle(keys)
    cands = [(prev[1], prev[0])] if prev[1] < R and prev[0] < C and prev[0] != prev[1] and rng.random() < 0.2 else []
    for key in keys:
        if cands:
            break
        kp = key(*prev)
        cands = [(r, c) for r in range(R) for c in range(C) if (r, c) != prev and key(r, c) == kp]
    return rng.choice(cands) if cands else None


def gen_batches(rng, style, nchoices):
    """style: 'distinct' sources, 'repeat' (the same cell again), 'midway' (n changes
    before the batch is complete).  The source cells also fix the shape of the dispersers
    raster (harness: smallest raster containing them), drawn from DISP_SHAPES."""
    nb = rng.randint(1, 5)
    R, C = rng.choice(DISP_SHAPES)
    out = []
    prev = None
    for b in range(nb):
        n = rng.choice(nchoices)
        if style == "repeat" and prev is not None and rng.random() < 0.6:
            cell = prev
        else:
            cell = colliding_partner(rng, prev, R, C) if prev is not None and rng.random() < 0.6 else None
            while cell is None:
                cell = (rng.randint(0, R - 1), rng.randint(0, C - 1))
                if cell == prev:
                    cell = None
        ln = n
        if style == "midway" and rng.random() < 0.5:
            ln = rng.choice([max(1, n // 2), n - 1 if n > 1 else 1, n + 1, n + rng.randint(1, 3)])
        out.append((cell[0], cell[1], n, ln))
        prev = cell
        if style == "midway" and rng.random() < 0.5:
            n2 = rng.choice(nchoices)
            out.append((cell[0], cell[1], n2, rng.choice([n2, max(1, n2 // 2)])))
    # pin the shape: the last source is the bottom-right corner unless it was visited
    if not any(b[0] == R - 1 for b in out) or not any(b[1] == C - 1 for b in out):
        if prev != (R - 1, C - 1):
            out.append((R - 1, C - 1, 1, 1))
    return out


def batches_text(bs):
    return "%d %s" % (len(bs), " ".join("%d %d %d %d" % b for b in bs))


def gen_A_one(rng, style=None):
    rows = rng.choice([1, 1, 2, 3, 3, 4, 5, 5, 6, 7])
    cols = rng.choice([1, 2, 3, 3, 4, 5, 5, 6, 7, 8, 9])
    m = rows * cols
    kind = rng.choice(["ties", "ties", "symmetric", "flat", "spiky", "random"])
    if kind == "flat":
        a = [1] * m
    elif kind == "spiky":
        a = [0] * m
        a[rng.randrange(m)] = rng.randint(1, 8)
        for _ in range(rng.randint(0, 3)):
            a[rng.randrange(m)] += rng.randint(0, 3)
    elif kind == "symmetric":
        a = [0] * m
        vals = [rng.randint(0, 6) for _ in range(4)]
        for i in range(rows):
            for j in range(cols):
                di, dj = abs(i - rows // 2), abs(j - cols // 2)
                a[i * cols + j] = vals[min(3, di + dj)] if rows % 2 and cols % 2 else vals[(di * 2 + dj) % 4]
    elif kind == "ties":
        vals = [rng.randint(0, 5) for _ in range(rng.randint(1, 3))]
        a = [rng.choice(vals) for _ in range(m)]
    else:
        a = [rng.randint(0, 40) for _ in range(m)]
    if sum(a) == 0:
        a[rng.randrange(m)] = 1
    s = sum(a)
    k = max(3, s.bit_length())
    if (1 << k) < s:
        k += 1
    den = 1 << k
    rest = den - s
    # the remainder goes to one cell, or is spread in equal parts to keep ties
    if rest:
        if kind in ("flat", "ties") and rest % m == 0:
            a = [x + rest // m for x in a]
        else:
            a[rng.choice([rng.randrange(m), (rows // 2) * cols + cols // 2])] += rest
    assert sum(a) == den
    style = style or rng.choice(["distinct", "distinct", "repeat", "midway"])
    bs = gen_batches(rng, style, [1, 2, 4, 8, 16, 32, 64])
    return "A %d %d %d %s %s" % (rows, cols, den, " ".join(str(x) for x in a), batches_text(bs))


RESOLUTIONS = [(30, 30), (10, 30), (30, 10), (100, 100), (2.5, 7.5), (1, 1), (20, 5), (0.5, 0.5), (12, 8)]
PERCENTAGES = [0.6, 0.75, 0.9, 0.95, 0.99, 0.5625, 0.875]


def kernel_params(rng, k, for_window):
    """(scale, shape) in the kernel's domain, as the constructor of
    DeterministicDispersalKernel names them.  Dyadic so that text -> double is exact."""
    dy = lambda lo, hi: rng.randint(lo, hi) / 8.0
    if k == "weibull":
        return (dy(2, 400), rng.choice([1, 1, 1.5, 2, 3, 2.5, 4]) if for_window else rng.choice([0.5, 0.75, 1, 1.5, 2, 3, 5]))
    if k == "gamma":
        # scale -> alpha (shape of the distribution), shape -> theta (its scale)
        return (rng.choice([1, 2, 3, 1.5, 2.5, 4]) if for_window else rng.choice([0.5, 1, 1.5, 2, 2.5, 3, 4]),
                rng.choice([0.5, 1, 2, 4, 0.25, 8]))
    if k == "exponential_power":
        return (rng.choice([0.5, 1, 2, 4, 8]), rng.choice([0.5, 1, 2, 1.5, 0.75]))
    if k == "power_law":
        # scale -> alpha, shape -> xmin
        return (rng.choice([1.5, 2, 2.5, 3, 4, 1.25]), rng.choice([0.5, 1, 2, 5, 0.125, 10]))
    if k == "lognormal":
        return (rng.choice([0.125, 0.25, 0.5, 1, 1.5, 2]), 1)
    if k == "normal":
        return (dy(1, 400), 1)
    return (rng.choice([dy(1, 400), 1, 1, 1.5, 30]), 1)


def translated(funcs, k, meth):
    return funcs.get((k, meth)) if funcs else None


def expected_icdf(funcs, k, scale, shape, u):
    f = translated(funcs, k, "icdf")
    if f is None:
        return None
    try:
        return KT.eval_function(f, MEMBERS[k](scale, shape), u)
    except Exception:
        return None


def gen_W_one(rng, funcs, k=None):
    """The translated icdf is used only to steer towards small windows; when it
    gives nothing usable (a mutated header) the last candidate is taken as it is."""
    line = None
    for _ in range(60):
        kk = k or rng.choice(KERNEL_NAMES)
        ew, ns = rng.choice(RESOLUTIONS)
        pct = rng.choice(PERCENTAGES)
        scale, shape = kernel_params(rng, kk, True)
        if kk in ("gamma", "exponential_power"):
            pct = rng.choice([0.6, 0.75, 0.9])
            ew, ns = rng.choice([(30, 30), (10, 30), (30, 10), (5, 5), (2.5, 7.5), (12, 8)])
        style = rng.choice(["distinct", "distinct", "repeat"])
        bs = gen_batches(rng, style, [1, 2, 3, 5, 7, 8, 10, 12, 16, 20, 25, 33, 40])
        bs = bs[:3]
        line = "W %s %s %s %s %s %s %s" % (kk, fnum(scale), fnum(shape), fnum(pct), fnum(ew), fnum(ns), batches_text(bs))
        d = expected_icdf(funcs, kk, scale, shape, pct)
        if d is not None:
            if not (d == d) or d < 0:
                continue
            hc, hr = math.ceil(d / ew), math.ceil(d / ns)
            if (2 * hc + 1) * (2 * hr + 1) > MAX_MODEL_CELLS or hc > 5 or hr > 5:
                continue
            # keep away from the rounding of the division (the model divides exactly)
            if min(abs(d / ew - round(d / ew)), abs(d / ns - round(d / ns))) < 1e-7:
                continue
        return line
    return line


U_GRID = [0.05, 0.1, 0.25, 0.5, 0.75, 0.9, 0.95, 0.99]


def gen_Q_one(rng, k):
    scale, shape = kernel_params(rng, k, False)
    us = list(U_GRID) + [round(rng.uniform(0.01, 0.99), 6)]
    return "Q %s %s %s %s" % (k, fnum(scale), fnum(shape), " ".join(fnum(u) for u in us))


CORPUS = [
    # the same cell again as a source: 1x3 window 1/8 3/4 1/8, 8 dispersers twice
    "A 1 3 8 1 6 1 2 0 0 8 8 0 0 8 8",
    # stale 1/n: one disperser, then four from the same cell
    "A 3 3 16 1 2 1 2 4 2 1 2 1 2 4 4 1 1 4 4 4 4",
    # distinct sources, exact ties everywhere
    "A 3 3 16 1 2 1 2 4 2 1 2 1 3 4 4 16 16 5 5 8 8 4 4 16 16",
    # rectangular cells: ew 10, ns 30 (axis swap shows in the weights)
    "W exponential 20 1 0.9 10 30 2 3 3 4 4 5 5 16 16",
    "W cauchy 8 1 0.75 30 10 1 4 4 10 10",
    # Weibull shape 3, scale 2: icdf(0.5)
    "Q weibull 2 3 0.5 0.25 0.9",
    "W weibull 25 3 0.9 10 10 1 5 5 12 12",
    "Q power_law 2 1 0.5 0.9",
    # densities that are infinite at distance 0: Weibull shape < 1, gamma alpha < 1
    "W weibull 20 0.5 0.75 30 30 1 5 5 8 8",
    "W gamma 0.5 4 0.6 10 30 1 5 5 8 8",
    # gamma with integer and non-integer alpha; exponential power with alpha = 1 and alpha = 2
    "Q gamma 2 0.5 0.1 0.5 0.9",
    "Q gamma 1.5 0.5 0.1 0.5 0.9",
    "Q exponential_power 1 1 0.6 0.9",
    "Q exponential_power 2 1 0.6 0.9",
]


def validation_lines(rng, funcs):
    """P/Q lines whose values the translated formulas must reproduce (about 200
    points per function)."""
    lines = []
    for k in KERNEL_NAMES:
        for meth in ("pdf", "icdf"):
            if translated(funcs, k, meth) is None:
                continue
            for _ in range(5):
                scale, shape = kernel_params(rng, k, False)
                if meth == "pdf":
                    base = max(scale if k not in ("gamma", "power_law") else shape, 0.125)
                    xs = [0.0] + [base * rng.choice([0.01, 0.1, 0.5, 1, 2, 5]) * rng.uniform(0.2, 2.0) for _ in range(39)]
                else:
                    xs = [rng.uniform(0.001, 0.999) for _ in range(36)] + [0.5, 0.25, 0.75, 0.999]
                lines.append("%s %s %s %s %s" % ("P" if meth == "pdf" else "Q", k, fnum(scale), fnum(shape),
                                                 " ".join(x.hex() for x in xs)))
    return lines


def generate(tier, seed, funcs):
    rng = random.Random(seed * 104729 + 14)
    thorough = tier == "thorough"
    cases = list(CORPUS)
    cdir = os.path.join(vc.VERIF, "corpus", "detkernel")
    if os.path.isdir(cdir):
        for f in sorted(os.listdir(cdir)):
            cases += vc.read_cases(os.path.join(cdir, f))
    for i in range(4000 if thorough else 400):
        cases.append(gen_A_one(rng))
    for k in KERNEL_NAMES:
        for i in range(40 if thorough else 6):
            cases.append(gen_W_one(rng, funcs, k))
    for i in range(200 if thorough else 20):
        cases.append(gen_W_one(rng, funcs))
    for k in KERNEL_NAMES:
        for i in range(60 if thorough else 10):
            cases.append(gen_Q_one(rng, k))
    nval = len(cases)
    cases += validation_lines(rng, funcs)
    return cases, nval


# --------------------------------------------------------------------------
# quadrature (Gauss-Legendre, 8 points)
# --------------------------------------------------------------------------
GL8 = [(-0.9602898564975363, 0.1012285362903763), (-0.7966664774136267, 0.2223810344533745),
       (-0.5255324099163290, 0.3137066458778873), (-0.1834346424956498, 0.3626837833783620),
       (0.1834346424956498, 0.3626837833783620), (0.5255324099163290, 0.3137066458778873),
       (0.7966664774136267, 0.2223810344533745), (0.9602898564975363, 0.1012285362903763)]


def gl_panel(a, b):
    h, c = (b - a) / 2.0, (a + b) / 2.0
    return [(c + h * x, h * w) for x, w in GL8]


def nodes_interval(a, b, panels=16):
    out = []
    for i in range(panels):
        out += gl_panel(a + (b - a) * i / panels, a + (b - a) * (i + 1) / panels)
    return out


def length_scale(kernel, scale, shape):
    """A length over which the density of the class varies (panel width of the quadrature)."""
    if kernel in ("power_law", "gamma"):
        return abs(shape) or 1.0
    if kernel == "lognormal":
        return min(1.0, abs(scale)) or 1.0
    return abs(scale) or 1.0


def nodes_resolved(a, b, ls):
    return nodes_interval(a, b, int(min(800, max(16, math.ceil((b - a) / (0.25 * ls))))))


def nodes_minus_infinity(A):
    """Nodes for the integral over (-inf, A], A < 0: x = A - L t / (1 - t)."""
    L = abs(A)
    ts = []
    for i in range(8):
        ts += gl_panel(0.5 * i / 8, 0.5 * (i + 1) / 8)
    for kk in range(1, 49):
        ts += gl_panel(1 - 2.0 ** (-kk), 1 - 2.0 ** (-kk - 1))
    return [(A - L * t / (1 - t), w * L / (1 - t) ** 2) for t, w in ts]


def nodes_from_zero(q1, ls):
    """Nodes for the integral over [0, q1] of a density that may be singular at 0: x = c t^4 near 0."""
    if q1 <= 0:
        return []
    c = min(q1, ls)
    ts = nodes_interval(0.0, 1.0, 48)
    out = [(c * t ** 4, w * 4 * c * t ** 3) for t, w in ts]
    if q1 > c:
        out += nodes_resolved(c, q1, ls)
    return out


# the class's pdf is meant for distances: it is not defined (or not symmetric)
# for negative arguments, so its cdf is 1/2 + sign(q) * integral over [0, |q|]
HALF_LINE_SYMMETRIC = {"exponential_power"}


class CdfRequest:
    """Numerical cdf of the implementation's pdf at the given points (the pdf is
    integrated from the lower end of the support: -infinity for the kernels that
    are symmetric about 0, else 0)."""

    def __init__(self, kernel, scale, shape, points):
        self.kernel, self.scale, self.shape = kernel, scale, shape
        self.fold = kernel in HALF_LINE_SYMMETRIC
        self.orig = [p for p in points if p == p and abs(p) != float("inf")]
        pts = [abs(p) for p in self.orig] if self.fold else self.orig
        self.points = sorted(set(pts))
        self.segments = []
        ls = length_scale(kernel, scale, shape)
        if self.points:
            p0 = self.points[0]
            if kernel in TWO_SIDED and not self.fold:
                A = min(p0, 0.0) - 8 * ls
                self.segments.append(nodes_minus_infinity(A) + nodes_resolved(A, p0, ls))
            else:
                self.segments.append(nodes_from_zero(p0, ls))
            for a, b in zip(self.points, self.points[1:]):
                self.segments.append(nodes_resolved(a, b, ls))
        self.values = None

    def xs(self):
        return [x for seg in self.segments for x, _ in seg]

    def feed(self, vals):
        out = {}
        acc = 0.0
        i = 0
        for p, seg in zip(self.points, self.segments):
            s = 0.0
            for (_, w) in seg:
                v = vals[i]
                i += 1
                if v == v and abs(v) != float("inf"):
                    s += w * v
            acc += s
            out[p] = acc
        if self.fold:
            out = {q: 0.5 + math.copysign(out[abs(q)], q) for q in self.orig}
        self.values = out


# --------------------------------------------------------------------------
# running
# --------------------------------------------------------------------------
def group_output(path):
    out = {}
    with open(path, errors="replace") as f:
        for line in f:
            line = line.rstrip("\n")
            if not line:
                continue
            k, _, rest = line.partition(" ")
            out.setdefault(int(k), []).append(rest)
    return out


def tagged(lines, tag):
    for l in lines:
        if l == tag or l.startswith(tag + " "):
            return l[len(tag) + 1:].split()
    return None


def parse_batches(t, pos):
    nb = int(t[pos])
    bs = []
    for b in range(nb):
        j = pos + 1 + 4 * b
        bs.append((int(t[j]), int(t[j + 1]), int(t[j + 2]), int(t[j + 3])))
    return bs


def parse_cells(toks):
    return [tuple(int(x) for x in tok.split(",")) for tok in toks]


# ---- the property's predicate on one run of batches ----
def monitor_batches(ctx, line, label, rows, cols, p, batches, cells, stats):
    """p: weights (floats or Fractions) of the rows x cols window, row-major."""
    mr, mc = rows // 2, cols // 2
    m = rows * cols
    pos = 0
    prev = None
    first_by_n = {}
    order = sorted(range(m), key=lambda i: (-p[i], i))
    groups = {}
    for i in range(m):
        groups.setdefault(p[i], []).append(i)
    for (row, col, n, ln) in batches:
        seq = cells[pos:pos + ln]
        pos += ln
        new_cell = prev != (row, col)
        prev = (row, col)
        idx = []
        for (r, c) in seq:
            i, j = r - row + mr, c - col + mc
            if not (0 <= i < rows and 0 <= j < cols):
                ctx.violation("C14.in_window", "%s: source (%d,%d) sent a disperser to (%d,%d), outside its %dx%d window"
                              % (label, row, col, r, c, rows, cols), line)
                idx = None
                break
            idx.append(i * cols + j)
        if idx is None or ln != n or n < 1:
            continue
        stats["complete_batches"] += 1
        if not new_cell:
            stats["same_cell_again_batches"] += 1
        fresh_key = "C14.fresh.new_cell" if new_cell else "C14.fresh.same_cell_again"

        def report(key, what):
            ctx.violation(key if new_cell else "C14.fresh.same_cell_again",
                          "%s: %s%s" % (label, what, "" if new_cell else
                                        " (the same cell (%d,%d) arrived again as a source and the allotment was not started afresh)" % (row, col)),
                          line)
        cnt = [0] * m
        for i in idx:
            cnt[i] += 1
        bad = [i for i in range(m) if abs(cnt[i] - n * p[i]) > 1 + 1e-9]
        if bad:
            i = bad[0]
            report("C14.share", "%d dispersers from (%d,%d): window cell (%d,%d) with weight %s received %d, its share is %.6g"
                   % (n, row, col, i // cols, i % cols, p[i], cnt[i], float(n * p[i])))
        for w, g in groups.items():
            cs = [cnt[i] for i in g]
            if max(cs) - min(cs) > 1:
                a, b = g[cs.index(max(cs))], g[cs.index(min(cs))]
                report("C14.mirror", "%d dispersers from (%d,%d): window cells (%d,%d) and (%d,%d) have the same weight %s but received %d and %d"
                       % (n, row, col, a // cols, a % cols, b // cols, b % cols, w, cnt[a], cnt[b]))
                break
        if idx and idx[0] != order[0]:
            report("C14.first_pick", "the first disperser of (%d,%d) went to window cell (%d,%d), the first cell of maximal weight is (%d,%d)"
                   % (row, col, idx[0] // cols, idx[0] % cols, order[0] // cols, order[0] % cols))
        if new_cell:
            ref = first_by_n.setdefault(n, idx)
        else:
            ref = first_by_n.get(n, idx)
        if ref != idx:
            ctx.violation(fresh_key, "%s: two source cells with %d dispersers each were allotted differently (window cells %s... vs %s...)%s"
                          % (label, n, ref[:6], idx[:6],
                             "" if new_cell else "; (%d,%d) arrived again as a source and the allotment was not started afresh" % (row, col)), line)
    return


def mirror_ok(rows, cols, p, tol=0.0):
    for i in range(rows):
        for j in range(cols):
            a = p[i * cols + j]
            for (i2, j2) in ((rows - 1 - i, j), (i, cols - 1 - j)):
                b = p[i2 * cols + j2]
                if not (a == b or abs(a - b) <= tol * max(abs(a), abs(b))):
                    return (i, j, i2, j2)
    return None


def generated_is_stale():
    """True when coq/theories/GeneratedKernels.v is not what the translator
    produces from vc.REPO now."""
    try:
        text = KT.generate(vc.REPO)[0]
        return open(os.path.join(vc.COQ, "theories", "GeneratedKernels.v")).read() != text
    except (KT.TranslateError, OSError):
        return False


def run_impl(ctx, h, path, outpath, what):
    rc, e = vc.run_to_file([h, path], outpath)
    if rc != 0:
        ctx.broke("implementation harness run, %s (exit %d)" % (what, rc), e)
    return group_output(outpath)


def check(ctx, replay=None):
    pid = ctx.pid
    ctx.proof = vc.prove(pid)
    for _attempt in range(3):
        # Another check running at the same time against a different tree may have
        # regenerated GeneratedKernels.v between our translation and our build.
        if ctx.proof.ok or not generated_is_stale():
            break
        ctx.proof = vc.prove(pid)
    if not ctx.proof.ok:
        ctx.broke("proof obligations of Properties_%s.v%s" % (pid, (" (" + ctx.proof.failed_theorem + ")") if ctx.proof.failed_theorem else ""),
                  "\n".join(ctx.proof.problems) + "\n" + ctx.proof.log[-2500:])
    # the translated formulas (also regenerated by vc.prove through translate_all)
    funcs = None
    try:
        funcs = KT.generate(vc.REPO)[1]
    except KT.TranslateError as e:
        ctx.broke("translator: a region of the headers no longer parses", str(e))
        funcs = {}
    thorough = ctx.tier == "thorough"
    h, err = vc.build_harness("detkernel", sanitize=thorough)
    if err:
        ctx.broke("harness detkernel.cpp builds against /repo", err)
        return
    mexe, err = vc.build_model("detkernel")
    if err:
        ctx.broke("model extraction/driver build", err)
        mexe = None

    cases_path = os.path.join(ctx.work, "cases.txt")
    if replay:
        cases = vc.read_cases(replay)
        nval = len(cases)
    else:
        cases, nval = generate(ctx.tier, ctx.seed, funcs)
    with open(cases_path, "w") as f:
        f.write("\n".join(cases) + "\n")
    impl_path = os.path.join(ctx.work, "impl.out")
    out = run_impl(ctx, h, cases_path, impl_path, "first pass")

    stats = {"A": 0, "W": 0, "Q": 0, "validation_points": 0, "complete_batches": 0, "same_cell_again_batches": 0,
             "calls": 0, "windows_unequal_resolution": 0, "window_cells_checked": 0, "quantile_points": 0,
             "w_model_compared": 0, "w_model_skipped_too_big_or_invalid": 0, "dims_skipped_borderline": 0,
             "near_tie_steps_skipped": 0, "steps_compared_real_kernels": 0, "translator_functions_validated": 0}

    # ---------------- first-pass monitors, second-pass requests ----------------
    requests = []   # (case index, kind, payload, CdfRequest or list of distances)
    model_lines = []
    skip_cells, skip_dims = set(), set()
    wcase = {}
    for k, line in enumerate(cases):
        t = line.split()
        lines = out.get(k, [])
        kind = t[0]
        if kind == "A":
            model_lines.append(line)
            if k >= nval:
                continue
            stats["A"] += 1
            rows, cols, den = int(t[1]), int(t[2]), int(t[3])
            m = rows * cols
            p = [Fraction(int(x), den) for x in t[4:4 + m]]
            bs = parse_batches(t, 4 + m)
            ct = tagged(lines, "cells")
            if ct is None:
                ctx.violation("C14.run", "the kernel failed on a valid window: %s" % (lines[:1],), line)
                continue
            cells = parse_cells(ct)
            stats["calls"] += len(cells)
            monitor_batches(ctx, line, "dyadic window %dx%d" % (rows, cols), rows, cols, p, bs, cells, stats)
        elif kind == "W":
            stats["W"] += 1
            kern, scale, shape, pct, ew, ns = t[1], float(t[2]), float(t[3]), float(t[4]), float(t[5]), float(t[6])
            bs = parse_batches(t, 7)
            dims = tagged(lines, "dims")
            if dims is None:
                model_lines.append("N")
                skip_cells.add(k)
                skip_dims.add(k)
                ctx.violation(quantile_key(kern, scale, shape, "throws"),
                              "constructing the deterministic %s kernel (scale %s, shape %s, percentage %s) failed: %s"
                              % (kern, t[2], t[3], t[4], (lines or ["no output"])[0][:80]), line)
                continue
            rows, cols = int(dims[0]), int(dims[1])
            maxd = parse_hex(tagged(lines, "maxd")[0])
            prob = [parse_hex(x) for x in (tagged(lines, "prob") or [])]
            cells = parse_cells(tagged(lines, "cells") or [])
            stats["calls"] += len(cells)
            if ew != ns:
                stats["windows_unequal_resolution"] += 1
            label = "%s kernel (scale %s, shape %s, %s%%, ew %s, ns %s)" % (kern, t[2], t[3], fnum(pct * 100), t[5], t[6])
            wc = {"kern": kern, "scale": scale, "shape": shape, "pct": pct, "ew": ew, "ns": ns, "rows": rows, "cols": cols,
                  "maxd": maxd, "prob": prob, "label": label, "line": line}
            wcase[k] = wc
            # window size: 2 ceil(maxd / res) + 1, columns with ew, rows with ns
            ok_dims = maxd == maxd and maxd >= 0
            if ok_dims:
                ec, er = 2 * math.ceil(maxd / ew) + 1, 2 * math.ceil(maxd / ns) + 1
                if (rows, cols) != (er, ec):
                    ctx.violation("C14.window_size", "%s: maximum distance %.9g gives a %dx%d window (rows x columns), the kernel has %dx%d"
                                  % (label, maxd, er, ec, rows, cols), line)
            valid = ok_dims and rows > 0 and cols > 0 and len(prob) == rows * cols
            finite = valid and all(x == x and abs(x) != float("inf") for x in prob)
            if valid and not finite:
                ctx.violation("C14.window.nonfinite", "%s: the window contains weights that are not finite numbers (centre %s)"
                              % (label, prob[(rows // 2) * cols + cols // 2]), line)
            if finite:
                stats["window_cells_checked"] += rows * cols
                if min(prob) < 0 or abs(sum(prob) - 1) > 1e-9:
                    ctx.violation("C14.window.normalised", "%s: weights sum to %.12g, minimum %.3g" % (label, sum(prob), min(prob)), line)
                bad = mirror_ok(rows, cols, prob, 1e-13)
                if bad:
                    ctx.violation("C14.window.symmetric", "%s: window cells (%d,%d) and (%d,%d) are mirror images but weigh %.17g and %.17g"
                                  % ((label,) + bad + (prob[bad[0] * cols + bad[1]], prob[bad[2] * cols + bad[3]])), line)
                monitor_batches(ctx, line, label, rows, cols, prob, bs, cells, stats)
                # second pass: density at the distance of every cell, rows scaled by ns, columns by ew
                mr, mc = rows // 2, cols // 2
                ds = [math.sqrt((abs(mr - i) * ns) ** 2 + (abs(mc - j) * ew) ** 2) for i in range(rows) for j in range(cols)]
                requests.append((k, "dist", ds))
            # second pass: the cdf of the same pdf at the maximum distance
            if maxd == maxd and abs(maxd) != float("inf"):
                requests.append((k, "extent", CdfRequest(kern, scale, shape, [maxd])))
            # model side
            if finite and rows * cols <= MAX_MODEL_CELLS:
                stats["w_model_compared"] += 1
                model_lines.append("W2 %s %s %s %d %d %d %s %s ; %s" % (
                    qstr(maxd), qstr(ew), qstr(ns), rows, cols, rows * cols, " ".join(qstr(x) for x in prob),
                    batches_text(bs), " ".join("%d,%d" % c for c in cells)))
                qe, qn = maxd / ew, maxd / ns
                if min(abs(qe - round(qe)), abs(qn - round(qn))) < 1e-9:
                    skip_dims.add(k)
                    stats["dims_skipped_borderline"] += 1
            else:
                stats["w_model_skipped_too_big_or_invalid"] += 1
                model_lines.append("N")
                skip_cells.add(k)
                skip_dims.add(k)
        elif kind in ("Q", "P"):
            model_lines.append("N")
            kern, scale, shape = t[1], float(t[2]), float(t[3])
            xs = [float.fromhex(x) if x.startswith(("0x", "-0x")) else float(x) for x in t[4:]]
            vals = tagged(lines, "icdf" if kind == "Q" else "pdf") or []
            if k >= nval:
                # translator validation: the translated formula evaluated in Python = the compiled C++
                f = translated(funcs, kern, "icdf" if kind == "Q" else "pdf")
                if f is None:
                    continue
                for x, vt in zip(xs, vals):
                    stats["validation_points"] += 1
                    if vt.startswith("err"):
                        continue
                    v = parse_hex(vt)
                    try:
                        e = KT.eval_function(f, MEMBERS[kern](scale, shape), x)
                    except Exception:  # noqa: BLE001
                        e = float("nan")
                    same = (v != v and e != e) or v == e or (abs(v - e) <= 1e-9 * max(abs(v), abs(e)))
                    if not same:
                        ctx.broke("translator validation: %s_%s" % (kern, "icdf" if kind == "Q" else "pdf"),
                                  "translated formula gives %r, the compiled C++ gives %r at x=%r (scale %r, shape %r)" % (e, v, x, scale, shape))
                        break
                continue
            if kind == "Q":
                stats["Q"] += 1
                qs = []
                for u, vt in zip(xs, vals):
                    if vt.startswith("err"):
                        ctx.violation(quantile_key(kern, scale, shape, "throws"), "%s icdf(%s) with scale %s, shape %s throws %s"
                                      % (kern, u, t[2], t[3], vt), "Q %s %s %s %s" % (kern, t[2], t[3], fnum(u)))
                        qs.append(float("nan"))
                    else:
                        qs.append(parse_hex(vt))
                requests.append((k, "grid", (xs, qs, CdfRequest(kern, scale, shape, qs))))
        else:
            model_lines.append("N")

    # ---------------- second pass on the implementation ----------------
    p2_lines = []
    for (k, what, payload) in requests:
        kern, scale, shape = cases[k].split()[1:4]
        if what == "dist":
            xs = payload
        elif what == "extent":
            xs = payload.xs()
        else:
            xs = payload[2].xs()
        p2_lines.append("P %s %s %s %s" % (kern, scale, shape, " ".join(float(x).hex() for x in xs)))
    p2_path = os.path.join(ctx.work, "pass2.txt")
    with open(p2_path, "w") as f:
        f.write("\n".join(p2_lines) + "\n")
    out2 = run_impl(ctx, h, p2_path, os.path.join(ctx.work, "impl2.out"), "second pass") if p2_lines else {}
    for r, (k, what, payload) in enumerate(requests):
        line = cases[k]
        vals = [parse_hex(x) for x in (tagged(out2.get(r, []), "pdf") or [])]
        kern = line.split()[1]
        if what == "dist":
            wc = wcase[k]
            if len(vals) != len(wc["prob"]):
                continue
            dens = [abs(v) for v in vals]
            s = 0.0
            for v in dens:
                s += v
            if not (s == s) or s <= 0 or abs(s) == float("inf"):
                continue
            exp = [v / s for v in dens]
            rows, cols = wc["rows"], wc["cols"]
            for i, (a, b) in enumerate(zip(wc["prob"], exp)):
                if abs(a - b) > 1e-9 * max(abs(a), abs(b)) + 1e-300:
                    mr, mc = rows // 2, cols // 2
                    extra = ""
                    if rows > 1 and cols > 1:
                        extra = "; one row away (%s m) weighs %.6g, one column away (%s m) weighs %.6g" % (
                            fnum(wc["ns"]), wc["prob"][(mr + 1) * cols + mc], fnum(wc["ew"]), wc["prob"][mr * cols + mc + 1])
                    ctx.violation("C14.distance_axes",
                                  "%s: window cell (%d,%d) weighs %.9g but density(distance)/sum is %.9g when row offsets are scaled by the "
                                  "north-south and column offsets by the east-west resolution%s"
                                  % (wc["label"], i // cols, i % cols, a, b, extra), line)
                    break
        elif what == "extent":
            wc = wcase[k]
            payload.feed(vals if len(vals) == len(payload.xs()) else [float("nan")] * len(payload.xs()))
            F = payload.values.get(wc["maxd"])
            stats["quantile_points"] += 1
            if F is not None and abs(F - wc["pct"]) > TOL[kern]:
                ctx.violation(quantile_key(kern, wc["scale"], wc["shape"], "window"),
                              "%s: the window extends to %.9g, below which %.6f of the kernel's distribution lies (pdf integrated numerically), not %s"
                              % (wc["label"], wc["maxd"], F, fnum(wc["pct"])), line)
        else:
            us, qs, req = payload
            req.feed(vals if len(vals) == len(req.xs()) else [float("nan")] * len(req.xs()))
            t = line.split()
            for u, q in zip(us, qs):
                if q != q:
                    continue
                F = req.values.get(q)
                stats["quantile_points"] += 1
                if F is None or abs(F - u) > TOL[kern]:
                    ctx.violation(quantile_key(kern, float(t[2]), float(t[3]), "grid"),
                                  "%s (scale %s, shape %s): icdf(%s) = %.9g but the cdf of the same pdf there is %s"
                                  % (kern, t[2], t[3], fnum(u), q, "%.6f" % F if F is not None else "undefined"),
                                  "Q %s %s %s %s" % (kern, t[2], t[3], fnum(u)))
                    break

    # ---------------- model run and correspondence ----------------
    ncmp, ndiff = 0, 0
    if mexe:
        mpath = os.path.join(ctx.work, "model_cases.txt")
        with open(mpath, "w") as f:
            f.write("\n".join(model_lines) + "\n")
        model_path = os.path.join(ctx.work, "model.out")
        rc, e = vc.run_to_file([mexe, mpath], model_path)
        if rc != 0:
            ctx.broke("model driver run (exit %d)" % rc, e)
        mout = group_output(model_path)

        def relevant(l):
            p = l.split(" ", 2)
            k = int(p[0])
            if p[1] == "cells":
                return k not in skip_cells
            if p[1] == "dims":
                return k not in skip_dims
            return False
        ncmp, diffs = vc.diff_outputs(impl_path, model_path, relevant)
        ndiff = len(diffs)
        if diffs:
            k, a, b = diffs[0]
            ctx.broke("correspondence deterministic-kernel model vs implementation (%d differing cases)" % len(diffs),
                      "first differing case #%s: %s\nimpl : %s\nmodel: %s" % (k, cases[int(k)][:300], (a or "")[:300], (b or "")[:300]))
        # window weights: density (translated pdf) at the model's distance / sum
        wdiff = None
        for k, wc in wcase.items():
            ml = mout.get(k, [])
            sk = tagged(ml, "skipped")
            if sk:
                stats["near_tie_steps_skipped"] += int(sk[0])
                stats["steps_compared_real_kernels"] += int(sk[1]) - int(sk[0])
            d2 = tagged(ml, "d2")
            f = translated(funcs, wc["kern"], "pdf")
            if not d2 or d2 == ["-"] or f is None or k in skip_dims or wdiff:
                continue
            if len(d2) != len(wc["prob"]):
                continue
            try:
                dens = [abs(KT.eval_function(f, MEMBERS[wc["kern"]](wc["scale"], wc["shape"]), math.sqrt(float(parse_q(x))))) for x in d2]
            except Exception:  # noqa: BLE001
                continue
            s = 0.0
            for v in dens:
                s += v
            if not (s > 0) or abs(s) == float("inf"):
                continue
            for i, (a, v) in enumerate(zip(wc["prob"], dens)):
                b = v / s
                if abs(a - b) > 1e-9 * max(abs(a), abs(b)) + 1e-300:
                    wdiff = (k, i, a, b)
                    break
        if wdiff:
            k, i, a, b = wdiff
            ctx.broke("correspondence window weights: model distance + translated pdf vs implementation",
                      "case #%d: %s\ncell %d: implementation %.12g, model %.12g" % (k, cases[k][:200], i, a, b))
        # maximum distance: translated icdf of the kernel type at the percentage
        for k, wc in wcase.items():
            e = expected_icdf(funcs, wc["kern"], wc["scale"], wc["shape"], wc["pct"])
            if e is None or e != e:
                continue
            if abs(e - wc["maxd"]) > 1e-9 * max(abs(e), abs(wc["maxd"])):
                ctx.broke("correspondence maximum distance: translated icdf vs implementation",
                          "case #%d: %s\nimplementation max_distance %.12g, translated icdf %.12g" % (k, cases[k][:200], wc["maxd"], e))
                break
    stats["translator_functions_validated"] = len(funcs or {})

    rel = cases[:nval]
    nontrivial = set()
    for c in rel:
        t = c.split()
        if t[0] == "A":
            m = int(t[1]) * int(t[2])
            ws = t[4:4 + m]
            if m >= 2 and len(set(ws)) < len(ws):
                nontrivial.add(c)
        elif t[0] in ("W", "Q"):
            nontrivial.add(c)
    ctx.coverage.update({
        "evaluations": len(rel),
        "distinct_nontrivial": len(nontrivial),
        "rule": "cases are generated from VERIF_SEED: A = a dyadic window written over the kernel's (non-trivial: at least two cells and at "
                "least one exact tie between weights), W = a real kernel with a run of batches (always non-trivial), Q = a grid of "
                "quantiles of one kernel class; distinct = distinct case lines; the P/Q lines that validate the translator are not counted",
        "samples": [rel[0], rel[len(rel) // 2], rel[-1]] if rel else [],
        "exhaustive": False,
        "monitor_stats": stats,
        "lines_compared_model_vs_impl": ncmp,
        "traces_validated_against_impl": ncmp,
        "correspondence_diffs": ndiff,
        "second_pass_pdf_requests": len(requests),
        "not_proved": "normal, log-normal, gamma and exponential-power quantiles are numerical approximations/iterations: no theorem, "
                      "numeric test cdf(icdf(u)) = u only (tolerances %s)" % {k: TOL[k] for k in ("normal", "lognormal", "gamma", "exponential_power")},
    })
    ctx.assumptions += [
        "weights are rationals (every binary64 number is one); the theorems are about exact arithmetic, rounding of the "
        "implementation's subtractions is outside the model (real-kernel runs are compared except at near-ties < 1e-12)",
        "symmetric kernels (Cauchy, normal, logistic, hyperbolic secant, exponential power): the cdf is that of the density on the "
        "whole line, as the property's 'i.e.' clause states; window cases use percentages above 0.5 (below, max_distance is negative)",
        "window cases use densities that are finite at distance 0 (Weibull shape >= 1, gamma alpha >= 1)",
        "std::pow with a non-literal exponent is modelled by Rpower, equal to it for positive bases",
        "dispersers(row, col) >= 1 when the kernel is called; int overflow is outside the model",
    ]
