"""Operation-level tie between pops::HostPool and CellDefs.v / LandDefs.v.

NOT an engine (no PROPERTIES line): `eng_hostmodel.check` calls
`hostops.part(ctx, pid, replay)` for the properties in PIDS.

The cell-level theorems (CellProps, MortProps, MoveProps, LatencyProps) quantify
over ALL cell states satisfying the invariants and ALL arguments; the host-model
engine reaches HostPool only through Model::run_step.  Here arbitrary sequences
of the public HostPool methods with arbitrary in-domain arguments are applied to
ONE pool (harness/hostops.cpp, built from /repo's current tree) and, operation
by operation, to the extracted Gallina functions (ocaml/drv_hostops.ml through
coq/theories/HostOpsDefs.v) with the random outcomes the implementation logged.

Generator.  Adaptive: after every round the harness reports the TRUE state of
every case (`--last`), and the next operation is chosen from it, so counts can
be aimed at the case splits of the proofs (count = / one above what the cell
holds, ratios producing .5 ties, lag = length - 1 / length, destination =
source, ...) at any depth of a sequence although draws are random.  States
start inside the invariants Inv0 / InvM of CellProps.v (plus small streams with
cohorts partly untracked, cohorts exceeding infected and stale totals).  A case
ends at the first exception and as soon as a count went negative (an argument
outside the theorems' hypotheses): what the C++ does from there on (vector
sizes from negative counts) is outside the model's domain.  Cases whose last
operation has undefined behaviour in the C++ (index outside the raster, back()
of an empty cohort vector, negative time lag, division by a zero population)
form a separate stream that only the model runs: it must answer UB.

Monitors.  Written from the property texts, independent of the Coq model,
evaluated on the implementation's output after every operation whose
hypotheses (all cells inside Inv0, arguments inside the stated ranges) hold.
"""
import hashlib
import json
import math
import os
import random
import time
from fractions import Fraction

import vcommon as vc

PIDS = ["C01", "C02", "C03", "C04", "C05", "C10", "C11"]
N_CASES = {"quick": 6000, "thorough": 40000}
N_UB = {"quick": 300, "thorough": 2000}
EPS = Fraction(1, 2 ** 40)

CELL_OPS = ("disperser_to", "add_disperser_at", "dispersers_from", "pests_from", "pests_to",
            "completely_remove_hosts_at", "remove_infected_at", "remove_all_infected_at",
            "remove_infection_by_ratio_at", "remove_exposed_at", "make_resistant_at",
            "remove_resistance_at", "apply_mortality_at", "apply_mortality_at_pht",
            "reset_total_host", "read", "suitability_at")
ALL_OPS = CELL_OPS + ("move_hosts_from_to", "step_forward_mortality", "step_forward", "is_outside")


# ----------------------------------------------------------------------------
# small helpers
# ----------------------------------------------------------------------------
def lround(x):
    return int(math.floor(x + Fraction(1, 2))) if x >= 0 else -int(math.floor(-x + Fraction(1, 2)))


def ilist(s):
    return [int(x) for x in s.split(",")] if s not in ("", "-") else []


def ltext(l):
    return ",".join(str(x) for x in l) if l else "-"


def parse_cell(tok):
    p = (tok.split("|") + [""] * 8)[:8]
    return dict(S=int(p[0]), E=ilist(p[1]), I=int(p[2]), TE=int(p[3]), R=int(p[4]), M=ilist(p[5]), D=int(p[6]), TH=int(p[7]))


def cell_text(c):
    return "%d|%s|%d|%d|%d|%s|%d|%d" % (c["S"], ",".join(map(str, c["E"])), c["I"], c["TE"], c["R"],
                                        ",".join(map(str, c["M"])), c["D"], c["TH"])


def fmt_cell(c):
    return "S=%d E=%s I=%d TE=%d R=%d M=%s D=%d TH=%d" % (c["S"], c["E"], c["I"], c["TE"], c["R"], c["M"], c["D"], c["TH"])


def parse_state(text):
    """'<cell> <cell> ... ; suit r,c r,c' -> (cells, suit)"""
    cells_s, _, suit_s = text.partition(" ; suit")
    return [parse_cell(t) for t in cells_s.split()], [tuple(int(x) for x in t.split(",")) for t in suit_s.split()]


def parse_q(s):
    """exact text of a double printed by the harness: a/2^b, a*2^b/1, a/b"""
    num, _, den = s.partition("/")

    def pw(t):
        if "^" in t:
            a, _, b = t.partition("^")
            a = a[:-1]
            if a.endswith("*"):
                a = a[:-1]
            return (int(a) if a else 1) * 2 ** int(b)
        return int(t)
    return Fraction(pw(num), pw(den) if den else 1)


def inv0(c):
    return (c["S"] >= 0 and all(x >= 0 for x in c["E"]) and c["I"] >= 0 and c["R"] >= 0 and all(x >= 0 for x in c["M"])
            and c["D"] >= 0 and c["TH"] == c["S"] + sum(c["E"]) + c["I"] + c["R"] and c["TE"] == sum(c["E"]))


def nonneg(c):
    return (c["S"] >= 0 and all(x >= 0 for x in c["E"]) and c["I"] >= 0 and c["R"] >= 0 and all(x >= 0 for x in c["M"])
            and c["D"] >= 0 and c["TH"] >= 0 and c["TE"] >= 0)


def inv_m(c):
    return c["I"] == sum(c["M"])


def inv_le(c):
    return sum(c["M"]) <= c["I"]


def hosts_of(c):
    return c["S"] + sum(c["E"]) + c["I"] + c["R"]


def counts_of(labels, k, base=0):
    return [sum(1 for x in labels if x == base + i) for i in range(k)]


# ----------------------------------------------------------------------------
# cases
# ----------------------------------------------------------------------------
class Case:
    def __init__(self):
        self.name = ""
        self.ops = []
        self.alive = True
        self.plan = None
        self.info = {}

    @property
    def ncell(self):
        return self.rows * self.cols

    def header(self):
        L = ["ops " + self.name,
             "pool %s %d %d %d %d %s %d %s" % (self.mt, self.L, self.rows, self.cols, self.est_stoch, self.est_prob, self.gen_stoch, self.rr),
             "totpop " + (" ".join(map(str, self.totpop)) if self.totpop is not None else "-"),
             "other " + (" ".join(map(str, self.other)) if self.other is not None else "-"),
             "weather " + (" ".join(self.weather) if self.weather is not None else "-"),
             "pht " + (" ".join(map(str, self.pht)) if self.pht is not None else "-"),
             "cells " + " ".join(cell_text(c) for c in self.cells),
             "suitable " + " ".join("%d,%d" % rc for rc in self.suit),
             "seed %d" % self.seed]
        return L

    def text(self):
        return "\n".join(self.header() + ["op " + o for o in self.ops] + ["endops"]) + "\n"

    # --- environment as the documentation describes it
    def population(self, i, cell):
        if self.totpop is not None:
            return self.totpop[i]
        return (self.other[i] if self.other is not None else 0) + cell["S"] + cell["I"]

    def weather_at(self, i):
        return Fraction(self.weather[i]) if self.weather is not None else Fraction(1)

    def suitability(self, i, cell):
        """None when the total population is zero (division by zero)"""
        n = self.population(i, cell)
        if n == 0:
            return None
        s = Fraction(cell["S"], n)
        if self.pht is not None:
            s *= Fraction(self.pht[0])
        return s * self.weather_at(i)


def case_from_text(text):
    """case block -> Case (header fields only; ops as token lists in .optoks)"""
    c = Case()
    c.optoks = []
    for l in text.split("\n"):
        t = l.split()
        if not t:
            continue
        if t[0] == "ops":
            c.name = " ".join(t[1:])
        elif t[0] == "pool":
            c.mt, c.L, c.rows, c.cols = t[1], int(t[2]), int(t[3]), int(t[4])
            c.est_stoch, c.est_prob, c.gen_stoch, c.rr = int(t[5]), t[6], int(t[7]), t[8]
        elif t[0] == "totpop":
            c.totpop = None if t[1] == "-" else [int(x) for x in t[1:]]
        elif t[0] == "other":
            c.other = None if t[1] == "-" else [int(x) for x in t[1:]]
        elif t[0] == "weather":
            c.weather = None if t[1] == "-" else t[1:]
        elif t[0] == "pht":
            c.pht = None if t[1] == "-" else [t[1], t[2], int(t[3])]
        elif t[0] == "cells":
            c.cells = [parse_cell(x) for x in t[1:]]
        elif t[0] == "suitable":
            c.suit = [tuple(int(x) for x in v.split(",")) for v in t[1:]]
        elif t[0] == "seed":
            c.seed = int(t[1])
        elif t[0] == "op":
            c.optoks.append(t[1:])
            c.ops.append(" ".join(t[1:]))
    return c


def blocks_of(path):
    out, cur = [], None
    for l in open(path):
        if l.startswith("ops ") or l.strip() == "ops":
            cur = [l]
        elif cur is not None:
            cur.append(l)
            if l.startswith("endops"):
                out.append("".join(cur))
                cur = None
    return out


# ----------------------------------------------------------------------------
# generator: initial pools
# ----------------------------------------------------------------------------
SHAPES = [(1, 1), (1, 1), (1, 3), (3, 1), (2, 3), (3, 2), (2, 2), (1, 4), (4, 1), (1, 2)]
DY01 = ["0", "1", "1/2", "1/4", "3/4", "1/8", "7/8", "3/8", "5/8", "1/2", "1"]
FOCI = [("mix", 26), ("removal", 13), ("treat", 14), ("mortality", 9), ("evdeath", 6), ("latency", 10),
        ("move", 10), ("establish", 9), ("read", 3)]


def gen_cell(rng, ne, nm, sei, empty_p, kind):
    if rng.random() < empty_p:
        c = dict(S=0, E=[0] * ne, I=0, R=0, M=[0] * nm, D=0)
    else:
        S = rng.choice([0, 1, 2, 3, 5, 8, rng.randint(0, 20)])
        E = [0] * ne
        if ne and rng.random() < (0.6 if sei else 0.1):
            E = [rng.choice([0, 0, 1, 2, 3, rng.randint(0, 6)]) for _ in range(ne)]
        M = [rng.choice([0, 0, 1, 2, 3, 4, rng.randint(0, 8)]) for _ in range(nm)]
        if rng.random() < 0.25:
            M = [0] * nm
        c = dict(S=S, E=E, I=sum(M), R=rng.choice([0, 0, 0, 1, rng.randint(0, 4)]), M=M, D=rng.choice([0, 0, 0, rng.randint(0, 5)]))
    if kind == "untracked":      # as after pests_to: some infected are in no cohort
        c["I"] += rng.choice([0, 1, 2, 5])
    elif kind == "excess" and c["I"] > 0:      # as after pests_from: the cohorts hold more than infected
        c["I"] -= rng.randint(0, c["I"])
    c["TE"] = sum(c["E"])
    c["TH"] = c["S"] + sum(c["E"]) + c["I"] + c["R"]
    if kind == "stale" and rng.random() < 0.6:
        if rng.random() < 0.5:
            c["TH"] = max(0, c["TH"] + rng.choice([-2, -1, 1, 3]))
        else:
            c["TE"] = max(0, c["TE"] + rng.choice([-1, 1, 2]))
    return c


def new_case(rng, idx, focus=None):
    c = Case()
    if focus is None:
        focus = rng.choices([f for f, _ in FOCI], weights=[w for _, w in FOCI])[0]
    c.focus = focus
    c.rows, c.cols = rng.choice(SHAPES)
    c.mt = rng.choice(["SI", "SEI", "SEI"])
    nm = rng.choice([1, 2, 3, 3, 4, 5])
    if focus == "latency":
        c.mt = "SEI"
    if focus == "evdeath":
        c.rows, c.cols = rng.choice([(1, 1), (1, 2), (2, 1), (1, 3)])
        nm = rng.choice([1, 2, 3, 4])
    if c.mt == "SEI":
        c.L = rng.choice([0, 1, 2, 3])
        ne = c.L + 1 if (focus == "latency" or rng.random() < 0.7) else rng.choice([1, 2, 3, 4])
    else:
        c.L = rng.choice([0, 0, 1])
        ne = rng.choice([0, 0, 1, 2, 3])
    c.ne, c.nm = ne, nm
    kind = rng.choices(["consistent", "untracked", "excess", "stale"], weights=[78, 9, 5, 8])[0]
    if focus in ("latency", "evdeath"):
        kind = "consistent"
    c.kind = kind
    empty_p = rng.choice([0.1, 0.25, 0.5])
    c.cells = [gen_cell(rng, ne, nm, c.mt == "SEI", empty_p, kind) for _ in range(c.ncell)]
    if focus == "latency":      # the first latency period starts with empty cohorts
        for x in c.cells:
            x["S"] += sum(x["E"])
            x["E"] = [0] * ne
            x["TE"] = 0
            x["S"] = max(x["S"], rng.choice([1, 3, 6]))
            x["TH"] = x["S"] + x["I"] + x["R"]
    if all(hosts_of(x) == 0 for x in c.cells):
        m = [0] * (nm - 1) + [2]
        c.cells[rng.randrange(c.ncell)] = dict(S=6, E=[0] * ne, I=2, TE=0, R=1, M=m, D=0, TH=9)
    c.suit = [(i // c.cols, i % c.cols) for i, x in enumerate(c.cells) if x["TH"] > 0]
    if rng.random() < 0.15 and c.suit:
        c.suit = c.suit[:-1]
    c.est_stoch = rng.choice([0, 1])
    c.est_prob = rng.choice(["0", "1/4", "1/2", "3/4", "1", "1"])
    c.gen_stoch = 1 if rng.random() < 0.4 else 0
    c.rr = rng.choice(["1", "1/2", "3/2", "2", "5/4", "9/2", "1/4"] + ([] if c.gen_stoch else ["0"]))
    # environment; every real parameter dyadic, explicit populations powers of two, so that the
    # double arithmetic of suitability_at and exact rationals agree on the tests against 0 and 1
    c.totpop = c.other = c.weather = c.pht = None
    r = rng.random()
    if r < 0.25:
        c.totpop = [rng.choice([32, 64, 128]) for _ in range(c.ncell)]
    elif r < 0.33:
        c.totpop = [rng.choice([1, 2, 4, 8, 64]) for _ in range(c.ncell)]
    elif r < 0.5:
        c.other = [rng.choice([0, 0, 1, 3, 10]) for _ in range(c.ncell)]
    big_sus = False
    if rng.random() < 0.5:
        sus = rng.choice(["1", "1", "1/2", "1/4", "3/4", "0"])
        if rng.random() < 0.06:
            sus, big_sus = "2", True
        c.pht = [sus, rng.choice(DY01), rng.randint(0, nm)]
    if rng.random() < 0.45:
        vals = ["1", "1/2", "1/4", "1/8"] if big_sus else ["1", "1/2", "1/4", "3/4", "1/8", "5/8"]
        if not c.gen_stoch:
            vals = vals + ["0"]
        c.weather = [rng.choice(vals) for _ in range(c.ncell)]
    c.seed = rng.randint(1, 10 ** 6)
    c.target = rng.randint(3, 10)
    c.name = "%d %s %s" % (idx, focus, kind)
    c.state = [dict(x, E=list(x["E"]), M=list(x["M"])) for x in c.cells]
    c.cur_suit = list(c.suit)
    if focus == "evdeath":
        rate = rng.choice(["1/2", "1/4", "1", "3/4", "1/8"])
        lag = rng.randint(0, nm - 1)
        plan = []
        for _ in range(nm):
            if rng.random() < 0.5:
                plan.append(("infect",))
            for i in range(c.ncell):
                plan.append(("mort", i, rate, lag))
            plan.append(("rotate",))
        c.plan = plan
        c.target = len(plan)
    if focus == "latency":
        plan = []
        s = rng.choice([0, 0, 0, 1, c.L, c.L + 2])
        for _ in range(c.L + rng.randint(1, 4)):
            for _ in range(rng.choice([0, 1, 1, 2, 3])):
                plan.append(("expose",))
            if rng.random() < 0.3:
                plan.append(("unexpose",))
            plan.append(("step", s))
            s += rng.choice([1, 1, 1, 2, 3])
        c.plan = plan
        c.target = len(plan)
    return c


# ----------------------------------------------------------------------------
# generator: next operation from the true state
# ----------------------------------------------------------------------------
def bnd(rng, avail, out_p=0.0):
    """a count aimed at the boundaries of [0, avail]"""
    if rng.random() < out_p:
        return rng.choice([avail + 1, avail + 1, avail + 3, -1])
    cands = [x for x in (0, 1, avail // 2, avail - 1, avail, avail, rng.randint(0, max(avail, 0))) if 0 <= x <= avail]
    return rng.choice(cands or [0])


def pick(rng, c, prefer=None, p=0.85):
    idx = list(range(c.ncell))
    if prefer is not None and rng.random() < p:
        good = [i for i in idx if prefer(c.state[i])]
        if good:
            idx = good
    i = rng.choice(idx)
    return i, i // c.cols, i % c.cols, c.state[i]


def sub_vector(rng, v):
    """0 <= result <= v pointwise, boundary-biased"""
    mode = rng.choice(["zero", "all", "half", "rand", "one"])
    if mode == "zero":
        return [0] * len(v)
    if mode == "all":
        return list(v)
    if mode == "half":
        return [x // 2 for x in v]
    if mode == "one":
        out = [0] * len(v)
        nz = [k for k, x in enumerate(v) if x > 0]
        if nz:
            out[rng.choice(nz)] = 1
        return out
    return [rng.randint(0, x) for x in v]


OUT_P = 0.05   # share of arguments outside the theorems' hypotheses (correspondence only)


def op_establish(rng, c, name):
    if c.mt == "SEI" and c.ne == 0:
        return None     # back() of an empty vector: undefined, only in the UB stream
    i, r, col, cell = pick(rng, c, lambda x: x["S"] > 0, 0.75)
    if name == "disperser_to" and cell["S"] > 0 and c.population(i, cell) == 0:
        return None     # 0 population: division by zero, UB stream
    return "%s %d %d" % (name, r, col)


def op_dispersers_from(rng, c):
    i, r, col, cell = pick(rng, c, lambda x: x["I"] > 0, 0.8)
    return "dispersers_from %d %d" % (r, col)


def op_pests_from(rng, c):
    i, r, col, cell = pick(rng, c, lambda x: x["I"] > 0)
    return "pests_from %d %d %d" % (r, col, bnd(rng, cell["I"], OUT_P))


def op_pests_to(rng, c):
    i, r, col, cell = pick(rng, c, lambda x: x["S"] > 0, 0.7)
    n = rng.choice([bnd(rng, cell["S"]), cell["S"] + 1, cell["S"] + 4, bnd(rng, cell["S"], OUT_P)])
    return "pests_to %d %d %d" % (r, col, n)


def op_move(rng, c):
    i, r, col, cell = pick(rng, c, lambda x: x["TH"] > 0)
    j = rng.randrange(c.ncell)
    if rng.random() < 0.12:
        j = i       # destination = source
    empties = [k for k in range(c.ncell) if c.state[k]["TH"] == 0]
    if empties and rng.random() < 0.3:
        j = rng.choice(empties)     # the destination becomes suitable
    n = rng.choice([bnd(rng, cell["TH"]), cell["TH"] + 1, cell["TH"] + 5, bnd(rng, cell["TH"], OUT_P), 1, 2])
    return "move_hosts_from_to %d %d %d %d %d" % (r, col, j // c.cols, j % c.cols, n)


def share(coef, x, rnd):
    return int(rnd(Fraction(coef) * x))


def op_remove_or_resist(rng, c, name):
    i, r, col, cell = pick(rng, c, lambda x: hosts_of(x) > 0)
    rnd = math.ceil if name == "completely_remove_hosts_at" else math.floor
    mode = rng.choices(["rule", "tracked", "free", "badlen", "over", "mort_over", "none", "s_over"],
                       weights=[34, 30, 14, 5, 100 * OUT_P, 4, 5, 4])[0]
    S, E, I, M = cell["S"], cell["E"], cell["I"], cell["M"]
    if mode == "rule":          # what a treatment passes: the share of every class, each rounded
        coef = rng.choice(DY01)
        s, e, ii, m = share(coef, S, rnd), [share(coef, x, rnd) for x in E], share(coef, I, rnd), [share(coef, x, rnd) for x in M]
    elif mode == "tracked":     # infected = sum of the per-cohort counts
        m = sub_vector(rng, M)
        s, e, ii = bnd(rng, S), sub_vector(rng, E), min(sum(m), max(I, 0))
        if ii != sum(m):
            m = [0] * len(M)
            ii = 0
    elif mode == "free":
        s, e, ii, m = bnd(rng, S), sub_vector(rng, E), bnd(rng, I), sub_vector(rng, M)
    elif mode == "none":
        s, e, ii, m = 0, [0] * len(E), 0, rng.choice([[0] * len(M), [], [1] * (len(M) + 1)])
    elif mode == "badlen":      # documented std::invalid_argument
        s, e, ii, m = bnd(rng, S), sub_vector(rng, E), max(1, bnd(rng, I)), sub_vector(rng, M)
        if rng.random() < 0.5:
            e = e + [0] if rng.random() < 0.5 or not e else e[:-1]
        else:
            m = m + [0] if rng.random() < 0.5 or not m else m[:-1]
    elif mode == "mort_over":   # a cohort asked for more than it holds
        m = list(M)
        k = rng.randrange(len(M))
        m[k] += 1
        s, e, ii = bnd(rng, S), sub_vector(rng, E), max(1, bnd(rng, I))
    elif mode == "s_over":      # more susceptible than present
        s, e, ii, m = S + rng.choice([1, 2]), sub_vector(rng, E), 0, [0] * len(M)
    else:                       # "over": outside the hypotheses, counts go negative
        s, e, ii, m = bnd(rng, S), sub_vector(rng, E), bnd(rng, I), sub_vector(rng, M)
        which = rng.choice(["e", "i"] if E else ["i"])
        if which == "e":
            e[rng.randrange(len(E))] += E[0] + 1 + max(E)
        else:
            ii = I + rng.choice([1, 2])
    return "%s %d %d %d %s %d %s" % (name, r, col, s, ltext(e), ii, ltext(m))


def op_remove_infected(rng, c):
    i, r, col, cell = pick(rng, c, lambda x: x["I"] > 0)
    return "remove_infected_at %d %d %d" % (r, col, bnd(rng, cell["I"], OUT_P))


def op_remove_exposed(rng, c):
    i, r, col, cell = pick(rng, c, lambda x: x["TE"] > 0)
    return "remove_exposed_at %d %d %d" % (r, col, bnd(rng, cell["TE"], OUT_P))


def op_by_ratio(rng, c):
    i, r, col, cell = pick(rng, c, lambda x: x["I"] + x["TE"] > 0)
    q = rng.choice(DY01)
    # dyadic ratios that put count * ratio on a .5 tie
    for n in (cell["I"], cell["TE"]):
        if n % 2 == 1 and rng.random() < 0.3:
            q = "1/2"
        elif n % 4 == 2 and rng.random() < 0.2:
            q = rng.choice(["1/4", "3/4"])
    if rng.random() < OUT_P:
        q = rng.choice(["5/4", "-1/4", "2"])
    return "remove_infection_by_ratio_at %d %d %s" % (r, col, q)


def op_mortality(rng, c):
    i, r, col, cell = pick(rng, c, lambda x: sum(x["M"]) > 0)
    rate = rng.choice(DY01 + ["1/2", "1/4"])
    if rng.random() < OUT_P:
        rate = rng.choice(["3/2", "-1/2", "2"])
    lag = rng.choice([0, 0, 1, c.nm - 1, c.nm - 1, c.nm, c.nm + 1])
    return "apply_mortality_at %d %d %s %d" % (r, col, rate, max(lag, 0))


def simple(name):
    def f(rng, c, prefer=None):
        i, r, col, cell = pick(rng, c, prefer)
        return "%s %d %d" % (name, r, col)
    return f


def op_step_forward(rng, c):
    if c.mt == "SEI" and c.ne == 0:
        return None
    s = rng.choice([0, c.L - 1, c.L, c.L, c.L + 1, rng.randint(0, 8)])
    return "step_forward %d" % max(s, 0)


def op_is_outside(rng, c):
    return "is_outside %d %d" % (rng.choice([-1, 0, c.rows - 1, c.rows, c.rows + 3]), rng.choice([-1, 0, c.cols - 1, c.cols, c.cols + 2]))


def op_suitability(rng, c):
    i, r, col, cell = pick(rng, c, lambda x: x["S"] > 0, 0.6)
    if c.population(i, cell) == 0:
        return "read %d %d" % (r, col)
    return "suitability_at %d %d" % (r, col)


GEN = {
    "disperser_to": lambda rng, c: op_establish(rng, c, "disperser_to"),
    "add_disperser_at": lambda rng, c: op_establish(rng, c, "add_disperser_at"),
    "dispersers_from": op_dispersers_from,
    "pests_from": op_pests_from,
    "pests_to": op_pests_to,
    "move_hosts_from_to": op_move,
    "completely_remove_hosts_at": lambda rng, c: op_remove_or_resist(rng, c, "completely_remove_hosts_at"),
    "make_resistant_at": lambda rng, c: op_remove_or_resist(rng, c, "make_resistant_at"),
    "remove_infected_at": op_remove_infected,
    "remove_all_infected_at": lambda rng, c: simple("remove_all_infected_at")(rng, c, lambda x: x["I"] > 0),
    "remove_infection_by_ratio_at": op_by_ratio,
    "remove_exposed_at": op_remove_exposed,
    "remove_resistance_at": lambda rng, c: simple("remove_resistance_at")(rng, c, lambda x: x["R"] > 0),
    "apply_mortality_at": op_mortality,
    "apply_mortality_at_pht": lambda rng, c: simple("apply_mortality_at_pht")(rng, c, lambda x: sum(x["M"]) > 0),
    "step_forward_mortality": lambda rng, c: "step_forward_mortality",
    "step_forward": op_step_forward,
    "reset_total_host": lambda rng, c: simple("reset_total_host")(rng, c),
    "read": lambda rng, c: simple("read")(rng, c),
    "is_outside": op_is_outside,
    "suitability_at": op_suitability,
}

WEIGHTS = {
    "mix": {k: 1 for k in GEN},
    "removal": {"remove_infected_at": 5, "remove_all_infected_at": 2, "remove_infection_by_ratio_at": 5, "remove_exposed_at": 5,
                "pests_from": 3, "pests_to": 3, "add_disperser_at": 2, "step_forward": 1, "apply_mortality_at": 1},
    "treat": {"completely_remove_hosts_at": 6, "make_resistant_at": 6, "remove_resistance_at": 3, "add_disperser_at": 1,
              "remove_infection_by_ratio_at": 2, "step_forward": 1, "apply_mortality_at": 1, "reset_total_host": 1},
    "mortality": {"apply_mortality_at": 7, "apply_mortality_at_pht": 3, "step_forward_mortality": 4, "add_disperser_at": 3,
                  "step_forward": 1, "remove_infected_at": 1, "pests_from": 0.5, "make_resistant_at": 1},
    "move": {"move_hosts_from_to": 8, "add_disperser_at": 1, "remove_infected_at": 1, "make_resistant_at": 1, "pests_to": 0.5, "step_forward": 1},
    "establish": {"disperser_to": 6, "add_disperser_at": 4, "dispersers_from": 4, "suitability_at": 2, "step_forward": 2,
                  "make_resistant_at": 1, "remove_resistance_at": 1, "pests_to": 1},
    "read": {"read": 4, "is_outside": 3, "suitability_at": 3, "add_disperser_at": 1, "remove_exposed_at": 1, "reset_total_host": 2},
}


def choose_op(rng, c):
    if c.plan is not None:
        if not c.plan:
            return None
        step = c.plan.pop(0)
        if step[0] == "infect":
            return op_establish(rng, c, "add_disperser_at") or "step_forward_mortality"
        if step[0] == "mort":
            i = step[1]
            return "apply_mortality_at %d %d %s %d" % (i // c.cols, i % c.cols, step[2], step[3])
        if step[0] == "rotate":
            return "step_forward_mortality"
        if step[0] == "expose":
            return op_establish(rng, c, rng.choice(["add_disperser_at", "add_disperser_at", "disperser_to"])) or "read 0 0"
        if step[0] == "unexpose":
            i, r, col, cell = pick(rng, c, lambda x: x["TE"] > 0)
            if rng.random() < 0.3:
                return "remove_infection_by_ratio_at %d %d %s" % (r, col, rng.choice(["1/2", "3/4", "0", "1"]))
            return "remove_exposed_at %d %d %d" % (r, col, bnd(rng, cell["TE"]))
        if step[0] == "step":
            return "step_forward %d" % step[1]
    w = WEIGHTS[c.focus]
    names = list(w)
    for _ in range(8):
        name = rng.choices(names, weights=[w[n] for n in names])[0]
        op = GEN[name](rng, c)
        if op is not None:
            return op
    return "read 0 0"


class HarnessCrash(RuntimeError):
    """the harness (i.e. the library) terminated abnormally; .case = the case being run"""

    def __init__(self, msg, case):
        RuntimeError.__init__(self, msg)
        self.case = case


def crashed_case(path, n_done):
    b = blocks_of(path)
    return "".join(b[n_done:n_done + 1]) if 0 <= n_done < len(b) else None


def run_last(harness, path):
    rc, out = vc.run([harness, path, "--last"], timeout=900)
    if rc != 0:
        done = [l for l in out.split("\n") if l.split(" ", 1)[0].isdigit()]
        raise HarnessCrash("harness hostops exit %d while generating:\n%s" % (rc, out[-2000:]), crashed_case(path, len(done)))
    return [l for l in out.split("\n") if l]


def generate(seed, n, harness, workdir, stats):
    """Adaptive generation: one more operation per round, chosen from the state the
    implementation reports.  Returns the list of finished cases."""
    rng = random.Random(seed * 7919 + 17)
    cases = [new_case(rng, k) for k in range(n)]
    active = list(cases)
    rounds = 0
    path = os.path.join(workdir, "gen_round.txt")
    while active:
        rounds += 1
        nxt = []
        for c in active:
            op = choose_op(rng, c)
            if op is None:
                c.alive = False
                continue
            c.ops.append(op)
            nxt.append(c)
        active = nxt
        if not active:
            break
        with open(path, "w") as f:
            f.write("".join(c.text() for c in active))
        lines = run_last(harness, path)
        if len(lines) != len(active):
            raise RuntimeError("harness hostops printed %d lines for %d cases" % (len(lines), len(active)))
        keep = []
        for c, line in zip(active, lines):
            t = line.split(" ", 3)
            ok = False
            if len(t) >= 4 and t[2] == "st" and t[1] == str(len(c.ops) - 1):
                try:
                    _, _, st = t[3].partition(" | ")
                    cells, suit = parse_state(st)
                    if len(cells) == c.ncell:
                        c.state, c.cur_suit = cells, suit
                        ok = all(nonneg(x) for x in cells)
                        if not ok:
                            stats["ended_negative"] = stats.get("ended_negative", 0) + 1
                except ValueError:
                    ok = False
            elif len(t) >= 3 and t[2] == "err":
                stats["ended_exception"] = stats.get("ended_exception", 0) + 1
            if ok and len(c.ops) < c.target:
                keep.append(c)
        active = keep
    stats["generation_rounds"] = rounds
    return cases


# ----------------------------------------------------------------------------
# generator: the stream whose last operation is undefined behaviour in the C++
# ----------------------------------------------------------------------------
def generate_ub(seed, n):
    """-> list of (case text, why).  Never given to the harness."""
    rng = random.Random(seed * 104729 + 5)
    out = []
    while len(out) < n:
        c = new_case(rng, len(out), focus="mix")
        c.name = "%d ub" % len(out)
        kind = rng.choice(["coords", "coords", "coords", "empty_cohorts", "neg_lag", "zero_population", "move_dest"])
        # a few operations that need no random outcome first
        for _ in range(rng.choice([0, 0, 1, 2])):
            i, r, col, cell = pick(rng, c)
            c.ops.append(rng.choice(["remove_resistance_at %d %d" % (r, col), "step_forward_mortality", "read %d %d" % (r, col),
                                     "pests_to %d %d 0" % (r, col), "reset_total_host %d %d" % (r, col)]))
        br, bc = rng.choice([(-1, 0), (c.rows, 0), (0, -1), (0, c.cols), (c.rows + 2, c.cols), (-3, -1)])
        if kind == "coords":
            name = rng.choice([o for o in CELL_OPS])
            args = {"pests_from": " 1", "pests_to": " 1", "remove_infected_at": " 1", "remove_exposed_at": " 1",
                    "remove_infection_by_ratio_at": " 1/2", "apply_mortality_at": " 1/2 0",
                    "completely_remove_hosts_at": " 0 %s 0 %s" % (ltext([0] * c.ne), ltext([0] * c.nm)),
                    "make_resistant_at": " 0 %s 0 %s" % (ltext([0] * c.ne), ltext([0] * c.nm))}.get(name, "")
            if name == "apply_mortality_at_pht" and c.pht is None:
                c.pht = ["1", "1/2", 0]
            c.ops.append("%s %d %d%s" % (name, br, bc, args))
            why = "cell (%d,%d) outside the %dx%d raster" % (br, bc, c.rows, c.cols)
        elif kind == "move_dest":
            i, r, col, cell = pick(rng, c, lambda x: x["TH"] > 0)
            if rng.random() < 0.5:
                c.ops.append("move_hosts_from_to %d %d %d %d 1" % (r, col, br, bc))
            else:
                c.ops.append("move_hosts_from_to %d %d %d %d 1" % (br, bc, r, col))
            why = "movement from/to a cell outside the raster"
        elif kind == "empty_cohorts":
            c.mt, c.ne = "SEI", 0
            for x in c.cells:
                x["E"], x["TE"] = [], 0
                x["S"] = max(x["S"], 1)
                x["TH"] = x["S"] + x["I"] + x["R"]
            c.ops = [o for o in c.ops if not o.startswith("step_forward ")]
            i, r, col, cell = pick(rng, c)
            c.ops.append(rng.choice(["add_disperser_at %d %d" % (r, col), "step_forward %d" % rng.randint(0, 4)]))
            why = "SEI pool without exposed cohorts: back()/front() of an empty vector"
        elif kind == "neg_lag":
            i, r, col, cell = pick(rng, c)
            c.ops.append("apply_mortality_at %d %d %s %d" % (r, col, rng.choice(["1/2", "1", "1/8"]), rng.choice([-1, -2])))
            why = "negative mortality time lag indexes past the tracker"
        else:
            c.totpop = [0] * c.ncell
            i, r, col, _ = pick(rng, c)
            cell = c.cells[i]
            cell["S"] = max(cell["S"], 2)
            cell["TH"] = hosts_of(cell)
            if c.mt == "SEI" and c.ne == 0:
                continue
            c.ops.append(rng.choice(["disperser_to %d %d", "suitability_at %d %d"]) % (r, col))
            why = "total population 0 with susceptible hosts: division by zero"
        out.append((c.text(), why))
    return out


# ----------------------------------------------------------------------------
# running both sides (cached per tier / seed / executables)
# ----------------------------------------------------------------------------
def parse_output(path):
    """-> {k: {'init': (cells, suit), 'steps': {j: dict}, 'tapes': {j: [events]}, 'setup_err': str}}"""
    out = {}
    with open(path, errors="replace") as f:
        for line in f:
            line = line.rstrip("\n")
            if not line:
                continue
            t = line.split(" ", 3)
            try:
                k = int(t[0])
            except ValueError:
                continue
            d = out.setdefault(k, dict(init=None, steps={}, tapes={}, setup_err=None))
            try:
                if t[1] == "init":
                    d["init"] = parse_state(line.split(" ", 2)[2])
                elif t[1] == "setup":
                    d["setup_err"] = line
                elif t[2] == "tape":
                    d["tapes"][int(t[1])] = t[3].split() if len(t) > 3 else []
                elif t[2] == "err":
                    d["steps"][int(t[1])] = dict(err=t[3] if len(t) > 3 else "?")
                elif t[2] == "st":
                    ret, _, st = t[3].partition(" | ")
                    cells, suit = parse_state(st)
                    d["steps"][int(t[1])] = dict(err=None, ret=ret, cells=cells, suit=suit)
            except (ValueError, IndexError):
                d["setup_err"] = "unparsable: " + line[:200]
    return out


def shared_run(ctx, replay):
    """-> dict(blocks, impl, model, ub=[(text, why, model lines)], stats) or None"""
    sanitize = ctx.tier == "thorough"
    h, err = vc.build_harness("hostops", sanitize=sanitize)
    if err:
        ctx.broke("harness hostops.cpp builds against /repo", err)
        return None
    m, err = vc.build_model("hostops")
    if err:
        ctx.broke("model extraction/driver build (hostops)", err)
        return None
    me = os.path.abspath(__file__)
    if replay:
        rb = blocks_of(replay)
        if not rb:
            return dict(blocks=[], impl={}, model_diffs=[], ncmp=0, ub=[], stats={}, impl_path=None)
        label = "replay_" + hashlib.sha256("".join(rb).encode()).hexdigest()[:12]
    else:
        label = "%s_%d" % (ctx.tier, ctx.seed)
    key = vc.sha_files([h, m, me], extra=label)[:20]
    d = os.path.join(vc.BUILD, "work", "hostops", label + "_" + key)
    os.makedirs(d, exist_ok=True)
    P = lambda x: os.path.join(d, x)
    with vc.Lock("hostops_" + label):
        # results for other states of /repo or of this module that nobody can still be reading
        parent = os.path.dirname(d)
        for f in os.listdir(parent):
            q = os.path.join(parent, f)
            try:
                if q != d and os.path.isdir(q) and time.time() - os.path.getmtime(q) > 3 * 3600:
                    import shutil
                    shutil.rmtree(q, ignore_errors=True)
            except OSError:
                pass
        if not os.path.exists(P("done")):
            t0 = time.time()
            stats = {}
            if replay:
                texts = rb
                ub = []
            else:
                cases = generate(ctx.seed, N_CASES[ctx.tier], h, d, stats)
                texts = [c.text() for c in cases if c.ops]
                ub = generate_ub(ctx.seed, N_UB[ctx.tier])
            stats["generation_s"] = round(time.time() - t0, 2)
            with open(P("cases.txt"), "w") as f:
                f.write("".join(texts))
            with open(P("ub.txt"), "w") as f:
                f.write("".join(t for t, _ in ub))
            json.dump([w for _, w in ub], open(P("ub_why.json"), "w"))
            t1 = time.time()
            rc, e = vc.run_to_file([h, P("cases.txt")], P("impl.out"), timeout=1800)
            if rc != 0:
                last = -1
                for l in open(P("impl.out"), errors="replace"):
                    t = l.split(" ", 1)[0]
                    if t.isdigit():
                        last = max(last, int(t))
                raise HarnessCrash("implementation harness run hostops (exit %d)\n%s" % (rc, e), crashed_case(P("cases.txt"), last + 1) or crashed_case(P("cases.txt"), last))
            stats["impl_s"] = round(time.time() - t1, 2)
            t1 = time.time()
            rc, e = vc.run_to_file([m, P("cases.txt"), P("impl.out")], P("model.out"), timeout=1800)
            if rc != 0:
                ctx.broke("model driver run hostops (exit %d)" % rc, e)
                return None
            open(P("empty.out"), "w").close()
            rc, e = vc.run_to_file([m, P("ub.txt"), P("empty.out")], P("ub.out"), timeout=600)
            if rc != 0:
                ctx.broke("model driver run hostops, UB stream (exit %d)" % rc, e)
                return None
            stats["model_s"] = round(time.time() - t1, 2)
            json.dump(stats, open(P("stats.json"), "w"))
            open(P("done"), "w").write("ok")
    blocks = blocks_of(P("cases.txt"))
    ncmp, diffs = vc.diff_outputs(P("impl.out"), P("model.out"), relevant=lambda l: l.split(" ", 3)[2:3] != ["tape"])
    ubb = blocks_of(P("ub.txt"))
    why = json.load(open(P("ub_why.json")))
    ubo = {}
    for l in open(P("ub.out")):
        k, _, rest = l.rstrip("\n").partition(" ")
        ubo.setdefault(int(k), []).append(rest)
    return dict(blocks=blocks, impl=parse_output(P("impl.out")), model_diffs=diffs, ncmp=ncmp,
                ub=[(b, w, ubo.get(k, [])) for k, (b, w) in enumerate(zip(ubb, why))],
                stats=json.load(open(P("stats.json"))), impl_path=P("impl.out"))


# ----------------------------------------------------------------------------
# monitors
# ----------------------------------------------------------------------------
class Report:
    """collects (pid, key, what) for one case: per property only the clauses broken by the FIRST
    operation that breaks one (what later operations do to an already broken state is a consequence)"""

    def __init__(self):
        self.items = []
        self.keys = set()
        self.first = {}
        self.j = 0

    def add(self, key, what):
        pid = key[:3]
        if self.first.setdefault(pid, self.j) != self.j:
            return
        if key not in self.keys:
            self.keys.add(key)
            self.items.append((pid, key, "operation %d: %s" % (self.j, what)))


def expected_add(c, cell):
    """add_disperser_at by its documentation: one susceptible host becomes infected (SI, youngest
    mortality cohort) or exposed (SEI, youngest exposed cohort); nothing without a susceptible host"""
    x = dict(cell, E=list(cell["E"]), M=list(cell["M"]))
    if cell["S"] <= 0:
        return x, 0
    x["S"] -= 1
    if c.mt == "SI":
        x["I"] += 1
        x["M"][-1] += 1
    else:
        x["E"][-1] += 1
        x["TE"] += 1
    return x, 1


def draws_of(tape):
    return [ilist(e.split(":", 1)[1]) if ":" in e else [] for e in tape if e.startswith("draw")]


def valid_cohort_draw(labels, cohorts, n):
    """labels are cohort indices; never more than a cohort holds; min(n, available) in total.
    -> counts per cohort, or "overdrawn" / "count" """
    k = len(cohorts)
    if any(x < 0 or x >= k for x in labels):
        return "overdrawn"
    cnt = counts_of(labels, k)
    if any(a > b for a, b in zip(cnt, cohorts)):
        return "overdrawn"
    if len(labels) != min(n, sum(cohorts)):
        return "count"
    return cnt


def judge(c, op, P, suit, res, tape, rep, stats, trk):
    """One operation: P = cells before, res = harness result, tape = its random outcomes.
    Returns False when the arguments are outside the hypotheses of the theorems (no verdict)."""
    name = op[0]
    A = lambda k: int(op[k])
    single = name in CELL_OPS
    idx = None
    if single:
        r, col = A(1), A(2)
        idx = r * c.cols + col
        p = P[idx]
    # ---------------- hypotheses of the theorems about this operation
    pre = True
    removed = 0
    keeps_cohorts = name not in ("pests_from", "pests_to")
    if name in ("remove_infected_at", "pests_from"):
        pre = 0 <= A(3) <= p["I"]
    elif name == "remove_exposed_at":
        pre = 0 <= A(3) <= p["TE"]
    elif name == "pests_to":
        pre = A(3) >= 0
    elif name == "remove_infection_by_ratio_at":
        pre = 0 <= Fraction(op[3]) <= 1
    elif name == "move_hosts_from_to":
        pre = A(5) >= 0
    elif name in ("completely_remove_hosts_at", "make_resistant_at"):
        s, e, ii, m = A(3), ilist(op[4]), A(5), ilist(op[6])
        pre = (0 <= s <= p["S"] and len(e) == len(p["E"]) and all(0 <= a <= b for a, b in zip(e, p["E"])) and 0 <= ii <= p["I"]
               and all(a >= 0 for a in m))
        need_m = ii > 0 or name == "make_resistant_at"
        if need_m:
            pre = pre and len(m) == len(p["M"]) and all(a <= b for a, b in zip(m, p["M"]))
        keeps_cohorts = (ii == sum(m)) if need_m else True
        if name == "completely_remove_hosts_at":
            removed = s + sum(e) + ii
    elif name == "apply_mortality_at":
        pre = 0 <= Fraction(op[3]) <= 1 and A(4) >= 0 and inv_le(p)
    elif name == "apply_mortality_at_pht":
        pre = c.pht is not None and 0 <= Fraction(c.pht[1]) <= 1 and c.pht[2] >= 0 and inv_le(p)
    elif name in ("disperser_to", "suitability_at"):
        sv = c.suitability(idx, p)
        pre = sv is not None and 0 <= sv <= 1 if (name == "suitability_at" or p["S"] > 0) else True
    if not pre:
        stats["outside_hypotheses"] += 1
        trk.pop("pending", None)
        return False
    stats["judged"] += 1
    # ---------------- no operation fails inside its hypotheses
    if res["err"] is not None:
        fam = {"apply_mortality_at": "C03.mortality_fails.op_level", "apply_mortality_at_pht": "C03.mortality_fails.op_level",
               "completely_remove_hosts_at": "C10.rejected_in_range.completely_remove_hosts_at",
               "make_resistant_at": "C10.rejected_in_range.make_resistant_at",
               "disperser_to": "C04.rejected_in_range.disperser_to", "add_disperser_at": "C04.rejected_in_range.add_disperser_at",
               "dispersers_from": "C04.rejected_in_range.dispersers_from", "step_forward": "C05.rejected_in_range.step_forward"}
        rep.add(fam.get(name, "C02.rejected_in_range." + name),
                "%s raised %s on a cell inside the invariants with arguments in range (cell before: %s)" %
                (" ".join(op), res["err"], fmt_cell(p) if single else ""))
        return True
    C, ret = res["cells"], res["ret"]
    if len(C) != len(P) or any(len(a["E"]) != len(b["E"]) or len(a["M"]) != len(b["M"]) for a, b in zip(P, C)):
        rep.add("C02.state_shape." + name, "number of cells or cohorts changed")
        return True
    # ---------------- C01: ledger; only removals take hosts out, only mortality reports deaths
    t0, d0 = sum(hosts_of(x) for x in P), sum(x["D"] for x in P)
    t1, d1 = sum(hosts_of(x) for x in C), sum(x["D"] for x in C)
    died = d1 - d0
    if t1 != t0 - died - removed:
        rep.add("C01.ledger.%s.%s" % (name, "created" if t1 > t0 - died - removed else "lost"),
                "%s: hosts %d -> %d with %d died and %d removed by the call" % (" ".join(op), t0, t1, died, removed))
    if died and name not in ("apply_mortality_at", "apply_mortality_at_pht"):
        rep.add("C01.died_outside_mortality." + name, "%s changed the died count by %d" % (" ".join(op), died))
    if single:
        for i, (a, b) in enumerate(zip(P, C)):
            if i != idx and a != b:
                rep.add("C01.frame." + name, "%s changed another cell (%d): %s -> %s" % (" ".join(op), i, fmt_cell(a), fmt_cell(b)))
                break
        if hosts_of(C[idx]) + C[idx]["D"] != hosts_of(p) + p["D"] - removed:
            rep.add("C01.ledger.%s.cell" % name, "%s: cell %s -> %s, %d removed" % (" ".join(op), fmt_cell(p), fmt_cell(C[idx]), removed))
    # ---------------- C02: signs and bounds
    for i, x in enumerate(C):
        for f in ("S", "I", "TE", "R", "D", "TH"):
            if x[f] < 0:
                rep.add("C02.negative.%s.%s" % (f[0], name), "%s: cell %d has %s = %d" % (" ".join(op), i, f, x[f]))
        if any(v < 0 for v in x["E"]):
            rep.add("C02.negative.E.%s" % name, "%s: cell %d exposed cohorts %s" % (" ".join(op), i, x["E"]))
        if any(v < 0 for v in x["M"]):
            rep.add("C02.negative.M.%s" % name, "%s: cell %d mortality cohorts %s" % (" ".join(op), i, x["M"]))
        if x["I"] > x["TH"]:
            rep.add("C02.infected_gt_total." + name, "%s: cell %d infected %d > total hosts %d" % (" ".join(op), i, x["I"], x["TH"]))
    # ---------------- C03: the three identities
    for i, x in enumerate(C):
        if x["TH"] != hosts_of(x):
            rep.add("C03.total_hosts." + name, "%s: cell %d total hosts %d != %d+%d+%d+%d" % (" ".join(op), i, x["TH"], x["S"], sum(x["E"]), x["I"], x["R"]))
        if x["TE"] != sum(x["E"]):
            rep.add("C03.total_exposed." + name, "%s: cell %d total exposed %d != sum of cohorts %d" % (" ".join(op), i, x["TE"], sum(x["E"])))
        if keeps_cohorts and inv_m(P[i]) and (name != "move_hosts_from_to" or all(inv_m(y) for y in P)) and not inv_m(x):
            rep.add("C03.infected_eq_mortality_cohorts." + name,
                    "%s: cell %d infected %d != sum of mortality cohorts %s (before: %s)" % (" ".join(op), i, x["I"], x["M"], fmt_cell(P[i])))
    # ---------------- per operation
    draws = draws_of(tape)
    if single:
        cur = C[idx]

    def differs(exp, key, what):
        if exp != cur:
            rep.add(key, "%s: %s; cell before %s, after %s, documented %s" % (" ".join(op), what, fmt_cell(p), fmt_cell(cur), fmt_cell(exp)))

    if name in ("add_disperser_at", "disperser_to"):
        exp, n = expected_add(c, p)
        ests = [e for e in tape if e.startswith("establish:")]
        if name == "disperser_to":
            if p["S"] <= 0:
                if ests:
                    rep.add("C04.establishment_without_host", "disperser_to tested establishment in a cell without susceptible hosts")
                exp, n = dict(p), 0
            elif len(ests) != 1:
                rep.add("C04.establishment_events", "disperser_to on a cell with susceptible hosts logged %d establishment tests" % len(ests))
            else:
                _, tq, pq, rs = ests[0].split(":")
                tester, prob = parse_q(tq), parse_q(pq)
                if abs(prob - c.suitability(idx, p)) > EPS:
                    rep.add("C04.establishment_probability", "disperser_to used probability %s, documented susceptible/population x susceptibility x weather = %s" % (prob, c.suitability(idx, p)))
                if not c.est_stoch and tester != 1 - Fraction(c.est_prob):
                    rep.add("C04.deterministic_tester", "deterministic establishment tested %s, documented 1 - %s" % (tester, c.est_prob))
                if c.est_stoch and not (0 <= tester < 1):
                    rep.add("C04.tester_range", "establishment tester %s outside [0,1)" % tester)
                if (tester < prob) != (rs == "1"):
                    rep.add("C04.establish_decision", "tester %s probability %s decided %s" % (tester, prob, rs))
                if rs != "1":
                    exp, n = dict(p), 0
                stats["establish_events"] += 1
        if ret != str(n):
            rep.add("C04.established_count." + name, "%s returned %s, documented %d (susceptible before: %d)" % (" ".join(op), ret, n, p["S"]))
        if ret.lstrip("-").isdigit() and int(ret) > max(p["S"], 0):
            rep.add("C04.established_gt_susceptible", "%s established %s with %d susceptible" % (" ".join(op), ret, p["S"]))
        differs(exp, "C04.establish_reclassifies." + name, "an established disperser turns exactly one susceptible host into one %s host" % ("infected" if c.mt == "SI" else "exposed"))
        if ret == "1" and c.mt == "SEI" and "pending" in trk:
            due = trk["ncalls"] + c.L
            trk["pending"][idx][due] = trk["pending"][idx].get(due, 0) + 1
    elif name == "dispersers_from":
        gens = [e for e in tape if e.startswith("generate:")]
        differs(dict(p), "C04.generation_changes_state", "generating dispersers must not change hosts")
        if p["I"] <= 0:
            if ret != "0" or gens:
                rep.add("C04.no_infection_no_dispersers.dispersers_from", "cell without infection produced %s dispersers" % ret)
        elif len(gens) != 1:
            rep.add("C04.generation_events", "dispersers_from on an infected cell logged %d generation events" % len(gens))
        else:
            _, gr, gc, lam, cnt = gens[0].split(":")
            lam_doc = Fraction(c.rr) * c.weather_at(idx)
            if parse_q(lam) != lam_doc or (int(gr), int(gc)) != (r, col):
                rep.add("C04.generation_rate", "dispersers_from used rate %s at (%s,%s), documented reproductive rate x weather = %s at (%d,%d)" % (parse_q(lam), gr, gc, lam_doc, r, col))
            if cnt != ret or int(ret) < 0:
                rep.add("C04.generation_count", "dispersers_from returned %s, logged %s" % (ret, cnt))
            if not c.gen_stoch and int(ret) != lround(lam_doc * p["I"]):
                rep.add("C04.deterministic_generation.dispersers_from", "produced %s dispersers, documented round(%s x %d) = %d" % (ret, lam_doc, p["I"], lround(lam_doc * p["I"])))
            stats["generate_events"] += 1
    elif name == "step_forward":
        s = A(1)
        for i, (a, b) in enumerate(zip(P, C)):
            exp = dict(a, E=list(a["E"]), M=list(a["M"]))
            if c.mt == "SEI":
                old = a["E"]
                if s >= c.L:
                    exp["E"] = old[1:] + [0]
                    exp["I"] += old[0]
                    exp["TE"] -= old[0]
                    exp["M"][-1] += old[0]
                else:
                    exp["E"] = old[1:] + old[:1]
            if exp != b:
                rep.add("C05.step_forward.%s" % ("transition" if (c.mt == "SEI" and s >= c.L) else ("before_latency" if c.mt == "SEI" else "SI_changed")),
                        "step_forward(%d), latency %d, cell %d: %s -> %s, documented %s" % (s, c.L, i, fmt_cell(a), fmt_cell(b), fmt_cell(exp)))
                break
        if "pending" in trk:
            n = trk["ncalls"]
            for i, (a, b) in enumerate(zip(P, C)):
                due = trk["pending"][i].pop(n, 0)
                stale = sum(v for k, v in trk["pending"][i].items() if k < n)
                got = b["I"] - a["I"]
                if s >= c.L:
                    if got != due or b["M"][-1] - a["M"][-1] != due or stale:
                        rep.add("C05.latency_exact", "call %d of step_forward (step %d, latency %d), cell %d: %d hosts became infected, %d were exposed exactly %d calls earlier (%d older ones still exposed)" % (n, s, c.L, i, got, due, c.L, stale))
                elif got != 0 or due != 0:
                    rep.add("C05.transition_before_latency", "step_forward(%d) with latency %d, cell %d: %d became infected, %d due" % (s, c.L, i, got, due))
                trk["matured"] = trk.get("matured", 0) + max(due, 0)
            trk["ncalls"] = n + 1
    elif name in ("completely_remove_hosts_at", "make_resistant_at"):
        exp = dict(p, E=[a - b for a, b in zip(p["E"], e)], M=list(p["M"]))
        exp["S"] -= s
        exp["TE"] -= sum(e)
        if name == "make_resistant_at":
            exp["I"] -= ii
            exp["M"] = [a - b for a, b in zip(p["M"], m)]
            exp["R"] += s + sum(e) + ii
        else:
            if ii > 0:
                exp["I"] -= ii
                exp["M"] = [a - b for a, b in zip(p["M"], m)]
            exp["TH"] = exp["S"] + sum(exp["E"]) + exp["I"] + exp["R"]
        differs(exp, "C10.share." + ("removal" if name == "completely_remove_hosts_at" else "pesticide"),
                "the call takes exactly the given share out of every class" + (" and makes it resistant" if name == "make_resistant_at" else ""))
    elif name == "remove_resistance_at":
        differs(dict(p, S=p["S"] + p["R"], R=0), "C10.share.pesticide_end", "every resistant host returns to susceptible")
    elif name in ("remove_infected_at", "remove_all_infected_at", "remove_exposed_at", "remove_infection_by_ratio_at"):
        exp = dict(p, E=list(p["E"]), M=list(p["M"]))
        want = []
        if name == "remove_infected_at":
            want = [("M", A(3))]
        elif name == "remove_all_infected_at":
            want = [("M", p["I"])]
        elif name == "remove_exposed_at":
            want = [("E", A(3))]
        else:
            ratio = Fraction(op[3])
            want = [("M", p["I"] - lround(p["I"] * ratio)), ("E", p["TE"] - lround(p["TE"] * ratio))]
            if (p["I"] * ratio * 2) % 2 == 1 or (p["TE"] * ratio * 2) % 2 == 1:
                stats["ratio_ties"] += 1
        dq = list(draws)
        okd = True
        bkey = "C10.share.ratio_removal" if name == "remove_infection_by_ratio_at" else "C03.removal_bookkeeping." + name
        for which, n in want:
            if n > 0:
                labels = dq.pop(0) if dq else None
                cnt = valid_cohort_draw(labels, exp[which], n) if labels is not None else "count"
                if isinstance(cnt, str):
                    rep.add("C02.taken_gt_available." + name if cnt == "overdrawn" else bkey,
                            "%s: drew %s from cohorts %s, documented request %d (cell before: %s)" % (" ".join(op), labels, exp[which], n, fmt_cell(p)))
                    okd = False
                    trk.pop("pending", None)
                    break
                exp[which] = [a - b for a, b in zip(exp[which], cnt)]
                if which == "E" and "pending" in trk:
                    for kk, v in enumerate(cnt):
                        if v:
                            due = trk["ncalls"] + kk
                            trk["pending"][idx][due] = trk["pending"][idx].get(due, 0) - v
            if which == "M":
                exp["I"] -= n
            else:
                exp["TE"] -= n
            exp["S"] += n
        if dq and okd:
            rep.add(bkey, "%s drew %d more times than the documented requests %s need (cell before: %s)" % (" ".join(op), len(dq), want, fmt_cell(p)))
            trk.pop("pending", None)
        if okd:
            differs(exp, bkey, "the removed hosts return to susceptible and leave the cohorts they were drawn from" +
                    (" (kept = round(count x ratio), halves away from zero)" if name == "remove_infection_by_ratio_at" else ""))
    elif name in ("pests_from", "pests_to"):
        n = A(3)
        k = n if name == "pests_from" else min(n, p["S"])
        sign = -1 if name == "pests_from" else 1
        if ret != str(k):
            rep.add("C02.taken_gt_available." + name, "%s returned %s with %d %s present, documented %d" % (" ".join(op), ret, p["I"] if sign < 0 else p["S"], "infected" if sign < 0 else "susceptible", k))
        differs(dict(p, I=p["I"] + sign * k, S=p["S"] - sign * k), "C02.pests_moved." + name, "pests only reclassify susceptible / infected hosts of the cell")
    elif name == "move_hosts_from_to":
        a_i, b_i = A(1) * c.cols + A(2), A(3) * c.cols + A(4)
        src = P[a_i]
        n = A(5)
        moved = min(n, src["TH"])
        if a_i == b_i:
            stats["move_same_cell"] += 1
        if n > src["TH"]:
            stats["move_more_than_present"] += 1
        if ret != str(moved):
            rep.add("C02.taken_gt_available.move_hosts_from_to", "%s returned %s, the cell held %d hosts" % (" ".join(op), ret, src["TH"]))
        dq = list(draws)
        first = dq.pop(0) if dq else None
        ok = first is not None and all(1 <= x <= 4 for x in first) and len(first) == moved
        if ok:
            im, sm, em, rm = counts_of(first, 4, base=1)
            ok = im <= src["I"] and sm <= src["S"] and em <= src["TE"] and rm <= src["R"]
        if not ok:
            rep.add("C02.taken_gt_available.move_hosts_from_to", "%s: class draw %s from I=%d S=%d E=%d R=%d for %d hosts" % (" ".join(op), first, src["I"], src["S"], src["TE"], src["R"], moved))
        else:
            ed = [0] * len(src["E"])
            md = [0] * len(src["M"])
            if em > 0:
                ed = valid_cohort_draw(dq.pop(0) if dq else [], src["E"], em)
            if not isinstance(ed, str) and im > 0:
                md = valid_cohort_draw(dq.pop(0) if dq else [], src["M"], im)
            if isinstance(ed, str) or isinstance(md, str) or dq:
                rep.add("C02.taken_gt_available.move_hosts_from_to", "%s: cohort draws %s do not fit cohorts E=%s M=%s" % (" ".join(op), draws[1:], src["E"], src["M"]))
            else:
                W = [dict(x, E=list(x["E"]), M=list(x["M"])) for x in P]

                def shift(x, sg):
                    x["S"] += sg * sm
                    x["I"] += sg * im
                    x["TE"] += sg * em
                    x["R"] += sg * rm
                    x["TH"] += sg * moved
                    x["E"] = [u + sg * v for u, v in zip(x["E"], ed)]
                    x["M"] = [u + sg * v for u, v in zip(x["M"], md)]
                shift(W[a_i], -1)
                shift(W[b_i], 1)
                if W != C:
                    rep.add("C01.movement_relocates", "%s: cells %s -> %s, documented %s" % (" ".join(op), [fmt_cell(x) for x in P], [fmt_cell(x) for x in C], [fmt_cell(x) for x in W]))
    elif name in ("apply_mortality_at", "apply_mortality_at_pht"):
        rate, lag = (Fraction(op[3]), A(4)) if name == "apply_mortality_at" else (Fraction(c.pht[1]), c.pht[2])
        mm = list(p["M"])
        dead = 0
        if rate > 0:
            for j in range(max(len(mm) - lag, 0)):
                if mm[j] > 0:
                    dj = mm[j] if j == 0 else int(math.floor(rate * mm[j]))
                    mm[j] -= dj
                    dead += dj
        if lag == len(mm) - 1:
            stats["lag_len_minus_1"] += 1
        if lag >= len(mm):
            stats["lag_ge_len"] += 1
        if (cur["M"] != mm or cur["D"] - p["D"] != dead or p["I"] - cur["I"] != dead or p["TH"] - cur["TH"] != dead):
            rep.add("C11.cohort_rule", "%s (rate %s lag %d): cohorts %s -> %s, documented %s; died %d (documented %d), infected %d -> %d, total hosts %d -> %d" %
                    (" ".join(op), rate, lag, p["M"], cur["M"], mm, cur["D"] - p["D"], dead, p["I"], cur["I"], p["TH"], cur["TH"]))
        if (cur["S"], cur["E"], cur["R"], cur["TE"]) != (p["S"], p["E"], p["R"], p["TE"]):
            rep.add("C11.other_classes_touched", "%s changed susceptible / exposed / resistant" % " ".join(op))
        if cur["D"] - p["D"] > p["I"]:
            rep.add("C02.deaths_gt_infected", "%s: %d died, %d infected were present" % (" ".join(op), cur["D"] - p["D"], p["I"]))
        stats["dead"] += dead
    elif name == "step_forward_mortality":
        for i, (a, b) in enumerate(zip(P, C)):
            if dict(a, M=a["M"][1:] + a["M"][:1]) != b:
                rep.add("C11.cohort_ageing", "step_forward_mortality, cell %d: %s -> %s" % (i, fmt_cell(a), fmt_cell(b)))
                break
    elif name == "reset_total_host":
        differs(dict(p), "C03.total_hosts.reset_total_host", "recomputing the total of a consistent cell changes nothing")
    elif name == "read":
        differs(dict(p), "C03.accessors.changed_state", "a read accessor changed the cell")
        doc = "read:%d:%d:%d:%d:%d:%d:E=%s:M=%s" % (p["I"], p["S"], sum(p["E"]), sum(p["E"]), p["R"], p["S"] + p["I"],
                                                    ",".join(map(str, p["E"])), ",".join(map(str, p["M"])))
        if ret != doc:
            rep.add("C03.accessors.values", "accessors returned %s, the cell holds %s" % (ret, doc))
    elif name == "suitability_at":
        differs(dict(p), "C04.suitability_changes_state", "suitability_at changed the cell")
        if ret != str(lround(c.suitability(idx, p) * 2 ** 20)):
            rep.add("C04.establishment_probability", "suitability_at returned %s/2^20, documented %s" % (ret, c.suitability(idx, p)))
    elif name == "is_outside":
        if C != P:
            rep.add("C01.frame.is_outside", "is_outside changed the state")
    # draws never take more than a cohort holds: checked above for every drawing operation
    return True


def monitor_case(c, out, stats):
    """-> Report for one case"""
    rep = Report()
    if out is None or out["init"] is None:
        return rep
    P, suit = out["init"]
    trk = {}
    focus = c.name.split()[1] if len(c.name.split()) > 1 else ""
    if focus == "latency" and c.mt == "SEI" and len(P[0]["E"]) == c.L + 1 and all(not any(x["E"]) for x in P) and all(inv0(x) for x in P):
        trk["pending"] = [dict() for _ in P]
        trk["ncalls"] = 0
    ev = None
    if focus == "evdeath" and all(inv0(x) and inv_m(x) for x in P):
        ev = dict(I0=[x["I"] for x in P], D0=[x["D"] for x in P], rounds=0, seen=set(), ok=True, nm=len(P[0]["M"]), new=[0] * len(P))
    # A verdict is given while the state is attributable to the library: the cells are inside Inv0,
    # or were reached from such a state by calls inside the theorems' hypotheses only (then a
    # broken invariant is the library's doing, and what follows from it is reported as well).
    clean = False
    for j, op in enumerate(c.optoks):
        res = out["steps"].get(j)
        if res is None:
            break
        stats["ops"][op[0]] = stats["ops"].get(op[0], 0) + 1
        if not clean:
            clean = all(inv0(x) for x in P)
        rep.j = j
        if clean:
            clean = judge(c, op, P, suit, res, out["tapes"].get(j, []), rep, stats, trk)
        else:
            stats["skipped_outside_Inv0"] += 1
            trk.pop("pending", None)
        if res["err"] is not None:
            break
        if not clean:
            ev = None
        C = res["cells"]
        if ev is not None:
            if op[0] == "apply_mortality_at" and Fraction(op[3]) > 0 and 0 <= int(op[4]) < ev["nm"]:
                ev["seen"].add(int(op[1]) * c.cols + int(op[2]))
            elif op[0] == "step_forward_mortality":
                if len(ev["seen"]) == len(P):
                    ev["rounds"] += 1
                else:
                    ev = None
                if ev is not None:
                    ev["seen"] = set()
                    if ev["rounds"] == ev["nm"]:
                        stats["eventual_death_runs"] += 1
                        for i, x in enumerate(C):
                            if x["D"] - ev["D0"][i] < ev["I0"][i] or x["I"] > ev["new"][i]:
                                rep.add("C11.eventual_death", "cell %d: %d infected at the start, %d tracker-length mortality steps later %d died and %d are infected (%d newly infected meanwhile)" %
                                        (i, ev["I0"][i], ev["nm"], x["D"] - ev["D0"][i], x["I"], ev["new"][i]))
                        ev = None
            elif op[0] == "add_disperser_at":
                if res["ret"] == "1" and c.mt == "SI":
                    ev["new"][int(op[1]) * c.cols + int(op[2])] += 1
            else:
                ev = None
        P, suit = C, res["suit"]
    if "pending" in trk:
        stats["latency_runs"] += 1
        stats["latency_matured"] += trk.get("matured", 0)
    return rep


def check_ub(ctx, ub, stats):
    """every case of the UB stream: the model must stop at the last operation with UB"""
    bad = []
    for text, why, lines in ub:
        nops = sum(1 for l in text.split("\n") if l.startswith("op "))
        last = lines[-1] if lines else ""
        stats["ub_cases"] += 1
        if last != "%d err UB_out_of_bounds" % (nops - 1):
            bad.append("%s\nmodel: %s\n%s" % (why, last[:200], text))
    if bad:
        ctx.broke("hostops: the model does not classify %d of %d undefined-behaviour calls as UB" % (len(bad), len(ub)), bad[0])


# ----------------------------------------------------------------------------
# entry point
# ----------------------------------------------------------------------------
def part(ctx, pid, replay=None):
    """Called by eng_hostmodel.check for pid in PIDS."""
    if pid not in PIDS:
        return
    t0 = time.time()
    try:
        run = shared_run(ctx, replay)
    except HarnessCrash as e:
        # the library crashed (signal, sanitizer) or aborted on an in-domain case: that case is the failing input
        if e.case:
            ctx.violation("%s.crash.hostops" % pid, "the library terminated abnormally while running this in-domain operation sequence", e.case, str(e)[-1500:])
        else:
            ctx.broke("hostops: the harness terminated abnormally", str(e))
        return
    except RuntimeError as e:
        ctx.broke("hostops: generation / run failed", str(e))
        return
    if run is None:
        return
    blocks = run["blocks"]
    cov = dict(cases=len(blocks))
    ctx.coverage["hostops"] = cov
    if not blocks:
        return
    diffs = run["model_diffs"]
    if diffs:
        k, a, b = diffs[0]
        ctx.broke("correspondence HostPool operations vs CellDefs/LandDefs (%d differing cases)" % len(diffs),
                  "first differing case #%s\nimpl : %s\nmodel: %s\n%s" % (k, (a or "")[:500], (b or "")[:500],
                                                                         blocks[int(k)] if k.isdigit() and int(k) < len(blocks) else ""))
    stats = dict(ops={}, skipped_outside_Inv0=0, outside_hypotheses=0, judged=0, establish_events=0, generate_events=0,
                 ratio_ties=0, move_same_cell=0, move_more_than_present=0, lag_len_minus_1=0, lag_ge_len=0, dead=0,
                 eventual_death_runs=0, latency_runs=0, latency_matured=0, ub_cases=0)
    nontrivial = set()
    errors = {}
    nops = 0
    for k, text in enumerate(blocks):
        c = case_from_text(text)
        out = run["impl"].get(k)
        rep = monitor_case(c, out, stats)
        for (p, key, what) in rep.items:
            if p == pid:
                ctx.violation(key, what, text, "hostops case #%d (operation-level run of pops::HostPool)" % k)
        if out:
            steps = out["steps"]
            nops += len(steps)
            for s in steps.values():
                if s["err"] is not None:
                    errors[s["err"]] = errors.get(s["err"], 0) + 1
            states = [out["init"][0]] + [s["cells"] for _, s in sorted(steps.items()) if s["err"] is None] if out["init"] else []
            changed = any(a != b for a, b in zip(states, states[1:]))
            used = any(out["tapes"].get(j) for j in steps) or any(s["err"] is not None for s in steps.values())
            if len(steps) >= 3 and changed and used:
                nontrivial.add(text)
    check_ub(ctx, run["ub"], stats)
    cov.update({
        "operations": nops,
        "distinct_nontrivial": len(nontrivial),
        "rule": "a case (one HostPool + operation list) is non-trivial when at least three operations ran, at least one changed the "
                "state and at least one used a random outcome or ended in a documented exception; distinct = distinct case text",
        "samples": [blocks[0][:1200]],
        "lines_compared_model_vs_impl": run["ncmp"],
        "correspondence_diffs": len(diffs),
        "traces_validated_against_impl": len(blocks) - len(diffs),
        "exceptions": errors,
        "monitor": stats,
        "generation": run["stats"],
        "wall_s": round(time.time() - t0, 2),
    })
