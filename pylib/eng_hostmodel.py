"""Host-model engine: C01-C05, C09-C12, C16, C17.

One shared run per (tier, seed, source hash): generated scenarios are executed by
harness/hostmodel.cpp (Model::run_step with the guarded hooks: a snapshot after
every individual action and the tape of random outcomes) and replayed by the
extracted Coq model (ocaml/drv_hostmodel.ml) with that tape.  Every property
then (1) rebuilds its theorems, (2) requires the two traces to be identical,
and (3) evaluates its own predicate (monitors_hostmodel.py) on the
implementation's trace.
"""
import json
import os
import re

import vcommon as vc
import gen_hostmodel as gen
import monitors_hostmodel as mon
import hostops
import compose

PROPERTIES = ["C01", "C02", "C03", "C04", "C05", "C09", "C10", "C11", "C12", "C16", "C17"]

N_CASES = {"quick": 260, "thorough": 4000}


def parse_cell(tok):
    p = tok.split("|")
    ints = lambda s: [int(x) for x in s.split(",")] if s else []
    return dict(S=int(p[0]), E=ints(p[1]), I=int(p[2]), TE=int(p[3]), R=int(p[4]), M=ints(p[5]), D=int(p[6]), TH=int(p[7]))


def parse_state(rest):
    """' | h0: cells ; suit ... | h1: ... | disp ... | estab ... | outside ... | soil ...'"""
    st = dict(hosts=[], suit=[], disp=[], estab=[], outside=[], soil=[])
    for part in rest.split(" | ")[1:]:
        part = part.strip()
        if re.match(r"h\d+:", part):
            cells_s, _, suit_s = part.partition(" ; suit")
            cells = [parse_cell(t) for t in cells_s.split()[1:]]
            st["hosts"].append(cells)
            st["suit"].append([tuple(int(x) for x in t.split(",")) for t in suit_s.split()])
        elif part.startswith("disp"):
            st["disp"] = [int(x) for x in part.split()[1:]]
        elif part.startswith("estab"):
            st["estab"] = [int(x) for x in part.split()[1:]]
        elif part.startswith("outside"):
            st["outside"] = [tuple(int(x) for x in t.split(",")) for t in part.split()[1:]]
        elif part.startswith("soil"):
            st["soil"] = [[int(x) for x in t.split(",")] for t in part.split()[1:]]
    return st


def parse_trace(path):
    """-> {case: {'snaps': [(step, tag, idx, state)], 'err': (where, kind) or None, 'tapes': {step: [events]}, 'sched': str}}"""
    out = {}
    with open(path, errors="replace") as f:
        for line in f:
            line = line.rstrip("\n")
            if not line:
                continue
            k, _, rest = line.partition(" ")
            k = int(k)
            d = out.setdefault(k, dict(snaps=[], err=None, tapes={}, sched=""))
            t = rest.split(" ", 3)
            if t[0] == "sched":
                d["sched"] = rest
            elif t[0] == "setup":
                d["err"] = ("setup", t[2])
            elif t[1] == "tape":
                evs = rest.split(" ")[2:]
                # tag@stream:payload -> keep the stream names separately
                d["tapes"][int(t[0][1:])] = [re.sub(r"^([a-z_]+)@[a-z_]+", r"\1", e) for e in evs]
                d.setdefault("streams", {})[int(t[0][1:])] = [(e.split(":", 1)[0].split("@") + ["?"])[:2] for e in evs]
            elif t[1] == "err":
                d["err"] = (int(t[0][1:]), t[2])
            else:
                step = int(t[0][1:])
                d["snaps"].append((step, t[1], int(t[2]), parse_state(" " + t[3] if len(t) > 3 else "")))
    return out


def parse_case(text):
    """case block -> dict of settings needed by the monitors"""
    kv = {}
    multi = []
    entry = "pools"
    for l in text.split("\n"):
        t = l.split()
        if not t:
            continue
        if t[0] == "case":
            entry = t[1]
        elif t[0] in ("pht", "comprow", "cells", "suitable", "totpop", "wraster", "temp", "surv", "move", "treat"):
            multi.append(t)
        else:
            kv[t[0]] = t[1:]
    return dict(entry=entry, kv=kv, multi=multi)


def shared_run(ctx, scenarios, label):
    """Runs implementation and model on the scenarios; cached per content."""
    text = "".join(s.text() for s in scenarios)
    h, err = vc.build_harness("hostmodel", sanitize=False)
    if err:
        ctx.broke("harness hostmodel.cpp builds against /repo", err)
        return None
    m, err = vc.build_model("hostmodel")
    if err:
        ctx.broke("model extraction/driver build (hostmodel)", err)
        return None
    key = vc.sha_files([h, m], extra=text)[:24]
    vc.prune_work("hostmodel")
    d = os.path.join(vc.BUILD, "work", "hostmodel", label + "_" + key)
    os.makedirs(d, exist_ok=True)
    cases_p, impl_p, model_p = (os.path.join(d, x) for x in ("cases.txt", "impl.out", "model.out"))
    done = os.path.join(d, "done")
    with vc.Lock("hostrun_" + label):
        if not os.path.exists(done):
            with open(cases_p, "w") as f:
                f.write(text)
            rc, e = vc.run_to_file([h, cases_p], impl_p, timeout=3000)
            if rc != 0:
                # the library crashed (signal) or aborted on a generated in-domain scenario:
                # the scenario being run is the failing input
                last = -1
                for l in open(impl_p, errors="replace"):
                    t = l.split(" ", 1)[0]
                    if t.isdigit():
                        last = max(last, int(t))
                blocks = scenario_texts(cases_p)
                if 0 <= last < len(blocks):
                    ctx.violation("%s.crash.model_run" % ctx.pid,
                                  "the library terminated abnormally (exit %d) while running this in-domain scenario (or the one after it)" % rc,
                                  "".join(blocks[last:last + 2]), e)
                ctx.broke("implementation harness run hostmodel (exit %d)" % rc, e)
                return None
            rc, e = vc.run_to_file([m, cases_p, impl_p], model_p, timeout=3000)
            if rc != 0:
                ctx.broke("model driver run hostmodel (exit %d)" % rc, e)
                return None
            open(done, "w").write("ok")
    return cases_p, impl_p, model_p


def scenario_texts(cases_path):
    blocks = []
    cur = []
    for l in open(cases_path):
        if l.startswith("case "):
            cur = [l]
        elif l.startswith("end"):
            cur.append(l)
            blocks.append("".join(cur))
            cur = []
        elif cur:
            cur.append(l)
    return blocks


def check(ctx, replay=None):
    pid = ctx.pid
    ctx.proof = vc.prove(pid)
    if not ctx.proof.ok:
        ctx.broke("proof obligations of Properties_%s.v%s" % (pid, (" (" + ctx.proof.failed_theorem + ")") if ctx.proof.failed_theorem else ""),
                  "\n".join(ctx.proof.problems) + "\n" + ctx.proof.log[-1500:])
    # operation-level tie: arbitrary sequences of public HostPool calls against the
    # CellDefs/LandDefs functions the cell-level theorems are about (C01-C05, C10, C11)
    hostops.part(ctx, pid, replay)
    # C09: Model::run_step against the same actions applied one by one outside the model
    # (public action classes, legacy Simulation methods) and disabled-input influence
    compose.part(ctx, pid, replay)
    if pid == "C17":
        # pests_from / pests_to of a SINGLE host pool (the path Simulation::move_overpopulated_pests
        # takes; through Model the multi-host pool clamps first) are exercised by the operation-level
        # tie: "an arrival establishes min(count, susceptibles)" belongs to C17 as well
        class PestMoveView:
            def __init__(self, c):
                self._c = c

            def __getattr__(self, n):
                return getattr(self._c, n)

            def violation(self, key, what, case=None, detail=None):
                m = re.match(r"C0[123]\.([a-z_.]+)\.(pests_to|pests_from)$", key)
                if m:
                    self._c.violation("C17.pests.%s.%s" % (m.group(1), m.group(2)), what, case, detail)

            def broke(self, name, detail):
                pass   # reported by the checks the operation-level tie belongs to
        hostops.part(PestMoveView(ctx), "C02", replay)
    if pid == "C11":
        # the Mortality action class with FIXED rate and lag (the path Simulation::mortality takes; the
        # model's own mortality is table-driven) is exercised by the compose module: its comparison of
        # the mortality tracker, died and infected rasters after every step belongs to C11 as well
        class MortalityView:
            def __init__(self, c):
                self._c = c

            def __getattr__(self, n):
                return getattr(self._c, n)

            def violation(self, key, what, case=None, detail=None):
                m = re.match(r"C09\.composition\.(actions|simulation)\.(mortality_tracker|died)$", key)
                if m:
                    self._c.violation("C11.composition.%s.%s" % (m.group(1), m.group(2)), what, case, detail)

            def broke(self, name, detail):
                pass   # reported by C09's own check
        compose.part(MortalityView(ctx), "C09", replay)
    if replay:
        class S:  # a replay file is a sequence of case blocks
            def __init__(self, t):
                self._t = t

            def text(self):
                return self._t
        txt = "".join(l for l in open(replay) if not l.startswith("#"))
        scenarios = [S(txt)]
        label = "replay"
    else:
        n = N_CASES[ctx.tier]
        scenarios = gen.generate(ctx.seed, n)
        # a second stream aimed at this property's own case splits
        scenarios += gen.generate(ctx.seed + 1000, n // 3, focus_weights=mon.FOCUS.get(pid, [None]))
        if pid == "C05":
            import random
            rng = random.Random(ctx.seed * 31 + 5)
            for _ in range(40 if ctx.tier == "quick" else 600):
                scenarios += gen.gen_pair_L0(rng)
        label = "%s_%d" % (ctx.tier, ctx.seed) + ("" if pid not in mon.OWN_STREAM else "_" + pid)
    res = shared_run(ctx, scenarios, label)
    if res is None:
        return
    cases_p, impl_p, model_p = res
    blocks = scenario_texts(cases_p)
    trace = parse_trace(impl_p)
    # correspondence: every line except the tape lines
    ncmp, diffs = vc.diff_outputs(impl_p, model_p, relevant=lambda l: l.split(" ", 3)[2:3] != ["tape"])
    if diffs:
        k, a, b = diffs[0]
        ctx.broke("correspondence host model vs implementation (%d differing scenarios)" % len(diffs),
                  "first differing scenario #%s\nimpl : %s\nmodel: %s\n%s" % (k, (a or "")[:400], (b or "")[:400],
                                                                             blocks[int(k)] if k.isdigit() and int(k) < len(blocks) else ""))
    if pid == "C02" and diffs:
        # the library's own guard ("Mortality[i] is higher than current number of infected hosts",
        # runtime_error thrown after the cohort and the died raster were already changed) fired in a
        # scenario where the model - same inputs, rates within [0, 1] - lets no cohort lose more than
        # it holds: hosts dying in a step exceeded the infected present
        mtrace = parse_trace(model_p)
        for k in sorted(trace):
            e, mt_ = trace[k]["err"], mtrace.get(k)
            if not (e and isinstance(e[0], int) and e[1] == "runtime_error" and mt_ is not None and mt_["err"] != e):
                continue
            got = [s_[1] for s_ in trace[k]["snaps"] if s_[0] == e[0]]
            exp = [s_[1] for s_ in mt_["snaps"] if s_[0] == e[0]]
            if len(exp) > len(got) and exp[:len(got)] == got and exp[len(got)] == "mortality" and k < len(blocks):
                ctx.violation("C02.mortality_exceeds_infected",
                              "step %d: the mortality action was stopped by the library's guard (runtime_error: deaths of a cohort above the "
                              "infected present) although every configured mortality rate is within [0, 1]" % e[0], blocks[k])
                break
    if pid == "C16" and diffs:
        # a complete competency table has a row for every host combination, whatever its score:
        # a lookup that ends in out_of_range while dispersers are generated (the model, with the
        # same table, finds the row) is a lookup not returning the score of the table
        mtrace = parse_trace(model_p)
        for k in sorted(trace):
            e, mt_ = trace[k]["err"], mtrace.get(k)
            if not (e and isinstance(e[0], int) and e[1] == "out_of_range" and mt_ is not None and k < len(blocks)):
                continue
            if mt_["err"] and mt_["err"][1] != "tape_mismatch":
                continue
            pc = parse_case(blocks[k])
            rows_ = [t for t in pc["multi"] if t[0] == "comprow"]
            nh = int(pc["kv"]["hosts"][0])
            got = [s_[1] for s_ in trace[k]["snaps"] if s_[0] == e[0]]
            if pc["entry"] == "pools" and len(rows_) == 2 ** nh and len(set(t[1] for t in rows_)) == 2 ** nh and "generate" not in got:
                ctx.violation("C16.competency.complete_table_lookup",
                              "step %d: generating dispersers ended in out_of_range although the complete competency table has a row for "
                              "every host combination (rows: %s)" % (e[0], " ".join("%s=%s" % (t[1], t[2]) for t in rows_)), blocks[k])
                break
    stats = mon.run_monitor(pid, ctx, blocks, trace)
    if pid == "C12":
        stats["weather_from_distribution"] = weather_part(ctx, replay)
    nontrivial = set()
    for k, b in enumerate(blocks):
        tr = trace.get(k)
        if tr and len(set(s[1] for s in tr["snaps"])) >= 3 and any(tr["tapes"].get(s) for s in tr["tapes"]):
            nontrivial.add(b)
    ctx.coverage.update({
        "evaluations": len(blocks),
        "distinct_nontrivial": len(nontrivial),
        "rule": "scenarios (configuration + landscape + inputs, 1-14 steps of Model::run_step) are generated from VERIF_SEED; "
                "a scenario is non-trivial when at least three different actions ran and at least one random outcome was used; distinct = distinct scenario text",
        "samples": [blocks[0][:1500]] if blocks else [],
        "snapshots_after_individual_actions": sum(len(t["snaps"]) for t in trace.values()),
        "tape_events": sum(len(ev) for t in trace.values() for ev in t["tapes"].values()),
        "lines_compared_model_vs_impl": ncmp,
        "traces_validated_against_impl": len(blocks) - len(diffs),
        "correspondence_diffs": len(diffs),
        "monitor_stats": stats,
    })
    ctx.assumptions += [
        "real parameters are dyadic rationals (exact in binary64); other floating-point effects are outside the Q model",
        "libstdc++ distributions and std::shuffle are not modelled: their outcomes are read from the hook tape and validated",
        "int overflow is outside the model (counts are unbounded Z; generated counts are small)",
    ]


def weather_part(ctx, replay):
    """Environment::update_weather_from_distribution: implementation against the
    extracted model (EnvDefs.v) with the logged normal / uniform variates, and
    the property itself on the implementation: every coefficient in [0, 1], a
    mean outside [0, 1] and mismatching shapes rejected with invalid_argument."""
    import random
    from fractions import Fraction
    rng = random.Random(ctx.seed * 13 + 1)
    stats = dict(cases=0, values=0, fallbacks=0, rejected=0)
    cases = []
    if replay:
        cases = [l for l in vc.read_cases(replay) if l.startswith("W ")]
    else:
        for _ in range(3000 if ctx.tier == "thorough" else 250):
            r, c = rng.choice([(1, 1), (1, 4), (3, 1), (2, 3), (3, 3)])
            sr, sc = (r, c)
            kind = rng.random()
            if kind < 0.08:
                sr, sc = rng.choice([(r + 1, c), (r, c + 1), (c, r) if r != c else (r + 1, c)])
            means = [rng.choice(["0", "1", "1/2", "1/4", "3/4", "1/8", "7/8", "1/1024", "1023/1024"]) for _ in range(r * c)]
            if 0.08 <= kind < 0.2:
                means[rng.randrange(r * c)] = rng.choice(["-1/8", "9/8", "2", "-1", "1025/1024", "-1/1024"])
            # deviations: positive, and exactly 0 ("no uncertainty" - what the repository's own
            # weather test uses; the coefficient is then the mean itself, still to be validated)
            sdpool = ["1/8", "1/2", "1", "2", "8", "1/64", "0", "0"] if rng.random() < 0.7 else ["0"]
            sds = [rng.choice(sdpool) for _ in range(sr * sc)]
            cases.append("W %d %d %d %d %d %s | %s" % (rng.randint(1, 10 ** 6), r, c, sr, sc, " ".join(means), " ".join(sds)))
    if not cases:
        return stats
    h, err = vc.build_harness("weather", sanitize=(ctx.tier == "thorough"))
    m, err2 = vc.build_model("weather")
    if err or err2:
        ctx.broke("weather harness / model build", (err or "") + (err2 or ""))
        return stats
    cp, ip, mp = (os.path.join(ctx.work, x) for x in ("weather.cases", "weather.impl", "weather.model"))
    open(cp, "w").write("\n".join(cases) + "\n")
    vc.run_to_file([h, cp], ip)
    vc.run_to_file([m, cp, ip], mp)
    n, diffs = vc.diff_outputs(ip, mp)
    if diffs:
        k, a, b = diffs[0]
        ctx.broke("correspondence weather-from-distribution model vs implementation (%d differing cases)" % len(diffs),
                  "case %s\nimpl : %s\nmodel: %s" % (cases[int(k)], a, b))

    def q(s):
        num, _, den = s.partition("/")

        def pw(t):
            if "^" in t:
                a, _, b = t.partition("^")
                a = a[:-1]
                if a.endswith("*"):
                    a = a[:-1]
                return (int(a) if a else 1) * 2 ** int(b)
            return int(t)
        return Fraction(pw(num), pw(den) if den else 1)
    out = {}
    for line in open(ip):
        k, _, rest = line.rstrip("\n").partition(" ")
        out.setdefault(int(k), []).append(rest)
    for k, case in enumerate(cases):
        t = case.split()
        r, c, sr, sc = (int(x) for x in t[2:6])
        means = [Fraction(x) for x in t[6:6 + r * c]]
        lines = out.get(k, [])
        res = next((l for l in reversed(lines) if l.startswith(("values", "err"))), "")
        stats["cases"] += 1
        bad_shape = (r, c) != (sr, sc)
        bad_mean = any(m < 0 or m > 1 for m in means)
        if bad_shape or bad_mean:
            stats["rejected"] += 1
            if res != "err:invalid_argument":
                ctx.violation("C12.weather.%s_not_rejected" % ("shape" if bad_shape else "mean"), "update_weather_from_distribution accepted %s: %s" % ("mismatching shapes" if bad_shape else "a mean outside [0,1]", res[:80]), case)
            continue
        if not res.startswith("values"):
            ctx.violation("C12.weather.valid_rejected", "valid mean/deviation rasters rejected: %s" % res, case)
            continue
        # the result line is `values ...`; it is followed by `applied rate,suitability ...`
        vline = [l for l in lines if l.startswith("values")]
        aline = [l for l in lines if l.startswith("applied")]
        vals = [q(x) for x in vline[-1].split()[1:]]
        stats["values"] += len(vals)
        if not aline:
            ctx.violation("C12.weather.not_applied", "no applied line in the harness output", case)
            continue
        for j, pair in enumerate(aline[-1].split()[1:]):
            a, b = (q(x) for x in pair.split(","))
            if a != 4 * vals[j] or b != vals[j] / 4:
                ctx.violation("C12.weather.not_applied", "cell %d: generated coefficient %s, but reproductive rate 4 becomes %s and suitability 1/4 becomes %s" % (j, vals[j], a, b), case)
                break
        stats["fallbacks"] += sum(1 for d in (lines[0].split()[1:] if lines else []) if not d.endswith(":-"))
        if len(vals) != r * c or any(v < 0 or v > 1 for v in vals):
            ctx.violation("C12.weather.out_of_range", "weather coefficients outside [0,1]: %s" % res[:120], case)
    return stats
