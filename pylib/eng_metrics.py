"""Metrics engine: C18 (reported metrics equal their definitions computed from
the infected raster).

Case (one line, see harness/metrics.cpp and ocaml/drv_metrics.ml):
  M rows cols ew ns dirs T R nsuit <i j>*nsuit <areas rows*cols>
    <R runs x (T+1) infected rasters x rows*cols>
One case is a set of R runs over the same landscape; each run is a sequence of
T+1 infected rasters (the initial one given to the SpreadRateAction constructor
and T measurements).  Measurement t of the quarantine metric uses raster t+1.

The monitor re-computes every metric from the rasters with Python integers and
Fractions, independently of the Coq model, and is evaluated on the
implementation's output only.
"""
import itertools
import os
import random
from fractions import Fraction

import vcommon as vc

PROPERTIES = ["C18"]

DIR_DEG = {"N": 0, "S": 180, "E": 90, "W": 270}
DEG_DIR = {v: k for k, v in DIR_DEG.items()}
NONE_DEG = 316
MAX_ROWS, MAX_COLS = 6, 7


# ---------------------------------------------------------------- case text
class Case:
    def __init__(self, rows, cols, ew, ns, dirs, suit, areas, runs):
        self.rows, self.cols = rows, cols
        self.ew, self.ns = ew, ns  # Fractions
        self.dirs = dirs  # "-" or "N,S"
        self.suit = suit  # list of (i, j)
        self.areas = areas  # list of rows lists
        self.runs = runs  # runs[r][t] = raster (list of row lists)

    @property
    def T(self):
        return len(self.runs[0]) - 1

    def enabled(self):
        return ["N", "S", "E", "W"] if self.dirs == "-" else [d for d in "NSEW" if d in self.dirs.split(",")]

    def line(self):
        out = ["M", str(self.rows), str(self.cols), "%d/%d" % (self.ew.numerator, self.ew.denominator),
               "%d/%d" % (self.ns.numerator, self.ns.denominator), self.dirs, str(self.T), str(len(self.runs)),
               str(len(self.suit))]
        for i, j in self.suit:
            out += [str(i), str(j)]
        flat = lambda r: [str(v) for row in r for v in row]
        out += flat(self.areas)
        for run in self.runs:
            for r in run:
                out += flat(r)
        return " ".join(out)


def parse_case(line):
    t = line.split()
    assert t[0] == "M"
    pos = [1]

    def tok():
        pos[0] += 1
        return t[pos[0] - 1]

    rows, cols = int(tok()), int(tok())
    ew, ns = Fraction(tok()), Fraction(tok())
    dirs = tok()
    T, R, nsuit = int(tok()), int(tok()), int(tok())
    suit = [(int(tok()), int(tok())) for _ in range(nsuit)]

    def raster():
        return [[int(tok()) for _ in range(cols)] for _ in range(rows)]

    areas = raster()
    runs = [[raster() for _ in range(T + 1)] for _ in range(R)]
    return Case(rows, cols, ew, ns, dirs, suit, areas, runs)


# ---------------------------------------------------------------- generator
RES_INT = [1, 2, 3, 10, 30, 100]
RES_FRAC = [Fraction(1, 2), Fraction(1, 4), Fraction(3, 2), Fraction(5, 4), Fraction(3, 8), Fraction(7, 2),
            Fraction(1, 8), Fraction(5, 2)]
DIR_SUBSETS = [",".join(s) for n in range(1, 5) for s in itertools.combinations("NSEW", n)]


def gen_resolutions(rng):
    mode = rng.random()
    if mode < 0.6:
        ew, ns = Fraction(rng.choice(RES_INT)), Fraction(rng.choice(RES_INT))
    elif mode < 0.8:
        ew, ns = rng.choice(RES_FRAC), rng.choice(RES_FRAC)
    elif mode < 0.9:
        ew, ns = Fraction(rng.choice(RES_INT)), rng.choice(RES_FRAC)
    else:
        ew, ns = rng.choice(RES_FRAC), Fraction(rng.choice(RES_INT))
    if ew == ns and rng.random() < 0.85:
        ew = ew * 2 if rng.random() < 0.5 else ew + 1
    return ew, ns


def gen_dirs(rng):
    if rng.random() < 0.12:
        return "-"
    s = rng.choice(DIR_SUBSETS).split(",")
    rng.shuffle(s)
    return ",".join(s)


def gen_areas(rng, rows, cols):
    mode = rng.choice(["none", "full", "blocks", "blocks", "blocks", "scatter", "ring", "halves"])
    ids = rng.sample([1, 2, 3, 4, 5, 7, 9, 12], 4)
    a = [[0] * cols for _ in range(rows)]
    if mode == "full":
        a = [[ids[0]] * cols for _ in range(rows)]
    elif mode == "blocks":
        for k in range(rng.randint(1, 4)):
            i0, i1 = sorted((rng.randrange(rows), rng.randrange(rows)))
            j0, j1 = sorted((rng.randrange(cols), rng.randrange(cols)))
            for i in range(i0, i1 + 1):
                for j in range(j0, j1 + 1):
                    a[i][j] = ids[k]
    elif mode == "scatter":
        for i in range(rows):
            for j in range(cols):
                a[i][j] = rng.choice([0, ids[0], ids[0], ids[1], ids[2]])
    elif mode == "ring":
        for i in range(rows):
            for j in range(cols):
                if 0 < i < rows - 1 and 0 < j < cols - 1:
                    a[i][j] = ids[0]
    elif mode == "halves":
        cut = rng.randrange(cols + 1)
        for i in range(rows):
            for j in range(cols):
                a[i][j] = ids[0] if j < cut else ids[1]
    if mode in ("full", "blocks", "halves") and rng.random() < 0.3:
        for _ in range(rng.randint(1, 3)):
            a[rng.randrange(rows)][rng.randrange(cols)] = 0
    return a


def gen_suit(rng, rows, cols):
    allc = [(i, j) for i in range(rows) for j in range(cols)]
    mode = rng.random()
    if mode < 0.55:
        return allc, True
    keep = [c for c in allc if rng.random() < rng.choice([0.5, 0.8])]
    if not keep:
        keep = [rng.choice(allc)]
    if rng.random() < 0.3:
        rng.shuffle(keep)
    return keep, False


def gen_run(rng, rows, cols, T, allowed):
    """A sequence of T+1 infected rasters: infection appearing, growing, moving,
    touching edges, standing still and disappearing, inside `allowed`."""
    allowed = list(allowed)
    aset = set(allowed)
    cur = {}
    if allowed and rng.random() < 0.8:
        for _ in range(rng.choice([1, 1, 2, 3])):
            cur[rng.choice(allowed)] = rng.randint(1, 9)
    seq = []
    for t in range(T + 1):
        if t > 0:
            op = rng.choice(["grow", "grow", "shift", "edge", "same", "same", "vanish", "seed", "thin"])
            if op == "grow":
                for (i, j) in list(cur):
                    for di, dj in ((0, 1), (1, 0), (0, -1), (-1, 0)):
                        c = (i + di, j + dj)
                        if c in aset and rng.random() < 0.5:
                            cur[c] = cur.get(c, 0) + rng.randint(1, 5)
            elif op == "shift":
                di, dj = rng.choice([(0, 1), (1, 0), (0, -1), (-1, 0), (1, 1), (-1, -1), (2, 0), (0, -2)])
                nxt = {}
                for (i, j), v in cur.items():
                    c = (i + di, j + dj)
                    if c in aset:
                        nxt[c] = v
                cur = nxt
            elif op == "edge":
                edge = [c for c in allowed if c[0] in (0, rows - 1) or c[1] in (0, cols - 1)]
                if edge:
                    cur[rng.choice(edge)] = rng.randint(1, 9)
            elif op == "vanish":
                cur = {}
            elif op == "seed":
                if allowed:
                    cur[rng.choice(allowed)] = rng.choice([1, 2, 1 << 20])
            elif op == "thin":
                for c in list(cur):
                    if rng.random() < 0.4:
                        del cur[c]
        r = [[0] * cols for _ in range(rows)]
        for (i, j), v in cur.items():
            r[i][j] = v
        seq.append(r)
    return seq


def gen_case(rng, rows, cols, ood=False):
    ew, ns = gen_resolutions(rng)
    dirs = gen_dirs(rng)
    areas = gen_areas(rng, rows, cols)
    suit, _complete = gen_suit(rng, rows, cols)
    T = rng.randint(1, 5)
    R = rng.choice([1, 1, 2, 2, 3, 4, 5, 6, 8])
    allc = [(i, j) for i in range(rows) for j in range(cols)]
    base = suit if rng.random() < 0.85 else allc
    inside = [c for c in base if areas[c[0]][c[1]] > 0]
    runs = []
    for _ in range(R):
        allowed = inside if (inside and rng.random() < 0.7) else base
        runs.append(gen_run(rng, rows, cols, T, allowed))
    c = Case(rows, cols, ew, ns, dirs, suit, areas, runs)
    if ood:
        # outside the property's domain (negative counts / area ids): model vs code only
        if rng.random() < 0.5:
            run = rng.choice(runs)
            rr = rng.choice(run)
            rr[rng.randrange(rows)][rng.randrange(cols)] = -rng.randint(1, 3)
        else:
            areas[rng.randrange(rows)][rng.randrange(cols)] = -rng.randint(1, 3)
    return c


def hand_case(rows, cols, ew, ns, dirs, areas, runs, suit=None):
    if suit is None:
        suit = [(i, j) for i in range(rows) for j in range(cols)]
    return Case(rows, cols, Fraction(ew), Fraction(ns), dirs, suit, areas, runs).line()


def corpus():
    """Hand-made cases run first on every check."""
    z52 = lambda cells: [[cells.get((i, j), 0) for j in range(2)] for i in range(5)]
    z25 = lambda cells: [[cells.get((i, j), 0) for j in range(5)] for i in range(2)]
    full = lambda r, c, v=1: [[v] * c for _ in range(r)]
    out = []
    # rows > cols: the box moves north by one row (rows/cols mix-up shows here)
    out.append(hand_case(5, 2, 10, 10, "-", full(5, 2), [[z52({(4, 0): 1}), z52({(4, 0): 1, (3, 0): 1})]]))
    # rows < cols: the box moves east to the last column, then stays (undefined)
    out.append(hand_case(2, 5, 10, 20, "-", full(2, 5),
                         [[z25({(0, 2): 1}), z25({(0, 2): 1, (0, 4): 3}), z25({(0, 2): 1, (0, 4): 3})]]))
    # on a 5x2 raster column 1 is the east edge; row 1 is not the south edge
    out.append(hand_case(5, 2, 10, 10, "-", full(5, 2),
                         [[z52({(1, 1): 1}), z52({(1, 1): 2}), z52({(1, 1): 2, (4, 1): 1}), z52({(4, 1): 1})]]))
    # fractional resolution: one row below the north edge of the area (distance 1/2)
    a53 = full(5, 3)
    z53 = lambda cells: [[cells.get((i, j), 0) for j in range(3)] for i in range(5)]
    out.append(hand_case(5, 3, Fraction(1, 2), Fraction(1, 2), "N,S", a53, [[z53({}), z53({(1, 1): 1})]]))
    # ns resolution 1/4, centre cell: north and south equally near (1/2)
    out.append(hand_case(5, 3, 1, Fraction(1, 4), "N,S", a53, [[z53({}), z53({(2, 1): 1})]]))
    # the layout of test_quarantine.cpp on a non-square extension
    areas = [[0, 1, 1, 0, 0, 0], [0, 0, 1, 4, 0, 0], [0, 0, 4, 4, 4, 0], [0, 3, 4, 4, 4, 0], [0, 0, 0, 4, 0, 0]]
    z56 = lambda cells: [[cells.get((i, j), 0) for j in range(6)] for i in range(5)]
    out.append(hand_case(5, 6, 10, 30, "N,S", areas,
                         [[z56({}), z56({(2, 3): 1}), z56({(2, 3): 1, (3, 3): 1}), z56({(1, 2): 1, (2, 3): 1, (3, 2): 1, (3, 3): 1})],
                          [z56({}), z56({(1, 3): 1}), z56({(1, 3): 1, (2, 3): 1}), z56({(0, 3): 1, (1, 2): 1, (2, 3): 1})]]))
    return out


def generate(tier, seed, path):
    rng = random.Random(seed * 104729 + 18)
    thorough = tier == "thorough"
    cases = corpus()
    cdir = os.path.join(vc.VERIF, "corpus", "metrics")
    if os.path.isdir(cdir):
        for f in sorted(os.listdir(cdir)):
            cases += vc.read_cases(os.path.join(cdir, f))
    per_shape = 1200 if thorough else 26
    shapes = [(r, c) for r in range(1, MAX_ROWS + 1) for c in range(1, MAX_COLS + 1)]
    for (r, c) in shapes:
        for k in range(per_shape):
            cases.append(gen_case(rng, r, c, ood=(k % 25 == 24)).line())
    with open(path, "w") as f:
        f.write("\n".join(cases) + "\n")
    return cases


# ------------------------------------------------------------------ monitor
def pnum(s):
    """Exact value of a number printed by canon(): None for nan, 'max', or a Fraction."""
    if s == "nan":
        return None
    if s == "max":
        return "max"
    if s == "0":
        return Fraction(0)
    if "p" not in s:
        return s    # inf, -inf or anything else the implementation printed: equal to no documented value
    m, e = s.split("p")
    return Fraction(int(m)) * Fraction(2) ** int(e)


def as_double(fr):
    """The binary64 nearest to an exact rational, as an exact Fraction."""
    return Fraction(float(fr))


def lround(fr):
    if fr >= 0:
        return (fr + Fraction(1, 2)).__floor__()
    return -((-fr + Fraction(1, 2)).__floor__())


def group_output(path):
    out = {}
    with open(path, errors="replace") as f:
        for line in f:
            line = line.rstrip("\n")
            if not line:
                continue
            k, rest = line.split(" ", 1)
            out.setdefault(int(k), []).append(rest)
    return out


def in_domain(c):
    """Counts and area ids are non-negative, suitable cells lie in the raster."""
    if any(v < 0 for row in c.areas for v in row):
        return False
    if any(v < 0 for run in c.runs for r in run for row in r for v in row):
        return False
    return all(0 <= i < c.rows and 0 <= j < c.cols for i, j in c.suit)


def spec_box(cells):
    if not cells:
        return None
    return (min(i for i, _ in cells), max(i for i, _ in cells), max(j for _, j in cells), min(j for _, j in cells))


def side_distance(c, box, cell, d):
    n, s, e, w = box
    i, j = cell
    if d == "N":
        return (i - n) * c.ns
    if d == "S":
        return (s - i) * c.ns
    if d == "E":
        return (e - j) * c.ew
    return (j - w) * c.ew


def monitor_case(c, line, lines, ctx, stats):
    """Evaluates the clauses of C18 on the implementation's output of one case."""
    if not in_domain(c):
        stats["out_of_domain"] += 1
        return
    got = {}
    for l in lines:
        p = l.split(" ")
        if p[0] == "q" and len(p) == 3:
            # the run raised an exception: "q <run> err:<kind>"
            for tt in range(c.T):
                got[("q", int(p[1]), tt)] = [p[2]]
        elif p[0] in ("bbox", "rate", "q", "sum", "area"):
            got[(p[0], int(p[1]), int(p[2]))] = p[3:]
        elif p[0] in ("avg", "prob", "dd"):
            got[(p[0], int(p[1]))] = p[2:]
        elif p[0] == "csv":
            got[("csv",)] = l[4:]
    T, R = c.T, len(c.runs)
    fractional = c.ew.denominator != 1 or c.ns.denominator != 1
    en = c.enabled()

    def viol(key, what, r=None, t=None):
        ctx.violation(key, what, line, "rows=%d cols=%d ew=%s ns=%s dirs=%s run=%s measurement=%s" % (
            c.rows, c.cols, c.ew, c.ns, c.dirs, r, t))
        stats.setdefault("violations_by_key", {})
        stats["violations_by_key"][key] = stats["violations_by_key"].get(key, 0) + 1
        if r is not None and key not in stats["_reduce"]:
            stats["_reduce"][key] = (c, r, t)

    area_cells = {}
    for i in range(c.rows):
        for j in range(c.cols):
            if c.areas[i][j] > 0:
                area_cells.setdefault(c.areas[i][j], []).append((i, j))
    area_box = {a: spec_box(cs) for a, cs in area_cells.items()}

    for r in range(R):
        boxes = []
        for t in range(T + 1):
            ras = c.runs[r][t]
            inf = [(i, j) for (i, j) in c.suit if ras[i][j] > 0]
            box = spec_box(inf)
            boxes.append(box)
            # bounding box = min/max row/col over infected suitable cells, all -1 when none
            exp = [str(v) for v in (box if box else (-1, -1, -1, -1))]
            g = got.get(("bbox", r, t))
            stats["boxes"] += 1
            if g != exp:
                viol("C18.bbox", "bounding box of run %d raster %d is %s, infected suitable cells span %s" % (r, t, g, exp), r, t)
            # sum and area
            stats["sums"] += 1
            s = sum(ras[i][j] for (i, j) in c.suit)
            g = got.get(("sum", r, t))
            if g != [str(s)]:
                viol("C18.sum", "sum_of_infected is %s, the infected cells sum to %d" % (g, s), r, t)
            a = len(inf) * c.ew * c.ns
            g = got.get(("area", r, t))
            if g is None or pnum(g[0]) != a:
                viol("C18.area", "area_of_infected is %s, %d infected cells x %s x %s = %s" % (g, len(inf), c.ew, c.ns, a), r, t)
        for t in range(T):
            prev, cur = boxes[t], boxes[t + 1]
            g = got.get(("rate", r, t))
            if g is None:
                viol("C18.rate.missing", "no rate reported", r, t)
                continue
            vals = [pnum(x) for x in g]
            if cur is None:
                stats["rates_no_infection"] += 1
                if any(v is not None for v in vals):
                    viol("C18.rate.undefined.no_infection", "no infection but rates are %s" % g, r, t)
                continue
            if prev is None:
                stats["rates_skipped_no_previous"] += 1
                continue  # a rate is compared only when the previous measurement found infection
            stats["rates_compared"] += 1
            disp = {"N": prev[0] - cur[0], "S": cur[1] - prev[1], "E": cur[2] - prev[2], "W": prev[3] - cur[3]}
            res = {"N": c.ns, "S": c.ns, "E": c.ew, "W": c.ew}
            touch = {"N": cur[0] == 0, "S": cur[1] == c.rows - 1, "E": cur[2] == c.cols - 1, "W": cur[3] == 0}
            for idx, d in enumerate("NSEW"):
                undefined = touch[d] and disp[d] == 0
                if undefined:
                    stats["rates_undefined_edge"] += 1
                    if vals[idx] is not None:
                        viol("C18.rate.undefined.%s" % d, "the box touches the %s edge and did not move, rate is %s" % (d, g[idx]), r, t)
                else:
                    exp = disp[d] * res[d]
                    if vals[idx] is None:
                        viol("C18.rate.defined.%s" % d, "rate %s is undefined although the box %s" % (
                            d, "moved by %d" % disp[d] if disp[d] else "does not touch that edge"), r, t)
                    elif vals[idx] != exp:
                        viol("C18.rate.value.%s" % d, "rate %s is %s, displacement %d x resolution %s = %s" % (d, vals[idx], disp[d], res[d], exp), r, t)
        # quarantine
        for t in range(T):
            ras = c.runs[r][t + 1]
            inf = [(i, j) for (i, j) in c.suit if ras[i][j] != 0]
            g = got.get(("q", r, t))
            if g is None or len(g) != 3:
                viol("C18.escape.exception", "no quarantine record, the run ended with: %s" % g, r, t)
                continue
            esc, dist, deg = g[0] == "1", pnum(g[1]), int(g[2])
            outside = [x for x in inf if c.areas[x[0]][x[1]] == 0]
            stats["quarantine_records"] += 1
            if esc != bool(outside):
                viol("C18.escape", "escape reported %s, infected cells outside every area: %s" % (esc, outside[:3]), r, t)
                continue
            if esc:
                stats["escapes"] += 1
                if dist is not None or deg != NONE_DEG:
                    viol("C18.escape.report", "escaped but distance/direction are %s/%s" % (g[1], g[2]), r, t)
                continue
            if not inf:
                continue
            stats["nearest_checked"] += 1
            cand = []  # (distance, direction, cell)
            for x in inf:
                b = area_box[c.areas[x[0]][x[1]]]
                for d in en:
                    cand.append((side_distance(c, b, x, d), d, x))
            dmin = min(v for v, _, _ in cand)
            gd = DEG_DIR.get(deg)
            exact = dist == dmin and gd in en and any(v == dmin and d == gd for v, d, _ in cand)
            if exact:
                continue
            what = "reported distance %s direction %s; nearest infected cell is at %s towards %s" % (
                g[1] if dist is None or dist == "max" else dist, gd or deg, dmin,
                sorted(set(d for v, d, _ in cand if v == dmin)))
            if fractional and dist not in (None, "max"):
                # distances are rounded with lround into an int before they are compared
                rounded = dist == lround(dmin) and gd in en and any(lround(v) == dist and d == gd for v, d, _ in cand)
                if rounded:
                    stats["nearest_fractional_rounded"] += 1
                    viol("C18.nearest.fractional_resolution", what + " (the rounded value of it)", r, t)
                    continue
            viol("C18.nearest.direction" if dist == dmin else "C18.nearest.distance", what, r, t)
    # aggregates over runs, from the implementation's own per-run values
    for t in range(T):
        g = got.get(("avg", t))
        for idx, d in enumerate("NSEW"):
            vals = []
            for r in range(R):
                x = got.get(("rate", r, t))
                v = pnum(x[idx]) if x else None
                if v is not None:
                    vals.append(v)
            exp = as_double(sum(vals) / len(vals)) if vals else None
            stats["averages"] += 1
            gv = pnum(g[idx]) if g else "missing"
            if gv != exp:
                viol("C18.average_rate", "average %s rate of measurement %d is %s, mean of the %d defined values is %s" % (
                    d, t, g[idx] if g else None, len(vals), exp))
        recs = [got.get(("q", r, t)) for r in range(R)]
        if any(x is None or len(x) != 3 for x in recs):
            continue
        p = as_double(Fraction(sum(1 for x in recs if x[0] == "1"), R))
        g = got.get(("prob", t))
        stats["probabilities"] += 1
        if g is None or pnum(g[0]) != p:
            viol("C18.escape_probability", "escape probability of measurement %d is %s, %d of %d runs escaped" % (
                t, g, sum(1 for x in recs if x[0] == "1"), R))
        g = got.get(("dd", t))
        exp = [y for x in recs for y in x[1:]]
        if g != exp:
            viol("C18.report.distances", "distance_direction_to_quarantine gives %s, per-run values are %s" % (g, exp))
    recs_ok = all(got.get(("q", r, t)) is not None and len(got[("q", r, t)]) == 3 for r in range(R) for t in range(T))
    if recs_ok:
        txt = "step,escape_probability" + "".join(",dist%d,dir%d" % (r, r) for r in range(R)) + "|"
        for t in range(T):
            esc = sum(1 for r in range(R) if got[("q", r, t)][0] == "1")
            txt += "%d,%.1f" % (t, esc / R)
            for r in range(R):
                _, ds, dg = got[("q", r, t)]
                d = pnum(ds)
                if d is None:
                    txt += ",,"
                elif d == "max":
                    txt += ",%.1f,%s" % (1.7976931348623157e308, dg)
                else:
                    txt += ",%.1f,%s" % (float(d), dg)
            txt += "|"
        stats["csv"] += 1
        if got.get(("csv",)) != txt:
            viol("C18.report.csv", "write_quarantine_escape gives %r, expected %r" % ((got.get(("csv",)) or "")[:200], txt[:200]))


def new_stats():
    return {"cases": 0, "out_of_domain": 0, "boxes": 0, "sums": 0, "rates_compared": 0, "rates_no_infection": 0,
            "rates_skipped_no_previous": 0, "rates_undefined_edge": 0, "quarantine_records": 0, "escapes": 0,
            "nearest_checked": 0, "nearest_fractional_rounded": 0, "averages": 0, "probabilities": 0, "csv": 0,
            "_reduce": {}}


def monitor(cases, out, ctx):
    stats = new_stats()
    for k, line in enumerate(cases):
        if not line.startswith("M "):
            continue
        stats["cases"] += 1
        monitor_case(parse_case(line), line, out.get(k, []), ctx, stats)
    return stats


def nontrivial(line):
    """A case is non-trivial when some run has two consecutive measurements with
    infection (a rate is compared) and some quarantine area exists."""
    c = parse_case(line)
    if not any(v > 0 for row in c.areas for v in row):
        return False
    for run in c.runs:
        has = [any(r[i][j] > 0 for (i, j) in c.suit) for r in run]
        if any(a and b for a, b in zip(has, has[1:])):
            return True
    return False


# ---------------------------------------------------------------- execution
def run_engine(ctx, cases_path, tag=""):
    h, err = vc.build_harness("metrics", sanitize=(ctx.tier == "thorough"))
    if err:
        ctx.broke("harness metrics.cpp builds against /repo", err)
        return None, None
    m, err = vc.build_model("metrics")
    if err:
        ctx.broke("model extraction/driver build", err)
        return None, None
    impl = os.path.join(ctx.work, "impl%s.out" % tag)
    model = os.path.join(ctx.work, "model%s.out" % tag)
    rc, e = vc.run_to_file([h, cases_path], impl)
    if rc != 0:
        ctx.broke("implementation harness run (exit %d)" % rc, e)
    rc, e = vc.run_to_file([m, cases_path], model)
    if rc != 0:
        ctx.broke("model driver run (exit %d)" % rc, e)
    return impl, model


class _Collect:
    """Stand-in for Ctx when re-checking reduced cases."""

    def __init__(self):
        self.keys = set()

    def violation(self, key, what, case=None, detail=None):
        self.keys.add(key)


def minimise(ctx, stats):
    """For violations located in one run and measurement: re-run the single run
    restricted to the two rasters involved; when the same key is reported again
    the replay holds that reduced case instead of the whole set of runs."""
    todo = stats.pop("_reduce", {})
    if not todo:
        return
    h, err = vc.build_harness("metrics", sanitize=(ctx.tier == "thorough"))
    if err:
        return
    keys = sorted(todo)
    reduced = []
    for key in keys:
        c, r, t = todo[key]
        run = c.runs[r]
        if key.startswith(("C18.bbox", "C18.sum", "C18.area")):
            lo = max(0, min(t, len(run) - 2))
        else:
            lo = t
        reduced.append(Case(c.rows, c.cols, c.ew, c.ns, c.dirs, c.suit, c.areas, [run[lo:lo + 2]]).line())
    path = os.path.join(ctx.work, "reduced.txt")
    with open(path, "w") as f:
        f.write("\n".join(reduced) + "\n")
    outp = os.path.join(ctx.work, "reduced.out")
    rc, _ = vc.run_to_file([h, path], outp)
    if rc != 0:
        return
    out = group_output(outp)
    for k, key in enumerate(keys):
        col = _Collect()
        st = new_stats()
        monitor_case(parse_case(reduced[k]), reduced[k], out.get(k, []), col, st)
        if key in col.keys:
            for v in ctx.violations:
                if v.key == key:
                    v.detail = (v.detail or "") + "\nreduced to one run and two rasters; first seen in: " + v.case[:300]
                    v.case = reduced[k]
                    break


def check(ctx, replay=None):
    pid = ctx.pid
    ctx.proof = vc.prove(pid)
    if not ctx.proof.ok:
        ctx.broke("proof obligations of Properties_%s.v%s" % (pid, (" (" + ctx.proof.failed_theorem + ")") if ctx.proof.failed_theorem else ""),
                  "\n".join(ctx.proof.problems) + "\n" + ctx.proof.log[-1500:])
    cases_path = os.path.join(ctx.work, "cases.txt")
    if replay:
        cases = vc.read_cases(replay)
        with open(cases_path, "w") as f:
            f.write("\n".join(cases) + "\n")
    else:
        cases = generate(ctx.tier, ctx.seed, cases_path)
    impl, model = run_engine(ctx, cases_path)
    if impl is None:
        return
    out = group_output(impl)
    stats = monitor(cases, out, ctx)
    minimise(ctx, stats)
    ncmp, diffs = vc.diff_outputs(impl, model)
    if diffs:
        k, a, b = diffs[0]
        ctx.broke("correspondence metrics model vs implementation (%d differing cases)" % len(diffs),
                  "first differing case #%s: %s\nimpl : %s\nmodel: %s" % (
                      k, cases[int(k)] if k.isdigit() and int(k) < len(cases) else "?", a, b))
    shapes = {}
    for c in cases:
        t = c.split(" ", 3)
        shapes[t[1] + "x" + t[2]] = shapes.get(t[1] + "x" + t[2], 0) + 1
    distinct = set(cases)
    ctx.coverage.update({
        "evaluations": len(cases),
        "distinct_nontrivial": len([c for c in distinct if nontrivial(c)]),
        "rule": "one case = a set of 1-8 runs over one landscape (shape, two resolutions, enabled directions, suitable-cell list, "
                "quarantine-area raster), each run a sequence of 2-6 infected rasters; generated from VERIF_SEED for every shape "
                "1x1..6x7; distinct = distinct case lines; non-trivial = some quarantine area exists and some run has two "
                "consecutive measurements with infection (so that a rate is compared)",
        "samples": [cases[0][:400], cases[len(cases) // 2][:400], cases[-1][:400]],
        "exhaustive": False,
        "shapes": len(shapes),
        "cases_per_shape_min": min(shapes.values()) if shapes else 0,
        "monitor_stats": stats,
        "lines_compared_model_vs_impl": ncmp,
        "traces_validated_against_impl": ncmp,
        "correspondence_diffs": len(diffs),
    })
    ctx.assumptions += [
        "counts, indices and area ids are unbounded Z in the model (no int overflow); distances below INT_MAX",
        "resolutions are positive; generated resolutions are integers or dyadic rationals so that double arithmetic is exact",
        "averages and probabilities over runs: one correctly rounded IEEE division of exact operands on both sides",
        "write_quarantine_escape: '%.1f' of the escape probability equals half-even rounding of the exact quotient when the "
        "number of runs is not a multiple of 20 (generated sets have at most 8 runs)",
        "directions_from_string (text tokenising) is not modelled; the model receives the four flags",
        "the area raster given to action() is the one given to the constructor",
    ]
