"""Network engine: C15 (network trips start at nodes, stay on the network, honour
cost, snap and clip).

One case = one line (read by harness/network.cpp and ocaml/drv_network.ml):

  NET north south east west ew_res ns_res allow_empty TEXT query*

TEXT is the network stream with '|' for newline ('~' = empty stream); numbers are
exact decimals of dyadic rationals.  Queries (fields separated by ':'):
  W:row:col:distance:jump:seed      Network::walk
  T:row:col:steps:seed              Network::teleport
  K:row:col:movement:distance:seed  kernel from create_anthro_kernel, Config::network_movement,
                                    network_min_distance = network_max_distance = distance
  D:row:col:w|j|t:distance:seed     NetworkDispersalKernel's own constructors
  R:row:col:w|j:dmin:dmax:seed      same, random distance (monitor only)
  S:a:b                             get_segment(a, b): cells, front, back, cost
  C:a:b:cost                        get_segment(a, b).cell_by_cost(cost)
  X:node:ignore:seed                next_node(node, ignore)
  E:row:col                         is_cell_eligible / has_node_at

The implementation prints one result per query ("cell r,c", "err:<kind>",
"timeout", "crash:<n>"); the model prints the set of results reachable over all
random picks ("set a | b | ...").  Correspondence = exact equality of the loaded
tables and of deterministic queries, membership (equality when the set is a
singleton) for random ones.

The monitor below re-derives everything from the case line in Python with exact
rationals, independently of the Coq model: which records are kept, their merged
cells and costs, the nodes, the outcomes of walks by a search over all choices,
snapping and adjacency.
"""
import os
import random
import re
from fractions import Fraction as F

import vcommon as vc

PROPERTIES = ["C15"]

STEP_CAP = 3000          # a chain of more segments than this is "does not terminate"
LEAF_BUDGET = 1500       # expansions allowed when enumerating the outcomes of one walk


# ---------------------------------------------------------------- exact numbers
def fmt(q):
    """Exact decimal text of a dyadic rational."""
    q = F(q)
    n, d = q.numerator, q.denominator
    k = d.bit_length() - 1
    assert d == 1 << k, q
    if k == 0:
        return str(n)
    s = str(abs(n) * 5 ** k).rjust(k + 1, "0")
    out = (s[:-k] + "." + s[-k:]).rstrip("0").rstrip(".")
    return ("-" if n < 0 else "") + out


def fracs(q):
    q = F(q)
    return str(q.numerator) if q.denominator == 1 else "%d/%d" % (q.numerator, q.denominator)


DEC = re.compile(r"[+-]?(\d+(\.\d*)?|\.\d+)")
INT = re.compile(r"[+-]?\d+")


def parse_dec(s):
    """What std::stod makes of s on the generator's character set."""
    m = DEC.match(s)
    if not m:
        return "err:invalid_argument"
    t = m.group(0)
    if t.endswith("."):
        t += "0"
    return F(t)


def parse_int(s):
    m = INT.match(s)
    if not m:
        return "err:invalid_argument"
    v = int(m.group(0))
    if v > 2147483647 or v < -2147483648:
        return "err:out_of_range"
    return v


def gsplit(s, d):
    """Pieces std::getline(stream, piece, d) yields."""
    if s == "":
        return []
    parts = s.split(d)
    if parts[-1] == "":
        parts.pop()
    return parts


def floor_div(a, b):
    return (a / b).__floor__()


def lround(x):
    x = F(x)
    return (x + F(1, 2)).__floor__() if x >= 0 else -((-x + F(1, 2)).__floor__())


# ------------------------------------------------- specification-side network
class Edge:
    def __init__(self, a, b, cells, cost, cpc, prob, stated):
        self.a, self.b, self.cells, self.cost, self.cpc, self.prob, self.stated = a, b, cells, cost, cpc, prob, stated


class Net:
    """What the documentation says a loaded network is, derived from the text."""

    def __init__(self):
        self.load = "ok"
        self.kept = []        # Edge per record whose two end nodes lie inside, in stream order
        self.dropped = 0
        self.dup_pairs = set()
        self.edges = {}       # (a, b) -> Edge for distinct node pairs
        self.nodes_at = {}    # cell -> sorted node ids
        self.adj = {}         # node -> list of (neighbour, probability)
        self.cells = set()
        self.has_prob = False
        self.has_cost = False
        self.nonpositive_cost = False

    def view(self, a, b):
        """(cells in travel direction, Edge) of the segment between a and b."""
        if (a, b) in self.edges:
            e = self.edges[(a, b)]
            return e.cells, e
        e = self.edges[(b, a)]
        return e.cells[::-1], e


def header_flags(first_line):
    """(has_cost, has_prob, consumed) or an error kind."""
    labels = gsplit(first_line, ",") if first_line is not None else []
    if not labels:
        return (False, False, True)
    if labels[0] != "node_1":
        return (False, False, False)
    hc = hp = False
    for i, lab in enumerate(labels, 1):
        if lab == "probability":
            if hc or i != 3:
                return "err:runtime_error"
            hp = True
        elif lab == "cost":
            if i not in (3, 4):
                return "err:runtime_error"
            hc = True
    return (hc, hp, True)


def derive(t):
    """Specification-side reading of a case line (token list)."""
    net = Net()
    north, south, east, west, ew, ns = (F(x) for x in t[1:7])
    allow_empty = t[7] == "1"
    net.grid = (north, south, east, west, ew, ns)
    lines = [] if t[8] == "~" else t[8].split("|")
    max_row = floor_div(north - south, ns)
    max_col = floor_div(east - west, ew)
    net.max_row, net.max_col = max_row, max_col

    def inside(c):
        return 0 <= c[0] <= max_row and 0 <= c[1] <= max_col

    h = header_flags(lines[0] if lines else None)
    if isinstance(h, str):
        net.load = h
        return net
    hc, hp, consumed = h
    net.has_cost, net.has_prob = hc, hp
    recs = lines[1:] if consumed else lines
    dpc = (ew + ns) / 2
    for line in recs:
        f = gsplit(line, ",")
        g = lambda j: f[j] if j < len(f) else ""
        n1, n2 = parse_int(g(0)), parse_int(g(1))
        for v in (n1, n2):
            if isinstance(v, str):
                net.load = v
                return net
        if n1 < 1 or n2 < 1:
            net.load = "err:runtime_error"
            return net
        j = 2
        prob = F(0)
        if hp:
            prob = parse_dec(g(j))
            j += 1
            if isinstance(prob, str):
                net.load = prob
                return net
            if prob < 0:
                net.load = "err:invalid_argument"
                return net
        stated = None
        if hc:
            stated = parse_dec(g(j))
            j += 1
            if isinstance(stated, str):
                net.load = stated
                return net
        toks = gsplit(g(j), ";")
        cells = []
        npairs = 0
        for i in range(0, len(toks) - 1, 2):
            x, y = parse_dec(toks[i]), parse_dec(toks[i + 1])
            for v in (x, y):
                if isinstance(v, str):
                    net.load = v
                    return net
            c = (floor_div(north - y, ns), floor_div(x - west, ew))
            if not cells or cells[-1] != c:
                cells.append(c)
            npairs += 1
        if npairs < 2:
            net.load = "err:runtime_error"
            return net
        if len(cells) == 1:
            cells = cells * 2
        if not (inside(cells[0]) and inside(cells[-1])):
            net.dropped += 1
            continue
        if hc:
            cost = stated
            cpc = stated / (len(cells) - 1)
            if stated <= 0:
                net.nonpositive_cost = True
        else:
            cpc = dpc
            cost = dpc * (len(cells) - 1)
        net.kept.append(Edge(n1, n2, cells, cost, cpc, prob, stated))
    seen = {}
    for e in net.kept:
        k = frozenset((e.a, e.b))
        seen[k] = seen.get(k, 0) + 1
    net.dup_pairs = set(k for k, n in seen.items() if n > 1)
    for e in net.kept:
        if frozenset((e.a, e.b)) in net.dup_pairs:
            # node pairs given more than once cannot be represented: first record
            # of an ordered pair is what lookups by that ordered pair return
            if (e.a, e.b) in net.edges:
                continue
        net.edges[(e.a, e.b)] = e
    for (a, b), e in sorted(net.edges.items()):
        net.nodes_at.setdefault(e.cells[0], set()).add(a)
        net.nodes_at.setdefault(e.cells[-1], set()).add(b)
        net.adj.setdefault(a, []).append((b, e.prob))
        net.adj.setdefault(b, []).append((a, e.prob))
        net.cells.update(e.cells)
    net.nodes_at = dict((c, sorted(s)) for c, s in net.nodes_at.items())
    if not net.edges and not allow_empty:
        net.load = "err:runtime_error"
    return net


def stop_cell(cells, e, rem, jump):
    if jump:
        return cells[0] if rem < e.cost / 2 else cells[-1]
    if e.cpc == 0:
        return "undefined"
    i = lround(rem / e.cpc)
    if 0 <= i < len(cells):
        return cells[i]
    return "undefined"


def walk_outcomes(net, start, d, jump, budget=LEAF_BUDGET):
    """All results of walking d from `start` over every admissible choice.
    Returns (set, complete).  Elements: cell tuples, 'err:invalid_argument',
    'timeout' (more than STEP_CAP segments), 'undefined'."""
    nodes = net.nodes_at.get(start, [])
    if not nodes:
        return {"err:invalid_argument"}, True
    if d < 0:
        return {"err:invalid_argument"}, True
    out = set()
    stack = [(n, frozenset(), d, 0) for n in nodes]
    spent = 0
    while stack:
        nd, visited, rem, depth = stack.pop()
        spent += 1
        if spent > budget + depth:
            return out, False
        if depth > STEP_CAP:
            out.add("timeout")
            continue
        nbrs = [m for m, _ in net.adj.get(nd, [])]
        if not nbrs:
            cands = [nd]
        elif len(nbrs) == 1:
            cands = nbrs
        else:
            fresh = [m for m in nbrs if m not in visited]
            cands = fresh if fresh else nbrs
        for nx in sorted(set(cands)):
            if nx == nd:
                out.add(start)
                continue
            cells, e = net.view(nd, nx)
            if rem > e.cost:
                stack.append((nx, visited | {nd}, rem - e.cost, depth + 1))
            else:
                out.add(stop_cell(cells, e, rem, jump))
    return out, True


def teleport_outcomes(net, start, steps):
    nodes = net.nodes_at.get(start, [])
    if not nodes:
        return {"err:invalid_argument"}
    cur = set(nodes)
    for _ in range(max(0, steps)):
        nxt = set()
        for n in cur:
            nb = net.adj.get(n, [])
            if not nb:
                nxt.add(n)
            elif len(nb) == 1:
                nxt.add(nb[0][0])
            elif net.has_prob:
                nxt.update(m for m, p in nb if p > 0)
            else:
                nxt.update(m for m, _ in nb)
        cur = nxt
    out = set()
    for n in cur:
        cs = sorted(c for c, ns in net.nodes_at.items() if n in ns)
        out.add(cs[0])
    return out


# -------------------------------------------------------------------- generator
RES = [F(1), F(1), F(1, 2), F(2), F(1, 4), F(3, 2), F(3), F(5)]


class Builder:
    """Random network on a random grid; node cells may lie outside."""

    def __init__(self, rng):
        self.rng = rng
        self.rows = rng.randint(3, 9)
        self.cols = rng.randint(3, 9)
        self.ew = rng.choice(RES)
        self.ns = rng.choice(RES)
        self.west = F(rng.choice([0, 0, 20, -8, 100])) + rng.choice([0, F(1, 2), 0])
        self.south = F(rng.choice([0, 0, 10, -16, 1000])) + rng.choice([0, F(1, 4), 0])
        self.north = self.south + self.rows * self.ns
        self.east = self.west + self.cols * self.ew
        self.node_cell = {}

    def point(self, cell, off=None):
        """A coordinate pair inside `cell` (offsets in eighths of a cell)."""
        r, c = cell
        rng = self.rng
        ox, oy = off if off else (F(rng.randint(0, 7), 8), F(rng.randint(0, 7), 8))
        x = self.west + (c + ox) * self.ew
        y = self.north - (r + oy) * self.ns
        return fmt(x) + ";" + fmt(y)

    def inside_cell(self):
        return (self.rng.randint(0, self.rows - 1), self.rng.randint(0, self.cols - 1))

    def outside_cell(self):
        rng = self.rng
        k = rng.randint(0, 3)
        if k == 0:
            return (-rng.randint(1, 2), rng.randint(0, self.cols - 1))
        if k == 1:
            return (self.rows + rng.randint(1, 2), rng.randint(0, self.cols - 1))
        if k == 2:
            return (rng.randint(0, self.rows - 1), -rng.randint(1, 2))
        return (rng.randint(0, self.rows - 1), self.cols + rng.randint(1, 2))

    def path(self, a, b, detour_outside=False):
        """Cells from a to b without immediate repetitions."""
        rng = self.rng
        if a == b:
            return [a]
        cells = [a]
        r, c = a
        mode = rng.randint(0, 2)
        if detour_outside:
            mid = self.outside_cell()
            return self.path(a, mid)[:-1] + [mid] + self.path(mid, b)[1:]
        if mode == 2 and (abs(b[0] - r) > 1 or abs(b[1] - c) > 1):
            # a long straight jump: only the two end cells (sparse geometry)
            return [a, b]
        while (r, c) != b:
            dr = (b[0] > r) - (b[0] < r)
            dc = (b[1] > c) - (b[1] < c)
            if mode == 0:
                if dr:
                    r += dr
                else:
                    c += dc
            else:
                if dr and dc and rng.random() < 0.5:
                    r += dr
                    c += dc
                elif dc and (not dr or rng.random() < 0.5):
                    c += dc
                else:
                    r += dr
            cells.append((r, c))
        return cells

    def geometry(self, cells, rich=True):
        rng = self.rng
        pts = []
        for i, cell in enumerate(cells):
            k = rng.choice([1, 1, 1, 2, 3]) if rich else 1
            if len(cells) == 1:
                k = max(k, 2)
            p = None
            for _ in range(k):
                if p is not None and rng.random() < 0.4:
                    pts.append(p)      # zero-length step: the same point again
                else:
                    p = self.point(cell)
                    pts.append(p)
        return ";".join(pts)


def topology(rng, kind, n):
    """Edges (pairs of node indices 0..n-1)."""
    if kind == "edge":
        return [(0, 1)]
    if kind == "path":
        return [(i, i + 1) for i in range(n - 1)]
    if kind == "cycle":
        return [(i, (i + 1) % n) for i in range(n)]
    if kind == "tree":
        return [(rng.randint(0, i - 1), i) for i in range(1, n)]
    if kind == "star":
        return [(0, i) for i in range(1, n)]
    if kind == "lollipop":
        k = max(3, n - 2)
        e = [(i, (i + 1) % k) for i in range(k)]
        e += [(i - 1 if i > k else 0, i) for i in range(k, n)]
        return e
    if kind == "complete":
        return [(i, j) for i in range(n) for j in range(i + 1, n)]
    if kind == "random":
        e = [(rng.randint(0, i - 1), i) for i in range(1, n)]
        for _ in range(rng.randint(1, n)):
            a, b = rng.sample(range(n), 2)
            if (a, b) not in e and (b, a) not in e:
                e.append((a, b))
        return e
    raise ValueError(kind)


COSTS_PER_CELL = [F(1), F(1), F(2), F(1, 2), F(3), F(1, 4), F(5, 2), F(10)]


def gen_network(rng, kind=None, opts=()):
    """Returns (head tokens, info).  opts: 'nonpos', 'parallel', 'odd', 'outside'."""
    b = Builder(rng)
    kind = kind or rng.choice(["edge", "path", "path", "cycle", "tree", "star", "lollipop", "complete", "random", "tree"])
    n = 2 if kind == "edge" else rng.randint(3, 4 if kind == "complete" else 7)
    ids = rng.sample(range(1, 40), n)
    cells = []
    for i in range(n):
        if cells and rng.random() < 0.15:
            cells.append(rng.choice(cells))            # several nodes in one cell
        elif "outside" in opts and rng.random() < 0.35:
            cells.append(b.outside_cell())
        elif rng.random() < 0.08:
            # the cell row/column of the south / east border itself
            cells.append(rng.choice([(b.rows, rng.randint(0, b.cols)), (rng.randint(0, b.rows), b.cols)]))
        else:
            cells.append(b.inside_cell())
    edges = topology(rng, kind, n)
    if rng.random() < 0.5:
        edges = [(y, x) if rng.random() < 0.5 else (x, y) for x, y in edges]
    rng.shuffle(edges)
    has_cost = rng.random() < 0.5 or "nonpos" in opts or "cost" in opts
    has_prob = rng.random() < 0.35 or "prob" in opts
    cost_mode = rng.choice(["percell", "percell", "free"])
    records = []
    for (x, y) in edges:
        p = b.path(cells[x], cells[y], detour_outside=("outside" in opts and rng.random() < 0.3))
        geom = b.geometry(p)
        rec = [str(ids[x]), str(ids[y])]
        prob = rng.choice([F(1), F(1, 2), F(1, 4), F(2), F(5), F(1), F(0)])
        if has_prob:
            rec.append(fmt(prob))
        if has_cost:
            nc = max(len(p), 2) - 1
            if cost_mode == "percell":
                cost = rng.choice(COSTS_PER_CELL) * nc
            else:
                cost = F(rng.randint(1, 400), rng.choice([1, 2, 4, 8]))
            rec.append(fmt(cost))
        rec.append(geom)
        records.append(rec)
    if "nonpos" in opts:
        ci = 3 if has_prob else 2
        which = rng.choice(["zero_all", "neg_all", "zero_one"])
        for i, rec in enumerate(records):
            if which == "zero_all" or (which == "zero_one" and i == 0):
                rec[ci] = "0"
            elif which == "neg_all":
                rec[ci] = fmt(-F(rng.randint(1, 8), 2))
    if "parallel" in opts:
        r0 = rng.choice(records)
        x = [k for k in range(n) if str(ids[k]) == r0[0]][0]
        y = [k for k in range(n) if str(ids[k]) == r0[1]][0]
        again = list(r0)
        again[-1] = b.geometry(b.path(cells[x], cells[y]) if rng.random() < 0.5 else b.path(cells[x], cells[y])[:1] + b.path(cells[x], cells[y])[-1:])
        if has_cost:
            again[-2] = fmt(F(again[-2]) + rng.choice([0, 1, F(1, 2)]))
        if rng.random() < 0.5:
            # the same pair in the opposite orientation
            again[0], again[1] = again[1], again[0]
            again[-1] = ";".join(";".join(q) for q in reversed([pp for pp in zip(again[-1].split(";")[0::2], again[-1].split(";")[1::2])]))
        records.insert(rng.randint(0, len(records)), again)
    if "odd" in opts:
        k = rng.randint(0, 2)
        if k == 0:      # an edge from a node to itself
            x = rng.randrange(n)
            loop = b.path(cells[x], b.inside_cell()) + b.path(b.inside_cell(), cells[x])
            loop = [c for i, c in enumerate(loop) if i == 0 or c != loop[i - 1]]
            loop[-1] = cells[x]
            loop = [c for i, c in enumerate(loop) if i == 0 or c != loop[i - 1]]
            rec = [str(ids[x]), str(ids[x])] + ([fmt(F(1))] if has_prob else []) + ([fmt(F(len(loop)))] if has_cost else []) + [b.geometry(loop)]
            records.append(rec)
        elif k == 1:    # a node id used with two different positions
            x = rng.randrange(n)
            other = b.inside_cell()
            y = (x + 1) % n
            rec = [str(ids[x]), str(ids[y])] + ([fmt(F(1))] if has_prob else []) + ([fmt(F(3))] if has_cost else []) + [b.geometry(b.path(other, cells[y]))]
            if (str(ids[x]), str(ids[y])) not in [(r[0], r[1]) for r in records] and (str(ids[y]), str(ids[x])) not in [(r[0], r[1]) for r in records]:
                records.append(rec)
        else:           # an odd number of coordinates: the last one is ignored
            records[0][-1] += ";" + fmt(b.west + 1)
    labels = ["node_1", "node_2"] + (["probability"] if has_prob else []) + (["cost"] if has_cost else []) + ["geometry"]
    lines = [",".join(r) for r in records]
    if has_cost or has_prob or rng.random() < 0.4:
        lines = [",".join(labels)] + lines
    head = ["NET", fmt(b.north), fmt(b.south), fmt(b.east), fmt(b.west), fmt(b.ew), fmt(b.ns), "0", "|".join(lines)]
    return head, b


def boundary_distances(rng, net, start):
    """Distances aimed at the case splits: 0, inside the first segment at index
    rounding boundaries, exactly at the ends of segments along some route, half
    segments (snapping boundary), just around them."""
    ds = [F(0)]
    nodes = net.nodes_at.get(start, [])
    if not nodes:
        return [F(0), F(1), F(5, 2)]
    nd = rng.choice(nodes)
    acc = F(0)
    visited = set()
    for _ in range(rng.randint(1, 6)):
        nb = [m for m, _ in net.adj.get(nd, [])]
        if not nb:
            break
        fresh = [m for m in nb if m not in visited] if len(nb) > 1 else nb
        nx = rng.choice(fresh if fresh else nb)
        if nx == nd:
            break
        cells, e = net.view(nd, nx)
        if e.cost <= 0:
            break
        ds += [acc + e.cost, acc + e.cost / 2, acc + e.cost / 2 - F(1, 16), acc + e.cost + F(1, 16),
               acc + e.cpc / 2, acc + e.cpc * F(3, 2), acc + e.cpc * rng.randint(0, max(1, len(cells) - 1)),
               acc + e.cost * F(rng.randint(0, 16), 16)]
        acc += e.cost
        visited.add(nd)
        nd = nx
    return ds


def exact_in_double(q):
    q = F(q)
    d = q.denominator
    return d & (d - 1) == 0 and d <= 2 ** 30 and abs(q.numerator) < 2 ** 50


def index_is_robust(net, d):
    """True when no segment's index computation rem / cost_per_cell can come
    within double rounding of a .5 boundary without being exactly on it: either
    the cost per cell is exact in binary64 or this network is excluded."""
    return all(exact_in_double(e.cpc) for e in net.edges.values())


def gen_queries(rng, net, b, heavy=False, nonpos=False):
    qs = []
    seeds = lambda: rng.randint(1, 10 ** 6)
    node_cells = sorted(net.nodes_at)
    other = [(rng.randint(-1, b.rows + 1), rng.randint(-1, b.cols + 1)) for _ in range(2)]
    seg_cells = sorted(net.cells - set(node_cells))
    starts = list(node_cells)
    rng.shuffle(starts)
    starts = starts[:4]
    robust = index_is_robust(net, None)
    if nonpos:
        # a few queries only: every non-terminating one costs the watchdog's second
        quota = {"timeout": 1, "undefined": 1, "other": 3}
        for st in starts[:2]:
            for d in [F(1), F(0), F(1, 2), F(3), F(5)]:
                for jump in (0, 1):
                    outs, complete = walk_outcomes(net, st, d, bool(jump))
                    if not complete or len(outs) != 1:
                        continue
                    o = list(outs)[0]
                    cls = o if o in ("timeout", "undefined") else "other"
                    if quota[cls] <= 0:
                        continue
                    quota[cls] -= 1
                    qs.append(rng.choice(["W:%d:%d:%s:%d:%d", "W:%d:%d:%s:%d:%d", "D:%d:%d:%s:%d:%d"]) % (st[0], st[1], fmt(d), jump, seeds()))
                    if qs[-1][0] == "D":
                        f = qs[-1].split(":")
                        qs[-1] = "D:%s:%s:%s:%s:%s" % (f[1], f[2], "j" if jump else "w", f[3], f[5])
        starts = []
    for st in starts:
        ds = boundary_distances(rng, net, st)
        rng.shuffle(ds)
        ds = ds[: (10 if heavy else 5)]
        if not nonpos:
            mc = min((e.cost for e in net.edges.values()), default=F(1))
            if len(net.edges) == 1:
                ds.append(mc * rng.choice([50, 333, 2000]) + rng.choice([0, mc / 2, mc / 4]))
        for d in ds:
            if d < 0 or not exact_in_double(d):
                continue
            for jump in (0, 1):
                if jump == 0 and not robust:
                    # cost / (size - 1) is not exact in binary64: keep away from .5 boundaries
                    if any(abs((d % e.cpc) / e.cpc - F(1, 2)) < F(1, 1000) for e in net.edges.values() if e.cpc > 0):
                        continue
                outs, complete = walk_outcomes(net, st, d, bool(jump))
                if not complete:
                    continue
                if nonpos and "timeout" in outs and len(outs) > 1:
                    continue
                qs.append("W:%d:%d:%s:%d:%d" % (st[0], st[1], fmt(d), jump, seeds()))
                r = rng.random()
                if r < 0.25:
                    qs.append("K:%d:%d:%s:%s:%d" % (st[0], st[1], "jump" if jump else rng.choice(["walk", "walk", "Jump", "", "hop"]), fmt(d), seeds()))
                elif r < 0.45:
                    qs.append("D:%d:%d:%s:%s:%d" % (st[0], st[1], "j" if jump else "w", fmt(d), seeds()))
        if not nonpos:
            qs.append("T:%d:%d:%d:%d" % (st[0], st[1], rng.choice([1, 1, 1, 2, 3, 0]), seeds()))
            if rng.random() < 0.5:
                qs.append("K:%d:%d:teleport:%s:%d" % (st[0], st[1], fmt(F(rng.randint(0, 8))), seeds()))
            if rng.random() < 0.3:
                qs.append("D:%d:%d:t:0:%d" % (st[0], st[1], seeds()))
            if rng.random() < 0.4:
                lo = F(rng.randint(0, 8), 2)
                qs.append("R:%d:%d:%s:%s:%s:%d" % (st[0], st[1], rng.choice("wj"), fmt(lo), fmt(lo + F(rng.randint(1, 12), 2)), seeds()))
    # starts without a node, negative distance
    for c in other + seg_cells[:2]:
        if c not in net.nodes_at:
            qs.append("W:%d:%d:%s:%d:%d" % (c[0], c[1], fmt(F(rng.randint(0, 6), 2)), rng.randint(0, 1), seeds()))
            if rng.random() < 0.5:
                qs.append(rng.choice(["T:%d:%d:1:%d", "K:%d:%d:walk:1:%d", "D:%d:%d:t:1:%d", "K:%d:%d:teleport:1:%d"]) % (c[0], c[1], seeds()))
        qs.append("E:%d:%d" % c)
    if node_cells:
        c = rng.choice(node_cells)
        qs.append("W:%d:%d:%s:%d:%d" % (c[0], c[1], fmt(-F(rng.randint(1, 9), 4)), rng.randint(0, 1), seeds()))
        qs.append("E:%d:%d" % c)
    # segments, both directions; cells by cost; next node with ignore lists
    keys = sorted(net.edges)
    rng.shuffle(keys)
    for (a, bb) in keys[:3]:
        qs.append("S:%d:%d" % (a, bb))
        qs.append("S:%d:%d" % (bb, a))
        e = net.edges[(a, bb)]
        if e.cost > 0 and not net.dup_pairs:
            for _ in range(2):
                d = rng.choice([F(0), e.cost, e.cpc / 2, e.cpc * F(3, 2), e.cost - e.cpc / 2, e.cost * F(rng.randint(0, 8), 8)])
                if 0 <= d <= e.cost and exact_in_double(d) and (exact_in_double(e.cpc) or abs((d % e.cpc) / e.cpc - F(1, 2)) > F(1, 1000)):
                    qs.append("C:%d:%d:%s" % (rng.choice([(a, bb), (bb, a)]) + (fmt(d),)))
    allnodes = sorted(net.adj)
    if allnodes:
        qs.append("S:%d:%d" % (allnodes[0], 41))
        for _ in range(3):
            nd = rng.choice(allnodes)
            nb = [m for m, _ in net.adj[nd]]
            ign = set(rng.sample(allnodes, rng.randint(0, len(allnodes))))
            if rng.random() < 0.3:
                ign = set(nb)
            if rng.random() < 0.3 and nb:
                ign = set(nb) - {rng.choice(nb)}
            qs.append("X:%d:%s:%d" % (nd, ".".join(str(i) for i in sorted(ign)) or "-", seeds()))
    return qs


MALFORMED_FIELDS = ["", "abc", '"3"', "'3'", "x1", "--1", "-", "."]


def gen_malformed(rng, k):
    """A valid network text with exactly one malformed element of kind k (0..13)."""
    head, b = gen_network(rng, kind=rng.choice(["path", "tree", "edge", "cycle"]),
                          opts=("prob",) if k == 7 else ("cost",) if k == 8 else ())
    lines = head[8].split("|")
    has_header = lines[0].startswith("node_1")
    labels = lines[0].split(",") if has_header else ["node_1", "node_2", "geometry"]
    first = 1 if has_header else 0
    i = rng.randint(first, len(lines) - 1)
    f = lines[i].split(",")
    if k == 0:
        f[rng.randint(0, 1)] = rng.choice(MALFORMED_FIELDS)
    elif k == 1:
        f[rng.randint(0, 1)] = rng.choice(["0", "-3", "0"])
    elif k == 2:
        f[rng.randint(0, 1)] = rng.choice(["99999999999", "2147483648", "-2147483649"])
    elif k == 3:
        pts = f[-1].split(";")
        pts[rng.randrange(len(pts))] = rng.choice(MALFORMED_FIELDS)
        f[-1] = ";".join(pts)
    elif k == 4:
        f[-1] = ";".join(f[-1].split(";")[:2])        # one coordinate pair only
    elif k == 5:
        f[-1] = rng.choice(["", f[-1].split(";")[0]])   # no complete pair
    elif k == 6:
        f = f[:rng.randint(0, len(f) - 1)]            # line cut short
    elif k == 7 and "probability" in labels:
        f[2] = rng.choice(["-0.5", "-80", "-0.25"]) if rng.random() < 0.6 else rng.choice(MALFORMED_FIELDS)
    elif k == 8 and "cost" in labels:
        f[labels.index("cost")] = rng.choice(MALFORMED_FIELDS)
    elif k == 9:
        lines[i] = ""                                  # an empty line
        f = None
    elif k == 10:
        hdr = rng.choice(["node_1,node_2,cost,probability,geometry", "node_1,node_2,probability,geometry,cost",
                          "node_1,node_2,geometry,probability", "node_1,node_2,geometry,cost,probability",
                          "node_1,cost,node_2,geometry", "node_1,node_2,x,y,cost,geometry"])
        lines = [hdr] + lines[first:]
        f = None
    elif k == 11:
        # every edge outside: nothing is loaded
        head2, b2 = gen_network(rng, kind="path", opts=("outside",))
        head[8] = head2[8]
        head[1:7] = [fmt(F(x) + 5000) for x in head2[1:3]] + [fmt(F(x) + 7000) for x in head2[3:5]] + head2[5:7]
        head[7] = rng.choice("01")
        return head + ["E:0:0", "W:0:0:1:0:1"]
    elif k == 12:
        head[8] = rng.choice(["~", "node_1,node_2,geometry", "|"])
        head[7] = rng.choice("01")
        return head + ["E:0:0", "T:0:0:1:1"]
    else:
        f[0] = f[0] + rng.choice(["abc", ".7", " "]).strip()   # numeric prefix is accepted
    if f is not None:
        lines[i] = ",".join(f)
    head[8] = "|".join(lines) or "|"
    return head + ["E:0:0"]


CORPUS = [
    # the kernel built with jump must snap (finding C15_kernel_jump_not_forwarded)
    "NET 10 0 10 0 1 1 0 1,2,0.5;9.5;1.5;9.5;2.5;9.5;3.5;9.5;4.5;9.5 W:0:0:1:1:1 K:0:0:jump:1:1 D:0:0:j:1:1 K:0:0:jump:3:1 D:0:0:j:2:7 W:0:0:1:0:1 K:0:0:walk:1:1",
    # stated cost 0: walk(0,0,1.0) does not terminate (known finding)
    "NET 10 0 10 0 1 1 0 node_1,node_2,cost,geometry|1,2,0,0.5;9.5;4.5;9.5 W:0:0:1:0:1 W:0:0:0:1:1 E:0:0",
    # the same node pair twice: the second geometry is dropped (known finding)
    "NET 10 0 10 0 1 1 0 1,2,0.5;9.5;4.5;9.5|1,2,0.5;9.5;0.5;7.5;4.5;7.5;4.5;9.5 S:1:2 S:2:1 W:0:0:1:0:1",
    # a network shaped like the one of tests/test_network.cpp (dyadic coordinates)
    "NET 10 0 30 20 1 1 0 1,2,21.5;7.5;22.25;7.25|1,4,21.5;7.5;21.75;8;22.5;8.5|2,8,22.25;7.25;23.25;7.125;24;6.875;24.75;6.75;25.75;6.625;26.5;6.5|8,10,26.5;6.5;26.75;5.75;27.25;4.875;27.5;4.25;27.875;3.5;28.25;2.75 W:2:1:1:0:42 W:2:1:3:0:42 W:2:1:6:1:42 T:2:1:2:42 S:2:8 S:8:2",
]


def generate(tier, seed, path):
    rng = random.Random(seed * 104729 + 15)
    thorough = tier == "thorough"
    cases = list(CORPUS)
    cdir = os.path.join(vc.VERIF, "corpus", "network")
    if os.path.isdir(cdir):
        for f in sorted(os.listdir(cdir)):
            cases += vc.read_cases(os.path.join(cdir, f))
    n_main = 2600 if thorough else 260
    n_mal = 700 if thorough else 90
    n_nonpos = 10 if thorough else 5
    n_par = 40 if thorough else 8
    n_odd = 150 if thorough else 20

    def add(opts, heavy=False, kind=None):
        for _ in range(20):
            head, b = gen_network(rng, kind=kind, opts=opts)
            net = derive(head)
            if net.load != "ok":
                if "outside" in opts:
                    cases.append(" ".join(head + ["E:0:0"]))
                    return
                continue
            if net.has_prob and any(len(v) > 1 and sum(p for _, p in v) <= 0 for v in net.adj.values()):
                continue   # all weights zero is outside std::discrete_distribution's precondition
            qs = gen_queries(rng, net, b, heavy=heavy, nonpos="nonpos" in opts)
            cases.append(" ".join(head + qs))
            return

    for i in range(n_main):
        opts = ("outside",) if i % 4 == 3 else ()
        add(opts, heavy=(i % 10 == 0))
    for i in range(n_odd):
        add(("odd",))
    for i in range(n_mal):
        cases.append(" ".join(gen_malformed(rng, i % 14)))
    for i in range(n_par):
        add(("parallel",))
    for i in range(n_nonpos):
        add(("nonpos",), kind=rng.choice(["edge", "edge", "path"]))
    with open(path, "w") as f:
        f.write("\n".join(cases) + "\n")
    return cases


# ---------------------------------------------------------- reading the outputs
def group_output(path):
    out = {}
    with open(path, errors="replace") as f:
        for line in f:
            line = line.rstrip("\n")
            if not line:
                continue
            k, rest = line.split(" ", 1)
            if not k.isdigit():
                continue
            tag, _, val = rest.partition(" ")
            out.setdefault(int(k), {})[tag] = val
    return out


def pcell(s):
    r, c = s.split(",")
    return (int(r), int(c))


def parse_dump(d):
    """Tables printed by the harness -> (nodes, adj, segs)."""
    nodes = set()
    for tok in d.get("nodes", "").split():
        i, c = tok.split("@")
        nodes.add((int(i), pcell(c)))
    adj = {}
    for tok in d.get("adj", "").split():
        n, rest = tok.split("=")
        ps, ms = rest.split(">")
        adj[int(n)] = ([F(x) for x in ps.split(";") if x], [int(x) for x in ms.split(".") if x])
    segs = {}
    for tok in d.get("segs", "").split():
        key, rest = tok.split("=")
        a, b = key.split("-")
        cells, cost, prob = rest.split("@")
        segs[(int(a), int(b))] = ([pcell(x) for x in cells.split(";")], cost, prob)
    return nodes, adj, segs


def result_of(s):
    """'cell r,c' -> tuple; other strings unchanged."""
    if s is not None and s.startswith("cell "):
        return pcell(s[5:])
    return s


# ---------------------------------------------------------------------- monitor
def monitor(cases, out, ctx):
    st = {"networks": 0, "rejected_texts": 0, "walks": 0, "walks_exact": 0, "walks_in_set": 0, "walks_weak": 0,
          "jumps": 0, "teleports": 0, "kernel_calls": 0, "random_distance_calls": 0, "segments_checked": 0,
          "views": 0, "cells_by_cost": 0, "next_node": 0, "no_node_starts": 0, "timeouts_known": 0,
          "undefined_index_known": 0, "edges_kept": 0, "edges_clipped": 0, "parallel_edge_networks": 0,
          "multi_segment_walks": 0}
    for k, line in enumerate(cases):
        t = line.split(" ")
        d = out.get(k, {})
        net = derive(t)
        V = lambda key, what, detail=None: ctx.violation(key, what, line, detail)
        got_load = d.get("load")
        if net.load != "ok":
            st["rejected_texts"] += 1
            if got_load != net.load:
                V("C15.load.reject", "malformed or empty network text must be rejected with %s, load gave: %s" % (net.load, got_load))
            continue
        if got_load != "ok":
            V("C15.load.accept", "valid network text rejected: %s" % got_load)
            continue
        st["networks"] += 1
        st["edges_kept"] += len(net.kept)
        st["edges_clipped"] += net.dropped
        nodes, adj, segs = parse_dump(d)
        par = bool(net.dup_pairs)
        if par:
            st["parallel_edge_networks"] += 1
        # ---- loading: exactly the records with both end nodes inside, merged cells, cost
        want_keys = set((e.a, e.b) for e in net.kept)
        if set(segs) != want_keys:
            V("C15.load.clip", "edges kept %s, edges whose two end nodes lie inside %s" % (sorted(segs), sorted(want_keys)))
        for e in net.kept:
            st["segments_checked"] += 1
            s = segs.get((e.a, e.b))
            if s is None:
                continue
            dup = frozenset((e.a, e.b)) in net.dup_pairs
            if s[0] != e.cells:
                if dup:
                    V("C15.load.parallel_edges", "record %d,%d given more than once: geometry %s of one record is not in the network (stored: %s)" % (e.a, e.b, e.cells, s[0]))
                else:
                    V("C15.load.merge", "edge %d-%d holds cells %s, the points give %s" % (e.a, e.b, s[0], e.cells))
            elif s[1] != fracs(e.cost):
                V("C15.load.parallel_edges" if dup else "C15.load.cost", "edge %d-%d has cost %s, stated or length-derived cost is %s" % (e.a, e.b, s[1], fracs(e.cost)))
            elif net.has_prob and s[2] != fracs(e.prob):
                V("C15.load.parallel_edges" if dup else "C15.load.probability", "edge %d-%d has probability %s, stated %s" % (e.a, e.b, s[2], fracs(e.prob)))
        if not par:
            want_nodes = set()
            for e in net.kept:
                want_nodes.add((e.a, e.cells[0]))
                want_nodes.add((e.b, e.cells[-1]))
            if nodes != want_nodes:
                V("C15.load.nodes", "nodes %s, end nodes of kept edges %s" % (sorted(nodes), sorted(want_nodes)))
            for n, lst in net.adj.items():
                g = adj.get(n, ([], []))
                if sorted(g[1]) != sorted(m for m, _ in lst):
                    V("C15.load.both_directions", "node %d has neighbours %s, edges give %s" % (n, g[1], sorted(m for m, _ in lst)))
                elif net.has_prob and sorted(zip(g[1], g[0])) != sorted(lst):
                    V("C15.load.probability", "node %d: neighbour probabilities %s, stated %s" % (n, sorted(zip(g[1], g[0])), sorted(lst)))
        # ---- queries
        for i, q in enumerate(t[9:]):
            f = q.split(":")
            got = d.get("q%d" % i)
            kind = f[0]
            line1 = " ".join(t[:9] + [q])       # replay: this network and this query only
            V = lambda key, what, detail=None, line1=line1, q=q, got=got: ctx.violation(key, what, line1, "query %s -> %s" % (q, got))
            if kind in ("W", "K", "D", "R"):
                start = (int(f[1]), int(f[2]))
                if kind == "W":
                    dist, jump, site = F(f[3]), f[4] != "0", "walk"
                elif kind == "K":
                    dist, jump, site = F(f[4]), f[3] == "jump", "kernel"
                    if f[3] == "teleport":
                        kind = "Tk"
                elif kind == "D":
                    dist, jump, site = F(f[4]), f[3] == "j", "kernel"
                    if f[3] == "t":
                        kind = "Tk"
                else:
                    dist, jump, site = None, f[3] == "j", "kernel"
                if kind != "Tk":
                    monitor_walk(ctx, st, line1, net, par, q, got, start, dist, jump, site)
                    continue
                f = ["T", f[1], f[2], "1"]
                site = "kernel"
            else:
                site = "teleport"
            if f[0] == "T":
                st["teleports"] += 1
                start = (int(f[1]), int(f[2]))
                steps = int(f[3])
                r = result_of(got)
                if start not in net.nodes_at:
                    st["no_node_starts"] += 1
                    if r != "err:invalid_argument":
                        V("C15.needs_node.%s" % site, "%s from cell %s without a node gave %s, documented: invalid_argument" % (q, start, got))
                    continue
                if not isinstance(r, tuple):
                    V("C15.teleport.result.%s" % site, "%s from a node cell gave %s" % (q, got))
                    continue
                if par:
                    continue
                want = teleport_outcomes(net, start, steps)
                if r not in want:
                    V("C15.teleport.adjacent.%s" % site, "%s ended at %s; cells of nodes reachable in %d steps over edges (of positive probability): %s"
                      % (q, r, steps, sorted(want)))
            elif kind == "S":
                st["views"] += 1
                a, b = int(f[1]), int(f[2])
                if par:
                    continue
                if (a, b) not in net.edges and (b, a) not in net.edges:
                    if got != "err:invalid_argument":
                        V("C15.get_segment.missing", "%s: no such edge, got %s" % (q, got))
                    continue
                cells, e = net.view(a, b)
                want = "view %s front %d,%d back %d,%d cost %s" % (";".join("%d,%d" % c for c in cells), cells[0][0], cells[0][1], cells[-1][0], cells[-1][1], fracs(e.cost))
                if got != want:
                    V("C15.load.both_directions", "%s gave '%s'; the edge %d-%d seen from %d is '%s'" % (q, got, e.a, e.b, a, want))
            elif kind == "C":
                st["cells_by_cost"] += 1
                a, b = int(f[1]), int(f[2])
                if par or ((a, b) not in net.edges and (b, a) not in net.edges):
                    continue
                cells, e = net.view(a, b)
                want = stop_cell(cells, e, F(f[3]), False)
                if want != "undefined" and result_of(got) != want:
                    V("C15.cost.cell_by_cost", "%s gave %s; cell at that cost along the segment is %s" % (q, got, want))
            elif kind == "X":
                st["next_node"] += 1
                nd = int(f[1])
                ign = set(int(x) for x in f[2].split(".")) if f[2] != "-" else set()
                if par or nd not in net.adj:
                    continue
                nb = [m for m, _ in net.adj[nd]]
                fresh = [m for m in nb if m not in ign]
                r = int(got.split()[1]) if got and got.startswith("node ") else None
                if r not in nb:
                    V("C15.next_node.adjacent", "%s gave %s, neighbours %s" % (q, got, nb))
                elif len(nb) > 1 and fresh and r not in fresh:
                    V("C15.next_node.prefers_unvisited", "%s gave visited node %s although %s are unvisited" % (q, r, fresh))
            elif kind == "E":
                c = (int(f[1]), int(f[2]))
                want = "eligible 11" if c in net.nodes_at else "eligible 00"
                if not par and got != want:
                    V("C15.needs_node.eligible", "%s gave %s, expected %s" % (q, got, want))
    return st


def monitor_walk(ctx, st, line, net, par, q, got, start, dist, jump, site):
    V = lambda key, what: ctx.violation(key, what, line, "query %s -> %s" % (q, got))
    st["walks" if site == "walk" else "kernel_calls"] += 1
    if jump:
        st["jumps"] += 1
    r = result_of(got)
    if start not in net.nodes_at:
        st["no_node_starts"] += 1
        if r != "err:invalid_argument":
            V("C15.needs_node.%s" % site, "%s from cell %s without a node gave %s, documented: invalid_argument" % (q, start, got))
        return
    if r == "timeout":
        if net.nonpositive_cost:
            st["timeouts_known"] += 1
            V("C15.termination.nonpositive_cost", "%s does not terminate: the network has an edge with a stated cost <= 0, which load accepts" % q)
        else:
            V("C15.termination.%s" % site, "%s did not terminate within the watchdog although every edge cost is positive" % q)
        return
    if isinstance(r, str) and r.startswith("crash"):
        if net.nonpositive_cost:
            st["undefined_index_known"] += 1
            V("C15.index.nonpositive_cost", "%s crashed: index computation divides by a zero cost per cell" % q)
        else:
            V("C15.crash.%s" % site, "%s crashed (%s)" % (q, got))
        return
    if dist is None:
        st["random_distance_calls"] += 1
        if not isinstance(r, tuple):
            V("C15.kernel.result", "%s gave %s" % (q, got))
        elif r != start and r not in net.cells and not par:
            V("C15.on_network.%s" % site, "%s ended at %s which is neither the start nor a cell of a loaded edge" % (q, r))
        elif jump and r != start and r not in net.nodes_at and not par:
            V("C15.kernel.jump_forwarded", "%s (kernel built with jump) ended at %s which holds no node" % (q, r))
        return
    if dist < 0:
        if r != "err:invalid_argument":
            V("C15.negative_distance.%s" % site, "%s gave %s, documented: invalid_argument" % (q, got))
        return
    if not isinstance(r, tuple):
        V("C15.walk.result.%s" % site, "%s gave %s" % (q, got))
        return
    if par:
        return
    # stays on the network
    if r != start and r not in net.cells:
        V("C15.on_network.%s" % site, "%s ended at %s which is neither the start cell nor a cell of a loaded edge" % (q, r))
        return
    if jump and r != start and r not in net.nodes_at:
        V("C15.kernel.jump_forwarded" if site == "kernel" else "C15.jump.snap",
          "%s must snap to an end node, ended at %s which holds no node" % (q, r))
        return
    outs, complete = walk_outcomes(net, start, dist, jump, budget=20000)
    if "undefined" in outs:
        if net.nonpositive_cost:
            st["undefined_index_known"] += 1
            V("C15.index.nonpositive_cost", "%s: the index along a segment of cost 0 is 0/0 (undefined), result %s" % (q, got))
        return
    if "timeout" in outs and net.nonpositive_cost:
        # some choice sequences do not terminate; the run that was observed did
        outs = outs - {"timeout"}
    if not complete:
        st["walks_weak"] += 1
        return
    if len(outs) == 1:
        st["walks_exact"] += 1
    else:
        st["walks_in_set"] += 1
    mc = min((e.cost for e in net.edges.values()), default=F(1))
    if mc > 0 and dist > mc:
        st["multi_segment_walks"] += 1
    if r not in outs:
        if jump and site == "kernel":
            key = "C15.kernel.jump_forwarded"
        elif jump:
            key = "C15.jump.snap"
        elif site == "kernel":
            key = "C15.kernel.mode"
        else:
            key = "C15.cost.accounting"
        V(key, "%s ended at %s; following connected segments, preferring unvisited neighbours and stopping where the remaining distance is used up%s gives %s"
          % (q, r, " (snapped to the nearer end node)" if jump else "", sorted(outs, key=str)))


# --------------------------------------------------------------- correspondence
def compare(cases, impl, model):
    """Returns (n compared, n exact, n membership, n skipped, diffs)."""
    diffs = []
    n = exact = member = skipped = 0
    for k in range(len(cases)):
        a, b = impl.get(k, {}), model.get(k, {})
        for tag in sorted(set(a) | set(b), key=lambda s: (len(s), s)):
            x, y = a.get(tag), b.get(tag)
            n += 1
            if y is not None and y.startswith("set "):
                items = y[4:].split(" | ")
                if "err:UB_out_of_bounds" in items:
                    skipped += 1      # undefined behaviour: nothing to compare with
                    continue
                xi = "err:out_of_fuel" if x == "timeout" else x
                if "MODEL_INCONSISTENT" in y or "MODEL_OVERFLOW" in y:
                    diffs.append((k, tag, x, y))
                elif len(items) == 1:
                    exact += 1
                    if xi != items[0]:
                        diffs.append((k, tag, x, y))
                else:
                    member += 1
                    if xi not in items:
                        diffs.append((k, tag, x, y))
            elif y == "random":
                skipped += 1
            elif y == "err:UB_out_of_bounds":
                skipped += 1
            else:
                exact += 1
                if x != y:
                    diffs.append((k, tag, x, y))
    return n, exact, member, skipped, diffs


def run_engine(ctx, cases_path):
    h, err = vc.build_harness("network", sanitize=(ctx.tier == "thorough"))
    if err:
        ctx.broke("harness network.cpp builds against /repo", err)
        return None, None
    m, err = vc.build_model("network")
    if err:
        ctx.broke("model extraction/driver build", err)
        return None, None
    impl = os.path.join(ctx.work, "impl.out")
    model = os.path.join(ctx.work, "model.out")
    env = dict(os.environ)
    env["ASAN_OPTIONS"] = "detect_leaks=0"
    rc, e = vc.run_to_file([h, cases_path], impl, env=env)
    if rc != 0:
        ctx.broke("implementation harness run (exit %d)" % rc, e)
    rc, e = vc.run_to_file([m, cases_path], model)
    if rc != 0:
        ctx.broke("model driver run (exit %d)" % rc, e)
    return impl, model


def nontrivial(line):
    """A case is non-trivial when its network loads and it holds at least one
    walk over more than one segment or a snapping / teleport / kernel query."""
    t = line.split(" ")
    return any(q[0] in "WKDT" for q in t[9:]) and len(t[8].split("|")) >= 2


def check(ctx, replay=None):
    pid = ctx.pid
    ctx.proof = vc.prove(pid)
    if not ctx.proof.ok:
        ctx.broke("proof obligations of Properties_%s.v%s" % (pid, (" (" + ctx.proof.failed_theorem + ")") if ctx.proof.failed_theorem else ""),
                  "\n".join(ctx.proof.problems) + "\n" + ctx.proof.log[-1500:])
    cases_path = os.path.join(ctx.work, "cases.txt")
    if replay:
        cases = vc.read_cases(replay)
        with open(cases_path, "w") as f:
            f.write("\n".join(cases) + "\n")
    else:
        cases = generate(ctx.tier, ctx.seed, cases_path)
    impl, model = run_engine(ctx, cases_path)
    if impl is None:
        return
    out_i = group_output(impl)
    out_m = group_output(model)
    stats = monitor(cases, out_i, ctx)
    n, exact, member, skipped, diffs = compare(cases, out_i, out_m)
    if diffs:
        k, tag, a, b = diffs[0]
        q = ""
        if tag.startswith("q"):
            q = " query " + cases[k].split(" ")[9 + int(tag[1:])]
        ctx.broke("correspondence network model vs implementation (%d differing lines)" % len(diffs),
                  "first differing case #%d%s: %s\nline %s\nimpl : %s\nmodel: %s" % (k, q, cases[k], tag, a, b))
    kinds = {}
    nq = 0
    for c in cases:
        for q in c.split(" ")[9:]:
            kinds[q[0]] = kinds.get(q[0], 0) + 1
            nq += 1
    ctx.coverage.update({
        "evaluations": nq,
        "distinct_nontrivial": len(set(c for c in cases if nontrivial(c))),
        "rule": "cases are generated from VERIF_SEED: one case = one network text (paths, trees, cycles, stars, lollipops, complete "
                "graphs, several nodes per cell, edges partly/wholly outside, with/without cost and probability columns, repeated and "
                "zero-length points) loaded by the real Network::load plus 10-60 queries (walk/jump/teleport, kernels, segment views, "
                "cell_by_cost, next_node) at distances 0, index-rounding boundaries, segment ends, half segments, huge; separate streams: "
                "malformed texts, parallel edges, non-positive stated costs.  evaluations = queries run; distinct_nontrivial = distinct "
                "case lines whose network has at least two lines and at least one walk/teleport/kernel query",
        "samples": [cases[0][:400], cases[len(cases) // 2][:400], cases[-1][:400]],
        "exhaustive": False,
        "networks": len(cases),
        "query_kinds": kinds,
        "monitor_stats": stats,
        "lines_compared_model_vs_impl": n,
        "compared_exactly": exact,
        "compared_by_membership_in_model_set": member,
        "skipped_undefined_or_random": skipped,
        "traces_validated_against_impl": exact + member,
        "correspondence_diffs": len(diffs),
    })
    ctx.assumptions += [
        "text tokenising (getline, stoi, stod) is not modelled: records enter the model as converted fields or the exception kind of the conversion",
        "coordinates, resolutions, costs and distances are exact rationals; the correspondence uses dyadic values, and keeps away from .5 index boundaries when stated cost / (cells - 1) is not exact in binary64",
        "a node 'lies inside the study area' when its cell is within rows 0..R and columns 0..C, (R, C) the cell of the south-east corner of the bounding box (Network::cell_out_of_bbox; the corner cell counting as inside is pinned by tests/test_network.cpp)",
        "random picks are compared by membership in the set of results the model reaches over all pick sequences (exact where that set is a singleton); libstdc++'s distributions are not modelled",
        "std::discrete_distribution with all weights zero, NaN/inf values, int overflow of node ids / cell indices and a second load() on the same object are outside the model",
        "each unordered node pair is given by at most one record (otherwise see finding C15.load.parallel_edges)",
    ]
