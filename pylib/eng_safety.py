"""safety engine: C20 (no undefined behaviour inside the documented domain;
documented errors throw).

 (1) proof obligations (Properties_C20.v): the model never reaches its
     UB_OutOfBounds error for in-domain inputs, counts are bounded, and each
     documented invalid input gives the documented error kind;
 (2) probes: every documented invalid input injected one at a time through the
     real API (harness/safety.cpp, built with ASan+UBSan, one forked child per
     probe), compared with the model where one exists (ocaml/drv_safety.ml) and
     with the documented exception kinds;
 (3) in-domain runs under sanitizers: the scenario generators of the other
     engines feed their harnesses built with -fsanitize=address,undefined; any
     sanitizer report or abnormal termination is a violation with that case
     file as the replay.
"""
import os
import random
import re

import vcommon as vc

PROPERTIES = ["C20"]

INVALID = "err:invalid_argument"
LOGIC = "err:logic_error"
RUNTIME = "err:runtime_error"

BOGUS = ["bogus", "Cauchy~", "cauchy2", "north", "n", "<empty>x", "SIR", "weekly2", "ratio2", "infects", "None~", "deterministic~"]


def probes(rng, n_random):
    """(probe line, expected result or None = must not throw)"""
    P = []
    add = lambda line, exp: P.append((line, exp))
    for b in BOGUS:
        add("kernel_type " + b, INVALID)
        add("direction " + b, INVALID)
        add("model_type " + b, INVALID)
        add("weather_type " + b, INVALID)
        add("treatment_app " + b, INVALID)
        add("step_unit " + b, INVALID)
        add("arrival_behavior " + b, INVALID)
        add("frequency " + b, INVALID)
        add("quarantine_directions N," + b, INVALID)
    for good in ["cauchy", "exponential", "weibull", "normal", "log-normal", "power-law", "hyperbolic-secant", "exponential-power", "logistic", "gamma", "uniform", "deterministic-neighbor", "network"]:
        add("kernel_type " + good, None)
    for good in ["N", "NE", "E", "SE", "S", "SW", "W", "NW", "none", "None"]:
        add("direction " + good, None)
    # C-string overloads: a null pointer is an empty name - rejected as a model type with the
    # documented invalid_argument, accepted as "no kernel" / "no direction"
    add("model_type_cstr <null>", INVALID)
    add("model_type_cstr SI", None)
    add("model_type_cstr " + BOGUS[0], INVALID)
    add("kernel_type_cstr <null>", None)
    add("kernel_type_cstr cauchy", None)
    add("kernel_type_cstr " + BOGUS[0], INVALID)
    add("direction_cstr <null>", None)
    add("direction_cstr NE", None)
    add("direction_cstr " + BOGUS[0], INVALID)
    for good in ["SI", "SEI", "susceptible-infected", "susceptible_exposed_infected"]:
        add("model_type " + good, None)
    for good in ["deterministic", "Probabilistic", "<empty>", "none", "NONE"]:
        add("weather_type " + good, None)
    for good in ["ratio", "ratio_to_all", "all_infected_in_cell", "all~infected"]:
        add("treatment_app " + good, None)
    for good in ["infect", "land"]:
        add("arrival_behavior " + good, None)
    for good in ["N", "N,E", "S,W,E,N", "<empty>"]:
        add("quarantine_directions " + good, None)
    for good in ["year", "monthly", "final_step", "every_n_steps", "<empty>"]:
        add("frequency " + good, None)
    add("frequency week", INVALID)     # weekly output with monthly steps: incompatible
    add("frequency day", INVALID)
    add("date_string 2020-13-01", INVALID)
    add("date_string 2020-00-10", INVALID)
    add("date_string 2020-02-31", INVALID)
    add("date_string 2020-02-28", None)
    # dates outside the schedule 2020-01-01 .. 2020-12-31 (monthly steps)
    for _ in range(n_random):
        y, m, d = rng.choice([2019, 2021, 2020]), rng.randint(1, 12), rng.randint(1, 28)
        days = rng.choice([0, 0, 10, 400])
        inside = y == 2020
        end_inside = True
        if days:
            import eng_calendar as cal
            e = cal.from_dn(cal.dn((y, m, d)) + days)
            end_inside = e[0] == 2020
        add("treatment_date %d %d %d %d" % (y, m, d, days), None if (inside and end_inside) else INVALID)
    add("scheduler 2020 1 1 2019 1 1 month 1", INVALID)
    add("scheduler 2020 1 1 2020 1 1 day 1", INVALID)
    add("scheduler 2020 1 1 2020 12 31 month 0", INVALID)
    add("scheduler 2020 1 2 2020 12 31 month 1", INVALID)
    add("scheduler 2020 1 1 2020 1 20 month 1", INVALID)
    add("scheduler 2020 1 1 2020 12 31 week 2", None)
    add("schedule_weather 0", INVALID)
    add("schedule_weather 3", None)
    for what in ["scheduler", "spread", "mortality", "lethal"]:
        add("config_before_schedules " + what, LOGIC)
    add("config_before_schedules create", None)
    for what in ["lethal", "survival", "spread_rate", "quarantine", "weather"]:
        add("config_disabled_schedule " + what, LOGIC)
    for n in [0, 1, 3, 5]:
        add("remove_hosts_exposed_length %d" % n, INVALID)
        add("remove_hosts_mortality_length %d" % n, INVALID)
    add("remove_hosts_exposed_length 2", None)
    add("remove_hosts_mortality_length 2", None)
    add("remove_hosts_mortality_too_high", INVALID)
    for a, b in [(1, 2), (2, 5), (0, 2), (3, 3), (2, 0)]:
        add("make_resistant_length %d %d" % (a, b), INVALID)
    add("make_resistant_length 2 2", None)
    for a, b in [(2, 1), (2, 0), (2, 3), (2, 7), (1, 2)]:
        add("make_resistant_length %d %d 0" % (a, b), INVALID)   # wrong lengths are errors also without infection
    add("make_resistant_length 2 2 0", None)
    add("make_resistant_too_many", INVALID)
    add("weather_missing", LOGIC)
    add("temperature_missing", LOGIC)
    for v in ["1.5", "-0.25", "1.0009765625", "2", "-1"]:
        add("weather_mean_range " + v, INVALID)
    for v in ["0", "1", "0.5"]:
        add("weather_mean_range " + v, None)
    for v in ["1.5", "-0.25", "10"]:
        add("weather_mean_range %s 0" % v, INVALID)   # zero deviation: the mean is still validated
    add("weather_mean_range 0.5 0", None)
    for a, b in [(3, 2), (2, 3), (1, 2), (2, 1)]:
        add("weather_shape %d %d" % (a, b), INVALID)
    add("weather_shape 2 2", None)
    add("suitability_range table", INVALID)
    add("suitability_range notable", INVALID)
    add("total_suitability", INVALID)
    add("mortality_without_table", INVALID)
    add("competency_width first", INVALID)
    add("competency_width second", INVALID)
    add("competency_complete_missing", "err:out_of_range")
    add("pest_host_table_row short", INVALID)
    add("pest_host_table_row 1.5", INVALID)
    add("pest_host_table_row -0.5", INVALID)
    add("pest_host_table_row 0.5", None)
    add("competency_table_rows uneven", INVALID)
    add("competency_table_rows one", INVALID)
    add("soil_pool_empty", LOGIC)
    names = ["disperser_generation", "natural_dispersal", "anthropogenic_dispersal", "establishment", "weather",
             "lethal_temperature", "movement", "overpopulation", "survival_rate", "soil"]
    for n in [0, 1, 3, 9, 11, 12, 20]:
        add("seed_list %d" % n, INVALID)     # too few AND too many seeds are documented errors
    add("seed_list 10", None)
    add("named_seeds " + ",".join("%s=%d" % (s, i + 1) for i, s in enumerate(names)), None)
    for _ in range(max(3, n_random // 4)):
        miss = rng.randrange(len(names))
        add("named_seeds " + ",".join("%s=%d" % (s, i + 1) for i, s in enumerate(names) if i != miss), INVALID)
    add("provider_as_generator call", RUNTIME)
    add("provider_as_generator discard", RUNTIME)
    for op in ["plus", "times", "pluseq"]:
        add("raster_shape " + op, INVALID)
    for op in ["move_assign_temporary", "move_assign_named", "move_assign_then_reassign", "move_construct",
               "copy_construct", "copy_assign", "write_through"]:
        add("raster_view " + op, None)    # wrapping caller storage never takes ownership of it
    add("network_no_node", INVALID)
    add("model_unknown_names bogus N cauchy N", INVALID)
    add("model_unknown_names cauchy bogus cauchy N", INVALID)
    add("model_unknown_names cauchy N bogus N", INVALID)
    add("model_unknown_names cauchy N cauchy bogus", INVALID)
    add("model_unknown_names cauchy N cauchy N", None)
    return P


SAN_ENGINES = [("calendar", "eng_calendar"), ("raster", "eng_raster"), ("metrics", "eng_metrics"),
               ("kernels", "eng_kernels"), ("network", "eng_network")]


def sanitizer_runs(ctx, stats):
    """In-domain inputs of the other engines through harnesses built with ASan + UBSan."""
    import gen_hostmodel as gen
    runs = []
    # host model scenarios (every engine's generator is seeded from VERIF_SEED)
    n = 1500 if ctx.tier == "thorough" else 120
    scs = gen.generate(ctx.seed + 77, n)
    p = os.path.join(ctx.work, "san_hostmodel.cases")
    open(p, "w").write("".join(s.text() for s in scs))
    runs.append(("hostmodel", p))
    names = SAN_ENGINES if ctx.tier == "thorough" else SAN_ENGINES[:1]
    for hname, mod in names:
        try:
            m = __import__(mod)
            p = os.path.join(ctx.work, "san_%s.cases" % hname)
            m.generate("quick", ctx.seed + 77, p)
            runs.append((hname, p))
        except Exception as e:  # a generator with a different interface: skip, but say so
            stats.setdefault("sanitizer_skipped", []).append("%s: %s" % (hname, str(e)[:80]))
    for hname, p in runs:
        h, err = vc.build_harness(hname, sanitize=True)
        if err:
            ctx.broke("sanitizer build of harness %s" % hname, err)
            continue
        out = p + ".out"
        env = dict(os.environ, ASAN_OPTIONS="detect_leaks=0:abort_on_error=0", UBSAN_OPTIONS="print_stacktrace=1")
        rc, errtxt = vc.run_to_file([h, p], out, timeout=3000, env=env)
        stats.setdefault("sanitizer_runs", {})[hname] = dict(cases=sum(1 for l in open(p) if l.startswith("case ") or not l.startswith(("#", "end")) and hname != "hostmodel"), exit=rc)
        bad = rc != 0 or re.search(r"runtime error:|AddressSanitizer|UndefinedBehaviorSanitizer|SUMMARY:", errtxt or "")
        if bad:
            ctx.violation("C20.sanitizer.%s" % hname,
                          "harness %s under ASan+UBSan ended with exit status %s: %s" % (hname, rc, (errtxt or "").strip()[-600:]),
                          open(p).read() if os.path.getsize(p) < 2_000_000 else "# case file too large: %s" % p)


def check(ctx, replay=None):
    pid = ctx.pid
    ctx.proof = vc.prove(pid)
    if not ctx.proof.ok:
        ctx.broke("proof obligations of Properties_C20.v%s" % ((" (" + ctx.proof.failed_theorem + ")") if ctx.proof.failed_theorem else ""),
                  "\n".join(ctx.proof.problems) + "\n" + ctx.proof.log[-1500:])
    rng = random.Random(ctx.seed * 17 + 9)
    stats = {}
    if replay:
        lines = vc.read_cases(replay)
        P = [(l, "?") for l in lines if not l.startswith(("case ", "grid "))]
    else:
        P = probes(rng, 200 if ctx.tier == "thorough" else 30)
    cp = os.path.join(ctx.work, "probes.cases")
    open(cp, "w").write("\n".join(l for l, _ in P) + "\n")
    h, err = vc.build_harness("safety", sanitize=True)
    if err:
        ctx.broke("harness safety.cpp builds against /repo (ASan+UBSan)", err)
    else:
        ip = os.path.join(ctx.work, "probes.impl")
        env = dict(os.environ, ASAN_OPTIONS="detect_leaks=0", UBSAN_OPTIONS="print_stacktrace=1:halt_on_error=1")
        rc, e = vc.run_to_file([h, cp], ip, env=env)
        if rc != 0:
            ctx.broke("safety harness run (exit %d)" % rc, e)
        got = {}
        for line in open(ip):
            k, _, rest = line.rstrip("\n").partition(" ")
            got[int(k)] = rest.rpartition(" => ")[2]
        stats["probes"] = len(P)
        stats["rejections_expected"] = sum(1 for _, e in P if e not in (None, "?"))
        kinds = {}
        for k, (line, exp) in enumerate(P):
            g = got.get(k, "missing")
            kinds[g.split(":")[0] + (":" + g.split(":")[1] if g.startswith("err") else "")] = kinds.get(g.split(":")[0] + (":" + g.split(":")[1] if g.startswith("err") else ""), 0) + 1
            name = line.split()[0]
            if g.startswith("crash") or g == "missing":
                ctx.violation("C20.crash.%s" % name, "probe '%s' crashed instead of throwing: %s" % (line, g), line)
            elif exp == "?":
                continue
            elif exp is None:
                if not g.startswith("no_exception"):
                    ctx.violation("C20.valid_input_rejected.%s" % name, "valid input '%s' gave %s" % (line, g), line)
            elif g.startswith("no_exception"):
                ctx.violation("C20.silently_accepted.%s" % name, "documented invalid input '%s' was accepted (%s), documented %s" % (line, g, exp), line)
            elif g != exp:
                ctx.violation("C20.wrong_exception.%s" % name, "documented invalid input '%s' gave %s, documented %s" % (line, g, exp), line)
        stats["results"] = kinds
        # model side for the probes that have a model
        m, err = vc.build_model("safety")
        if err:
            ctx.broke("model extraction/driver build (safety)", err)
        else:
            mp = os.path.join(ctx.work, "probes.model")
            vc.run_to_file([m, cp], mp)
            mod = {}
            for line in open(mp):
                k, _, rest = line.rstrip("\n").partition(" ")
                mod[int(k)] = rest
            cmp_n, diffs = 0, []
            for k, (line, exp) in enumerate(P):
                if mod.get(k, "unmodelled") == "unmodelled":
                    continue
                cmp_n += 1
                g = got.get(k, "missing")
                gk = g if g.startswith("err") or g.startswith("crash") else "ok"
                if gk != mod[k]:
                    diffs.append((line, g, mod[k]))
            stats["probes_with_model"] = cmp_n
            if diffs:
                ctx.broke("correspondence safety model vs implementation (%d differing probes)" % len(diffs),
                          "probe %s\nimpl : %s\nmodel: %s" % diffs[0])
    if not replay:
        sanitizer_runs(ctx, stats)
    ctx.coverage.update({
        "evaluations": len(P) + sum(v.get("cases", 0) for v in stats.get("sanitizer_runs", {}).values()),
        "distinct_nontrivial": len(set(l for l, e in P if e is not None)),
        "rule": "probes: one documented invalid (or boundary valid) input per line through the real API, each in a forked child of an ASan+UBSan build; "
                "non-trivial = the invalid ones; sanitizer runs: the in-domain case files of the other engines through their harnesses built with -fsanitize=address,undefined",
        "samples": [l for l, _ in P[:3]],
        "traces_validated_against_impl": stats.get("probes_with_model", 0),
        "monitor_stats": stats,
    })
    ctx.assumptions += ["object lifetimes, strict aliasing and uninitialised reads of the C++ abstract machine are covered by sanitizer runs only (testing), not by a theorem",
                        "MemorySanitizer is not used (uninitialised Config members such as *_frequency_n are set by every harness)"]
