#!/usr/bin/env python3
"""tools/coverage.py [--run]: which lines of /repo/include/pops do the correspondence
harnesses execute?  With --run, first runs every quick check with VERIF_COV=1 (harnesses
compiled with --coverage into build/bin/*-cov).  Then aggregates gcov's JSON over all harnesses and writes
notes/coverage_by_header.txt: per header the executable lines no harness reached, grouped
by function.  A measurement of the tie's reach, not a check."""
import glob, gzip, json, os, subprocess, sys
ROOT = os.path.dirname(os.path.dirname(os.path.abspath(__file__)))
BIN = os.path.join(ROOT, "build", "bin")
if "--run" in sys.argv:
    for f in glob.glob(os.path.join(BIN, "*.gcda")):
        os.remove(f)
    env = dict(os.environ, VERIF_COV="1")
    for i in range(1, 21):
        pid = "C%02d" % i
        r = subprocess.run([os.path.join(ROOT, "bin", "check"), pid], env=env, capture_output=True, text=True)
        print(pid, "rc", r.returncode)
lines = {}   # file -> {line: count}
funcs = {}   # file -> {name: (start, count)}
for gcda in sorted(glob.glob(os.path.join(BIN, "*.gcda"))):
    r = subprocess.run(["gcov", "--json-format", "--stdout", "-o", BIN, gcda], capture_output=True, cwd=BIN)
    for doc in r.stdout.decode(errors="replace").splitlines():
        if not doc.strip():
            continue
        try:
            j = json.loads(doc)
        except ValueError:
            continue
        for f in j.get("files", []):
            name = os.path.normpath(f["file"])
            if "/include/pops/" not in name:
                continue
            base = os.path.basename(name)
            L = lines.setdefault(base, {})
            for l in f["lines"]:
                L[l["line_number"]] = L.get(l["line_number"], 0) + l["count"]
            F = funcs.setdefault(base, {})
            for fn in f.get("functions", []):
                k = (fn.get("demangled_name") or fn["name"])
                old = F.get(k, (fn["start_line"], 0))
                F[k] = (fn["start_line"], old[1] + fn["execution_count"])
out = []
tot = cov = 0
for base in sorted(lines):
    L = lines[base]
    n, c = len(L), sum(1 for v in L.values() if v > 0)
    tot += n
    cov += c
    out.append("%-40s %4d/%4d executable lines reached (%3d%%)" % (base, c, n, 100 * c // max(n, 1)))
    never = sorted(k for k, (st, cnt) in funcs.get(base, {}).items() if cnt == 0)
    for k in never:
        out.append("      never called: %s" % k[:150])
    miss = sorted(l for l, v in L.items() if v == 0)
    if miss:
        out.append("      lines not reached: " + " ".join(map(str, miss))[:600])
allh = sorted(os.path.basename(p) for p in glob.glob("/repo/include/pops/*.hpp"))
for h in allh:
    if h not in lines:
        out.append("%-40s not compiled into any harness (or no executable lines)" % h)
out.insert(0, "TOTAL %d/%d executable lines of include/pops reached by the harnesses of the quick tier (%d%%)\n" % (cov, tot, 100 * cov // max(tot, 1)))
open(os.path.join(ROOT, "notes", "coverage_by_header.txt"), "w").write("\n".join(out) + "\n")
print(out[0])
