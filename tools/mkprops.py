#!/usr/bin/env python3
"""mkprops.py <spec.json>: writes coq/theories/Properties_<id>.v whose theorems
restate lemmas proved elsewhere (statement copied from the lemma's own file) and
are closed by `exact`.  spec: {"id", "header" (comment text), "imports",
"items": [{"name", "lemma", "file", "comment"}], "example": coq text}"""
import json, re, sys, os
spec = json.load(open(sys.argv[1]))
root = os.path.join(os.path.dirname(os.path.dirname(os.path.abspath(__file__))), "coq", "theories")

def statement(file, lemma):
    txt = open(os.path.join(root, file)).read()
    m = re.search(r"(?:Lemma|Theorem|Corollary)\s+%s\b(.*?)\n\s*Proof\." % re.escape(lemma), txt, re.S)
    if not m:
        raise SystemExit("lemma %s not found in %s" % (lemma, file))
    body = m.group(1).strip()
    # split binders from the statement at the first top-level ':'
    depth = 0
    for i, ch in enumerate(body):
        if ch in "([{":
            depth += 1
        elif ch in ")]}":
            depth -= 1
        elif ch == ":" and depth == 0 and body[i:i + 2] != ":=":
            binders, stmt = body[:i].strip(), body[i + 1:].strip()
            break
    else:
        raise SystemExit("cannot split " + lemma)
    stmt = stmt.rstrip()
    if stmt.endswith("."):
        stmt = stmt[:-1]
    res = ("forall %s,\n  " % binders if binders else "") + stmt
    if spec.get("list_length"):  # String is imported: `length` would resolve to String.length
        res = re.sub(r"(?<![\w.])length\b", "List.length", res)
    return res

out = ["(* %s *)" % spec["header"].replace("*)", "* )"), spec["imports"], "Import ListNotations.", "Local Open Scope Z_scope.", ""]
for it in spec["items"]:
    if it.get("comment"):
        out.append("(* %s *)" % it["comment"].replace("*)", "* )"))
    out.append("Theorem %s : %s." % (it["name"], statement(it["file"], it["lemma"])))
    out.append("Proof. exact %s. Qed." % it["lemma"])
    out.append("Print Assumptions %s.\n" % it["name"])
out.append(spec["example"])
open(os.path.join(root, "Properties_%s.v" % spec["id"]), "w").write("\n".join(out) + "\n")
print("written Properties_%s.v with %d theorems" % (spec["id"], len(spec["items"])))
