// Implementation side of the network engine (C15): builds pops::Network from
// generated text with the real load(), runs walk / teleport / the kernel with a
// seeded std::default_random_engine and prints canonical results; same line
// protocol as ocaml/drv_network.ml (see pylib/eng_network.py for the format).
//
// Every case runs in a forked child under a CPU-time watchdog (ITIMER_VIRTUAL,
// 1 s per query, plus a wall-clock alarm), so that a walk that does not
// terminate is reported as "timeout" and a crash as "crash:<signal>" instead of
// hanging or killing the check.
#include <pops/network.hpp>
#include <pops/network_kernel.hpp>
#include <pops/config.hpp>
#include <pops/raster.hpp>
#include <pops/anthropogenic_kernel.hpp>
#include "hcommon.hpp"

#include <cmath>
#include <csignal>
#include <random>
#include <sys/time.h>
#include <sys/wait.h>
#include <unistd.h>

using namespace pops;
using ::verif::guarded;
using ::verif::for_each_case;

// exact text of a double: integer or num/den with den a power of two
static std::string frac(double x)
{
    if (x == 0)
        return "0";
    if (!std::isfinite(x))
        return "nonfinite";
    int e;
    double m = std::frexp(x, &e);
    long long mant = (long long)std::ldexp(m, 53);
    e -= 53;
    bool neg = mant < 0;
    unsigned long long a = neg ? -mant : mant;
    while ((a & 1ULL) == 0) {
        a >>= 1;
        e++;
    }
    std::string s = neg ? "-" : "";
    if (e >= 0) {
        if (e > 10)
            return "huge";
        return s + std::to_string(a << e);
    }
    if (-e > 62)
        return "tiny";
    return s + std::to_string(a) + "/" + std::to_string(1ULL << (-e));
}

static std::vector<std::string> split_on(const std::string& s, char d)
{
    std::vector<std::string> out;
    std::string cur;
    for (char ch : s) {
        if (ch == d) {
            out.push_back(cur);
            cur.clear();
        }
        else
            cur += ch;
    }
    out.push_back(cur);
    return out;
}

static std::string scell(int r, int c)
{
    return std::to_string(r) + "," + std::to_string(c);
}

// Access to the protected tables and functions.
struct TestNetwork : public Network<int>
{
    using Network<int>::Network;
    std::string dump_segments() const
    {
        std::string s;
        for (const auto& item : segments_by_nodes_) {
            s += " " + std::to_string(item.first.first) + "-"
                 + std::to_string(item.first.second) + "=";
            bool first = true;
            for (const auto& cell : item.second) {
                if (!first)
                    s += ";";
                first = false;
                s += scell(cell.first, cell.second);
            }
            s += "@" + frac(item.second.cost()) + "@" + frac(item.second.probability());
        }
        return s;
    }
    std::string dump_adj() const
    {
        std::string s;
        for (const auto& item : node_matrix_) {
            s += " " + std::to_string(item.first) + "=";
            bool first = true;
            for (double p : item.second.first) {
                if (!first)
                    s += ";";
                first = false;
                s += frac(p);
            }
            s += ">";
            first = true;
            for (int n : item.second.second) {
                if (!first)
                    s += ".";
                first = false;
                s += std::to_string(n);
            }
        }
        return s;
    }
    std::string segment_view(int a, int b) const
    {
        auto v = get_segment(a, b);
        std::string s = "view ";
        bool first = true;
        for (auto it = v.begin(); it != v.end(); ++it) {
            if (!first)
                s += ";";
            first = false;
            s += scell((*it).first, (*it).second);
        }
        s += " front " + scell(v.front().first, v.front().second);
        s += " back " + scell(v.back().first, v.back().second);
        s += " cost " + frac(v.cost());
        return s;
    }
    std::string cell_by_cost(int a, int b, double d) const
    {
        auto v = get_segment(a, b);
        auto c = v.cell_by_cost(d);
        return "cell " + scell(c.first, c.second);
    }
    template<typename G>
    int call_next_node(int n, const std::set<int>& ignore, G& g) const
    {
        return next_node(n, ignore, g);
    }
};

static std::string cell_result(const std::tuple<int, int>& t)
{
    return "cell " + scell(std::get<0>(t), std::get<1>(t));
}

static std::string run_query(const TestNetwork& net, const std::string& q)
{
    auto f = split_on(q, ':');
    auto I = [&](size_t j) { return std::stoi(f.at(j)); };
    auto D = [&](size_t j) { return std::stod(f.at(j)); };
    const std::string& kind = f.at(0);
    return guarded([&]() -> std::string {
        if (kind == "W") {
            std::default_random_engine g(I(5));
            return cell_result(net.walk(I(1), I(2), D(3), g, I(4) != 0));
        }
        if (kind == "T") {
            std::default_random_engine g(I(4));
            return cell_result(net.teleport(I(1), I(2), g, I(3)));
        }
        if (kind == "K") {
            // through the factory used by the model: Config::network_movement
            Config config;
            config.anthro_kernel_type = "network";
            config.network_movement = f.at(3);
            config.network_min_distance = D(4);
            config.network_max_distance = D(4);
            Raster<int> dispersers(1, 1, 0);
            auto kernel = create_anthro_kernel<std::default_random_engine, Raster<int>, int>(
                config, dispersers, net);
            std::default_random_engine g(I(5));
            return cell_result((*kernel)(g, I(1), I(2)));
        }
        if (kind == "D" || kind == "R") {
            // the kernel's own constructors; R = random distance in [dmin, dmax)
            double dmin = D(4);
            double dmax = kind == "R" ? D(5) : dmin;
            int seed = kind == "R" ? I(6) : I(5);
            std::default_random_engine g(seed);
            if (f.at(3) == "t") {
                NetworkDispersalKernel<int> kernel(net);
                return cell_result(kernel(g, I(1), I(2)));
            }
            NetworkDispersalKernel<int> kernel(net, dmin, dmax, f.at(3) == "j");
            return cell_result(kernel(g, I(1), I(2)));
        }
        if (kind == "S")
            return net.segment_view(I(1), I(2));
        if (kind == "C")
            return net.cell_by_cost(I(1), I(2), D(3));
        if (kind == "X") {
            std::set<int> ignore;
            if (f.at(2) != "-")
                for (const auto& t : split_on(f.at(2), '.'))
                    ignore.insert(std::stoi(t));
            std::default_random_engine g(I(3));
            return "node " + std::to_string(net.call_next_node(I(1), ignore, g));
        }
        if (kind == "E") {
            NetworkDispersalKernel<int> kernel(net);
            return std::string("eligible ") + (kernel.is_cell_eligible(I(1), I(2)) ? "1" : "0")
                   + (net.has_node_at(I(1), I(2)) ? "1" : "0");
        }
        return "unknown_query";
    });
}

static std::string decode_text(const std::string& t)
{
    if (t == "~")
        return "";
    std::string s;
    for (char ch : t)
        s += ch == '|' ? '\n' : ch;
    s += '\n';
    return s;
}

static void arm_watchdog()
{
    struct itimerval tv;
    tv.it_interval.tv_sec = 0;
    tv.it_interval.tv_usec = 0;
    tv.it_value.tv_sec = 1;
    tv.it_value.tv_usec = 0;
    setitimer(ITIMER_VIRTUAL, &tv, nullptr);
}

// Child: load (printing the dump when `first`), then the queries from `from` on.
// One byte is written to `progress` after the load and after every query.
static void child_run(int k, const std::vector<std::string>& t, size_t from, bool first, int progress)
{
    signal(SIGVTALRM, SIG_DFL);
    signal(SIGALRM, SIG_DFL);
    alarm(60);
    arm_watchdog();
    BBox<double> bbox;
    bbox.north = std::stod(t.at(1));
    bbox.south = std::stod(t.at(2));
    bbox.east = std::stod(t.at(3));
    bbox.west = std::stod(t.at(4));
    TestNetwork net(bbox, std::stod(t.at(5)), std::stod(t.at(6)));
    bool allow_empty = t.at(7) == "1";
    std::string loaded = guarded([&]() -> std::string {
        std::stringstream stream(decode_text(t.at(8)));
        net.load(stream, allow_empty);
        return "ok";
    });
    char b = 'L';
    if (first) {
        std::printf("%d load %s\n", k, loaded.c_str());
        if (loaded == "ok") {
            std::string nodes;
            for (const auto& item : net.get_all_nodes())
                nodes += " " + std::to_string(item.first) + "@"
                         + scell(item.second.first, item.second.second);
            std::printf("%d nodes%s\n", k, nodes.c_str());
            std::printf("%d adj%s\n", k, net.dump_adj().c_str());
            std::printf("%d segs%s\n", k, net.dump_segments().c_str());
        }
        std::fflush(stdout);
    }
    if (write(progress, &b, 1) != 1)
        _exit(3);
    if (loaded != "ok")
        _exit(0);
    for (size_t i = from; 9 + i < t.size(); i++) {
        arm_watchdog();
        std::string r = run_query(net, t[9 + i]);
        std::printf("%d q%zu %s\n", k, i, r.c_str());
        std::fflush(stdout);
        b = 'Q';
        if (write(progress, &b, 1) != 1)
            _exit(3);
    }
    std::fflush(stdout);
    _exit(0);
}

int main(int argc, char** argv)
{
    if (argc < 2)
        return 2;
    for_each_case(argv[1], [](int k, const std::vector<std::string>& t) {
        if (t.size() < 9 || t[0] != "NET") {
            std::printf("%d load bad_case\n", k);
            return;
        }
        size_t nq = t.size() - 9;
        size_t from = 0;
        bool first = true;
        int guard = 0;
        while (true) {
            std::fflush(stdout);
            int fds[2];
            if (pipe(fds) != 0)
                std::exit(3);
            pid_t pid = fork();
            if (pid < 0)
                std::exit(3);
            if (pid == 0) {
                close(fds[0]);
                child_run(k, t, from, first, fds[1]);
                _exit(0);
            }
            close(fds[1]);
            size_t done = 0;  // bytes: 1 for the load + 1 per finished query
            char buf[256];
            ssize_t n;
            while ((n = read(fds[0], buf, sizeof buf)) > 0)
                done += (size_t)n;
            close(fds[0]);
            int status = 0;
            waitpid(pid, &status, 0);
            bool normal = WIFEXITED(status) && WEXITSTATUS(status) == 0;
            if (normal)
                break;
            std::string why;
            if (WIFSIGNALED(status)) {
                int sig = WTERMSIG(status);
                why = (sig == SIGVTALRM || sig == SIGALRM) ? "timeout"
                                                           : "crash:" + std::to_string(sig);
            }
            else
                why = "crash:exit" + std::to_string(WEXITSTATUS(status));
            if (done == 0) {
                // died while loading
                if (first)
                    std::printf("%d load %s\n", k, why.c_str());
                break;
            }
            size_t failed = from + (done - 1);
            if (failed >= nq)
                break;
            std::printf("%d q%zu %s\n", k, failed, why.c_str());
            from = failed + 1;
            first = false;
            if (from >= nq || ++guard > 64)
                break;
        }
        std::fflush(stdout);
    });
    return 0;
}
