// Implementation side of the metrics engine (C18): runs pops::SpreadRateAction,
// average_spread_rate, QuarantineEscapeAction, quarantine_escape_probability,
// distance_direction_to_quarantine, write_quarantine_escape, sum_of_infected and
// area_of_infected from /repo's working tree on a case file; same line protocol
// as ocaml/drv_metrics.ml.
//
// Case:  M rows cols ew ns dirs T R nsuit <i j>*nsuit <areas rows*cols>
//          <R runs x (T+1) infected rasters x rows*cols>
//   ew, ns are "num/den" (den a power of two); dirs is "-" (empty string, all
//   directions) or a comma separated list of N,S,E,W.
#include <pops/raster.hpp>
#include <pops/spread_rate.hpp>
#include <pops/quarantine.hpp>
#include <pops/statistics.hpp>
#include <cmath>
#include <cstdint>
#include <limits>
#include "hcommon.hpp"

using namespace pops;
// pops-core has its own pops::verif namespace (hooks); name ours explicitly
using ::verif::for_each_case;
using ::verif::guarded;

// Host pool stand-in with the three methods the metric classes use.
struct MetricsHosts
{
    Raster<int> infected;
    std::vector<std::vector<int>> cells;
    int infected_at(int row, int col) const
    {
        return infected(row, col);
    }
    const std::vector<std::vector<int>>& suitable_cells() const
    {
        return cells;
    }
};

typedef SpreadRateAction<MetricsHosts, int> SR;
typedef QuarantineEscapeAction<Raster<int>> QE;

// Read-only access to SpreadRateAction::boundaries_ (private, no accessor):
// an explicit instantiation may name a private member.
template<typename Tag, typename Tag::type Member>
struct Expose
{
    friend typename Tag::type get(Tag)
    {
        return Member;
    }
};
struct SRBoundaries
{
    typedef std::vector<BBoxInt> SR::*type;
    friend type get(SRBoundaries);
};
template struct Expose<SRBoundaries, &SR::boundaries_>;

// Exact text of a double: "nan", "max" (DBL_MAX), "0" or "<odd mantissa>p<exponent>".
static std::string canon(double x)
{
    if (std::isnan(x))
        return "nan";
    if (x == std::numeric_limits<double>::max())
        return "max";
    if (std::isinf(x))
        return x > 0 ? "inf" : "-inf";
    if (x == 0)
        return "0";
    int e;
    double m = std::frexp(x, &e);
    int64_t mant = (int64_t)std::ldexp(m, 53);
    e -= 53;
    while (mant % 2 == 0) {
        mant /= 2;
        e++;
    }
    return std::to_string(mant) + "p" + std::to_string(e);
}

static double parse_ratio(const std::string& s)
{
    size_t p = s.find('/');
    if (p == std::string::npos)
        return std::stod(s);
    return std::stod(s.substr(0, p)) / std::stod(s.substr(p + 1));
}

int main(int argc, char** argv)
{
    if (argc < 2)
        return 2;
    for_each_case(argv[1], [](int k, const std::vector<std::string>& t) {
        if (t[0] != "M")
            return;
        size_t pos = 1;
        auto next = [&]() { return std::stoi(t.at(pos++)); };
        int rows = next(), cols = next();
        double ew = parse_ratio(t.at(pos++));
        double ns = parse_ratio(t.at(pos++));
        std::string dirs = t.at(pos++);
        if (dirs == "-")
            dirs = "";
        int T = next(), R = next(), nsuit = next();
        MetricsHosts hosts;
        for (int c = 0; c < nsuit; c++) {
            int i = next();
            int j = next();
            hosts.cells.push_back({i, j});
        }
        auto read_raster = [&]() {
            Raster<int> r(rows, cols);
            for (int i = 0; i < rows; i++)
                for (int j = 0; j < cols; j++)
                    r(i, j) = next();
            return r;
        };
        Raster<int> areas = read_raster();
        std::vector<std::vector<Raster<int>>> runs;
        for (int r = 0; r < R; r++) {
            runs.emplace_back();
            for (int s = 0; s <= T; s++)
                runs.back().push_back(read_raster());
        }
        // spread rates
        std::vector<SR> srs;
        for (int r = 0; r < R; r++) {
            hosts.infected = runs[r][0];
            srs.emplace_back(hosts, rows, cols, ew, ns, (unsigned)T);
            for (int s = 0; s < T; s++) {
                hosts.infected = runs[r][s + 1];
                srs.back().action(hosts, (unsigned)s);
            }
            const std::vector<BBoxInt>& bounds = srs.back().*get(SRBoundaries());
            for (int s = 0; s <= T; s++) {
                int n, so, e, w;
                std::tie(n, so, e, w) = bounds.at(s);
                std::printf("%d bbox %d %d %d %d %d %d\n", k, r, s, n, so, e, w);
            }
            for (int s = 0; s < T; s++) {
                double n, so, e, w;
                std::tie(n, so, e, w) = srs.back().step_rate((unsigned)s);
                std::printf(
                    "%d rate %d %d %s %s %s %s\n",
                    k,
                    r,
                    s,
                    canon(n).c_str(),
                    canon(so).c_str(),
                    canon(e).c_str(),
                    canon(w).c_str());
            }
        }
        for (int s = 0; s < T; s++) {
            double n, so, e, w;
            std::tie(n, so, e, w) = average_spread_rate(srs, (unsigned)s);
            std::printf(
                "%d avg %d %s %s %s %s\n",
                k,
                s,
                canon(n).c_str(),
                canon(so).c_str(),
                canon(e).c_str(),
                canon(w).c_str());
        }
        // quarantine
        std::vector<QE> qes;
        bool failed = false;
        for (int r = 0; r < R; r++) {
            std::string res = guarded([&] {
                qes.emplace_back(areas, ew, ns, (unsigned)T, dirs);
                for (int s = 0; s < T; s++) {
                    hosts.infected = runs[r][s + 1];
                    qes.back().action(hosts, areas, (unsigned)s);
                }
                return std::string();
            });
            if (!res.empty()) {
                std::printf("%d q %d %s\n", k, r, res.c_str());
                failed = true;
                continue;
            }
            for (int s = 0; s < T; s++)
                std::printf(
                    "%d q %d %d %d %s %d\n",
                    k,
                    r,
                    s,
                    (int)qes.back().escaped((unsigned)s),
                    canon(qes.back().distance((unsigned)s)).c_str(),
                    (int)qes.back().direction((unsigned)s));
        }
        if (!failed) {
            for (int s = 0; s < T; s++) {
                std::printf(
                    "%d prob %d %s\n",
                    k,
                    s,
                    canon(quarantine_escape_probability(qes, (unsigned)s)).c_str());
                std::string dd;
                for (const auto& item : distance_direction_to_quarantine(qes, (unsigned)s))
                    dd += " " + canon(std::get<0>(item)) + " "
                          + std::to_string((int)std::get<1>(item));
                std::printf("%d dd %d%s\n", k, s, dd.c_str());
            }
            std::string csv = write_quarantine_escape(qes, (unsigned)T);
            for (auto& ch : csv)
                if (ch == '\n')
                    ch = '|';
            std::printf("%d csv %s\n", k, csv.c_str());
        }
        // statistics
        for (int r = 0; r < R; r++)
            for (int s = 0; s <= T; s++) {
                std::printf(
                    "%d sum %d %d %u\n",
                    k,
                    r,
                    s,
                    sum_of_infected(runs[r][s], hosts.cells));
                std::printf(
                    "%d area %d %d %s\n",
                    k,
                    r,
                    s,
                    canon(area_of_infected(runs[r][s], ew, ns, hosts.cells)).c_str());
            }
    });
    return 0;
}
