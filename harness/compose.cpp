// compose (property C09, implementation against implementation):
//
//   A   pops::Model::run_step for all steps (pools entry point with one or several hosts, or
//       the raster entry point),
//   B1  the same steps composed by hand from the PUBLIC ACTION CLASSES in the documented order
//       (soil ageing, lethal temperature, survival rate, spread = generate + disperse +
//       step_forward, overpopulation, host movement, treatments, mortality, spread rate,
//       quarantine; each iff enabled and scheduled, with the input whose index is the number
//       of earlier firings) with an own RandomNumberGeneratorProvider seeded from the same
//       Config, an own Environment, own pools on own copies of all rasters, and the dispersal
//       kernel of every spread step built with pops::create_dynamic_kernel from the same
//       Config (the overpopulation kernel has no public factory: it is built from the kernel
//       classes as documented at Model::create_overpopulation_movement_kernel),
//   B2  (single host, no competency table, susceptibility 1) the same steps composed from the
//       legacy pops::Simulation methods on plain rasters: remove, remove_percentage, generate,
//       disperse_and_infect, move_overpopulated_pests, movement, mortality, activate_soils;
//       dispersal kernels built DIRECTLY from the kernel classes (not through the factories of
//       kernel.hpp / natural_kernel.hpp / anthropogenic_kernel.hpp, so those are compared
//       against the classes they are documented to select); what Simulation does not offer
//       (treatments, spread rate, quarantine) is applied with the public classes on a
//       temporary single HostPool over the same plain rasters.
//       Simulation::set_environment is ALWAYS called with an Environment owned by the
//       composition, so Simulation::environment(true) never returns its function-local
//       `static Environment empty` (known finding C06-static-empty-environment): nothing
//       can leak between cases.
//
// After every step every variant prints every raster of every host, dispersers, established
// dispersers, outside dispersers, soil cohorts and the complete tables of the spread-rate and
// quarantine measurements, in canonical text; exceptions are printed by class.
//
// Case file: blocks `compose <pools|rasters>` ... `endcompose` (invisible to harness/hostmodel.cpp and
// drv_hostmodel.ml, which only read `case ... end`, so one replay file can carry either kind) in the
// line format of harness/hostmodel.cpp plus
//   mode compose|onlyA         which variants run (default compose)
//   group <id> <feature>       (disabled-input groups; only echoed)
//   seedmode single | multi | named k=v k=v ...
//   qareas <rows*cols ints>    quarantine areas (default all 0)
//   qdirs <text|->             quarantine directions
//   dispersal_percentage <q>   Config::dispersal_percentage (default: the library's)
// Output lines: `<case> <A|B1|B2> s<step> <state>` / `... s<step> err <class>` /
// `<case> <variant> setup err <class>` / `<case> B2 skip <why>` / `<case> B2 flags s<step> <names>` /
// `<case> B1 fired s<step> <names of the actions the composition ran>` (coverage only).
#include <pops/model.hpp>
#include <pops/simulation.hpp>
#include <pops/spread_rate.hpp>
#include <pops/quarantine.hpp>
#include <pops/treatments.hpp>
#include <pops/kernel.hpp>
#include <pops/competency_table.hpp>
#include <pops/pest_host_table.hpp>
#include <cinttypes>
#include <cfloat>
#include <map>
#include <memory>
#include "hcommon.hpp"

using namespace pops;
using ::verif::guarded;
using ::verif::split_ws;

typedef Raster<int> IR;
typedef Raster<double> DR;
typedef DR::IndexType RI;
typedef std::default_random_engine Engine;
typedef RandomNumberGeneratorProvider<Engine> Provider;
typedef Model<IR, DR, RI> TModel;
typedef Environment<IR, DR, RI, Provider> Env;
typedef HostPool<IR, DR, RI, Provider> SPool;
typedef MultiHostPool<SPool, IR, DR, RI, Provider> MPool;
typedef PestPool<IR, DR, RI> PPool;
typedef SoilPool<IR, DR, RI, Provider> Soil;
typedef Simulation<IR, DR, RI, Provider> Sim;

static double parse_q(const std::string& s)
{
    size_t p = s.find('/');
    if (p == std::string::npos)
        return std::stod(s);
    return std::stod(s.substr(0, p)) / std::stod(s.substr(p + 1));
}

static std::vector<int> parse_ints(const std::string& s)
{
    std::vector<int> out;
    if (s.empty() || s == "-")
        return out;
    std::stringstream ss(s);
    std::string t;
    while (std::getline(ss, t, ','))
        out.push_back(std::stoi(t));
    return out;
}

// exact text of a double
static std::string q_of_double(double v)
{
    if (std::isnan(v))
        return "nan";
    if (v == DBL_MAX)
        return "max";
    if (std::isinf(v))
        return v > 0 ? "inf" : "-inf";
    if (v == 0)
        return "0/1";
    int e;
    double m = std::frexp(v, &e);
    long long num = (long long)std::ldexp(m, 53);
    int ex = e - 53;
    while (num % 2 == 0 && ex < 0) {
        num /= 2;
        ex++;
    }
    char buf[64];
    if (ex >= 0)
        std::snprintf(buf, sizeof buf, "%lld*2^%d/1", num, ex);
    else
        std::snprintf(buf, sizeof buf, "%lld/2^%d", num, -ex);
    return buf;
}

struct HostData
{
    IR S, I, TE, R, D, TH;
    std::vector<IR> E, M;
    std::vector<std::vector<int>> suitable;
};

struct Treat
{
    bool pest;
    int y, m, d, days;
    std::string app;
    DR map;
};

struct Case
{
    std::string entry{"pools"};
    int rows{0}, cols{0};
    std::map<std::string, std::vector<std::string>> kv;
    std::vector<std::vector<std::string>> multi;
};

// everything a variant needs, parsed once; every variant works on its own copy
struct Scn
{
    std::string entry, mode;
    int rows{0}, cols{0};
    Config config;  // schedules NOT yet created
    bool use_soils{false};
    int soil_cohorts{1};
    bool use_weather{false};
    int nhosts{1}, nsteps{0};
    bool with_pht{false};
    std::vector<std::vector<double>> pht_rows, comp_rows;
    std::vector<HostData> hosts;
    IR totpop, qareas;
    std::vector<DR> weathers, temps, survs;
    std::vector<std::vector<int>> movements;
    std::vector<Treat> treats;
    int clear_at{-1}, clear_step{0};
};

static const std::vector<std::string>& get(const Case& c, const std::string& k)
{
    static const std::vector<std::string> empty;
    auto it = c.kv.find(k);
    return it == c.kv.end() ? empty : it->second;
}

static void parse_case(const Case& cs, Scn& sc)
{
    int rows = cs.rows, cols = cs.cols;
    auto T = [&](const std::string& key, size_t i) -> const std::string& {
        return get(cs, key).at(i);
    };
    Config& config = sc.config;
    sc.entry = cs.entry;
    sc.mode = get(cs, "mode").empty() ? "compose" : T("mode", 0);
    sc.rows = rows;
    sc.cols = cols;
    config.rows = rows;
    config.cols = cols;
    config.ew_res = parse_q(T("grid", 2));
    config.ns_res = parse_q(T("grid", 3));
    config.set_date_start(std::stoi(T("calendar", 0)), std::stoi(T("calendar", 1)), std::stoi(T("calendar", 2)));
    config.set_date_end(std::stoi(T("calendar", 3)), std::stoi(T("calendar", 4)), std::stoi(T("calendar", 5)));
    config.set_step_unit(T("calendar", 6));
    config.set_step_num_units((unsigned)std::stoi(T("calendar", 7)));
    config.set_season_start_end_month(std::stoi(T("season", 0)), std::stoi(T("season", 1)));
    config.random_seed = std::stoi(T("seed", 0));
    std::string seedmode = get(cs, "seedmode").empty() ? "single" : T("seedmode", 0);
    if (seedmode == "multi")
        config.multiple_random_seeds = true;
    if (seedmode == "named") {
        std::string text;
        const auto& kvs = get(cs, "seedmode");
        for (size_t q = 1; q < kvs.size(); q++)
            text += (q > 1 ? "," : "") + kvs[q];
        config.read_seeds(text, ',', '=');
    }
    config.model_type = T("mt", 0);
    config.latency_period_steps = std::stoi(T("mt", 1));
    config.generate_stochasticity = T("stoch", 0) == "1";
    config.establishment_stochasticity = T("stoch", 1) == "1";
    config.movement_stochasticity = T("stoch", 2) == "1";
    config.dispersal_stochasticity = T("stoch", 3) == "1";
    config.establishment_probability = parse_q(T("estprob", 0));
    config.reproductive_rate = parse_q(T("rr", 0));
    config.natural_kernel_type = T("kernel", 0);
    config.natural_direction = T("kernel", 1);
    config.natural_scale = parse_q(T("kernel", 2));
    config.natural_kappa = parse_q(T("kernel", 3));
    config.shape = parse_q(T("kernel", 4));
    config.use_anthropogenic_kernel = T("anthro", 0) == "1";
    config.anthro_kernel_type = T("anthro", 1);
    config.anthro_direction = T("anthro", 2);
    config.anthro_scale = parse_q(T("anthro", 3));
    config.anthro_kappa = parse_q(T("anthro", 4));
    config.percent_natural_dispersal = parse_q(T("anthro", 5));
    if (!get(cs, "dispersal_percentage").empty())
        config.dispersal_percentage = parse_q(T("dispersal_percentage", 0));
    config.use_lethal_temperature = T("lethal", 0) == "1";
    config.lethal_temperature_month = std::stoi(T("lethal", 1));
    config.lethal_temperature = parse_q(T("lethal", 2));
    config.use_survival_rate = T("survival", 0) == "1";
    config.survival_rate_month = std::stoi(T("survival", 1));
    config.survival_rate_day = std::stoi(T("survival", 2));
    config.use_overpopulation_movements = T("overpop", 0) == "1";
    config.overpopulation_percentage = parse_q(T("overpop", 1));
    config.leaving_percentage = parse_q(T("overpop", 2));
    config.leaving_scale_coefficient = parse_q(T("overpop", 3));
    config.use_movements = T("movements", 0) == "1";
    config.use_treatments = T("treatments", 0) == "1";
    config.use_mortality = T("mortality", 0) == "1";
    config.mortality_frequency = T("mortality", 1) == "-" ? "" : T("mortality", 1);
    config.mortality_frequency_n = (unsigned)std::stoi(T("mortality", 2));
    config.use_spreadrates = T("spreadrates", 0) == "1";
    config.spreadrate_frequency = T("spreadrates", 1) == "-" ? "" : T("spreadrates", 1);
    config.spreadrate_frequency_n = (unsigned)std::stoi(T("spreadrates", 2));
    config.use_quarantine = T("quarantine", 0) == "1";
    config.quarantine_frequency = T("quarantine", 1) == "-" ? "" : T("quarantine", 1);
    config.quarantine_frequency_n = (unsigned)std::stoi(T("quarantine", 2));
    config.quarantine_directions = get(cs, "qdirs").empty() || T("qdirs", 0) == "-" ? "" : T("qdirs", 0);
    sc.use_soils = T("soils", 0) == "1";
    config.dispersers_to_soils_percentage = parse_q(T("soils", 1));
    sc.soil_cohorts = std::stoi(T("soils", 2));
    sc.use_weather = T("weather", 0) == "1";
    config.weather = sc.use_weather;
    config.set_arrival_behavior(T("arrival", 0));
    config.output_frequency = "";
    config.output_frequency_n = 0;
    sc.nhosts = std::stoi(T("hosts", 0));
    sc.nsteps = std::stoi(T("steps", 0));
    sc.hosts.assign(sc.nhosts, HostData());
    sc.totpop = IR(rows, cols, 0);
    sc.qareas = IR(rows, cols, 0);
    auto read_dr = [&](const std::vector<std::string>& t, size_t from) {
        DR r(rows, cols, 0.0);
        for (int i = 0; i < rows * cols; i++)
            r(i / cols, i % cols) = parse_q(t.at(from + i));
        return r;
    };
    for (const auto& t : cs.multi) {
        if (t[0] == "pht") {
            sc.with_pht = true;
            sc.pht_rows.push_back({parse_q(t.at(2)), parse_q(t.at(3)), (double)std::stoi(t.at(4))});
        }
        else if (t[0] == "comprow") {
            std::vector<double> row;
            for (int v : parse_ints(t.at(1)))
                row.push_back(v);
            row.push_back(parse_q(t.at(2)));
            sc.comp_rows.push_back(row);
        }
        else if (t[0] == "cells") {
            HostData& h = sc.hosts.at(std::stoi(t.at(1)));
            std::vector<std::string> parts0;
            {
                std::stringstream ss(t.at(2));
                std::string p;
                while (std::getline(ss, p, '|'))
                    parts0.push_back(p);
            }
            size_t ne = parse_ints(parts0.at(1)).size(), nm = parse_ints(parts0.at(5)).size();
            h.S = IR(rows, cols, 0);
            h.I = IR(rows, cols, 0);
            h.TE = IR(rows, cols, 0);
            h.R = IR(rows, cols, 0);
            h.D = IR(rows, cols, 0);
            h.TH = IR(rows, cols, 0);
            h.E.assign(ne, IR(rows, cols, 0));
            h.M.assign(nm, IR(rows, cols, 0));
            for (int i = 0; i < rows * cols; i++) {
                std::vector<std::string> parts;
                std::stringstream ss(t.at(2 + i));
                std::string p;
                while (std::getline(ss, p, '|'))
                    parts.push_back(p);
                while (parts.size() < 8)
                    parts.push_back("");
                int r = i / cols, c = i % cols;
                h.S(r, c) = std::stoi(parts[0]);
                auto e = parse_ints(parts[1]);
                for (size_t q = 0; q < ne; q++)
                    h.E[q](r, c) = e.at(q);
                h.I(r, c) = std::stoi(parts[2]);
                h.TE(r, c) = std::stoi(parts[3]);
                h.R(r, c) = std::stoi(parts[4]);
                auto m = parse_ints(parts[5]);
                for (size_t q = 0; q < nm; q++)
                    h.M[q](r, c) = m.at(q);
                h.D(r, c) = std::stoi(parts[6]);
                h.TH(r, c) = std::stoi(parts[7]);
            }
        }
        else if (t[0] == "suitable") {
            HostData& h = sc.hosts.at(std::stoi(t.at(1)));
            for (size_t i = 2; i < t.size(); i++) {
                auto rc = parse_ints(t[i]);
                h.suitable.push_back({rc.at(0), rc.at(1)});
            }
        }
        else if (t[0] == "totpop") {
            for (int i = 0; i < rows * cols; i++)
                sc.totpop(i / cols, i % cols) = std::stoi(t.at(1 + i));
        }
        else if (t[0] == "qareas") {
            for (int i = 0; i < rows * cols; i++)
                sc.qareas(i / cols, i % cols) = std::stoi(t.at(1 + i));
        }
        else if (t[0] == "wraster")
            sc.weathers.push_back(read_dr(t, 1));
        else if (t[0] == "temp")
            sc.temps.push_back(read_dr(t, 1));
        else if (t[0] == "surv")
            sc.survs.push_back(read_dr(t, 1));
        else if (t[0] == "move") {
            sc.movements.push_back({std::stoi(t.at(1)), std::stoi(t.at(2)), std::stoi(t.at(3)), std::stoi(t.at(4)), std::stoi(t.at(5))});
            config.movement_schedule.push_back((unsigned)std::stoi(t.at(6)));
        }
        else if (t[0] == "treat") {
            Treat tr{t.at(1) == "1", std::stoi(t.at(2)), std::stoi(t.at(3)), std::stoi(t.at(4)), std::stoi(t.at(5)), t.at(6), read_dr(t, 7)};
            sc.treats.push_back(tr);
        }
    }
    if (sc.with_pht)
        config.read_pest_host_table(sc.pht_rows);
    if (!sc.comp_rows.empty())
        config.read_competency_table(sc.comp_rows);
    if (!get(cs, "clearafter").empty()) {
        sc.clear_at = std::stoi(T("clearafter", 0));
        sc.clear_step = std::stoi(T("clearafter", 1));
    }
}

// ---------------------------------------------------------------------------------------------
// canonical text of a state
// ---------------------------------------------------------------------------------------------
static std::string cell_text(const HostData& h, int r, int c)
{
    std::string s = std::to_string(h.S(r, c)) + "|";
    for (size_t k = 0; k < h.E.size(); k++)
        s += (k ? "," : "") + std::to_string(h.E[k](r, c));
    s += "|" + std::to_string(h.I(r, c)) + "|" + std::to_string(h.TE(r, c)) + "|" + std::to_string(h.R(r, c)) + "|";
    for (size_t k = 0; k < h.M.size(); k++)
        s += (k ? "," : "") + std::to_string(h.M[k](r, c));
    s += "|" + std::to_string(h.D(r, c)) + "|" + std::to_string(h.TH(r, c));
    return s;
}

struct Work
{
    std::vector<HostData> hosts;
    IR totpop, dispersers, established;
    std::vector<std::tuple<int, int>> outside;
    std::vector<IR> soil;
};

static Work make_work(const Scn& sc)
{
    Work w;
    w.hosts = sc.hosts;
    w.totpop = sc.totpop;
    w.dispersers = IR(sc.rows, sc.cols, 0);
    w.established = IR(sc.rows, sc.cols, 0);
    if (sc.use_soils)
        w.soil.assign(sc.soil_cohorts, IR(sc.rows, sc.cols, 0));
    return w;
}

template<typename SpreadRate>
static std::string state_text(
    const Scn& sc, const Work& w, const SpreadRate* rate, unsigned nrate, const QuarantineEscapeAction<IR>* quar, unsigned nquar)
{
    int rows = sc.rows, cols = sc.cols;
    std::string s;
    for (size_t h = 0; h < w.hosts.size(); h++) {
        s += " | h" + std::to_string(h) + ":";
        for (int i = 0; i < rows * cols; i++)
            s += " " + cell_text(w.hosts[h], i / cols, i % cols);
        s += " ; suit";
        for (auto& rc : w.hosts[h].suitable)
            s += " " + std::to_string(rc[0]) + "," + std::to_string(rc[1]);
    }
    s += " | disp";
    for (int i = 0; i < rows * cols; i++)
        s += " " + std::to_string(w.dispersers(i / cols, i % cols));
    s += " | estab";
    for (int i = 0; i < rows * cols; i++)
        s += " " + std::to_string(w.established(i / cols, i % cols));
    s += " | outside";
    for (auto& o : w.outside)
        s += " " + std::to_string(std::get<0>(o)) + "," + std::to_string(std::get<1>(o));
    s += " | soil";
    if (sc.use_soils)
        for (int i = 0; i < rows * cols; i++) {
            s += " ";
            for (size_t q = 0; q < w.soil.size(); q++)
                s += (q ? "," : "") + std::to_string(w.soil[q](i / cols, i % cols));
        }
    s += " | rate";
    if (rate)
        for (unsigned i = 0; i < nrate; i++) {
            double n, so, e, we;
            std::tie(n, so, e, we) = rate->step_rate(i);
            s += " " + q_of_double(n) + "," + q_of_double(so) + "," + q_of_double(e) + "," + q_of_double(we);
        }
    s += " | quar";
    if (quar)
        for (unsigned i = 0; i < nquar; i++) {
            s += " " + std::string(quar->escaped(i) ? "1" : "0") + "," + q_of_double(quar->distance(i)) + ","
                 + std::to_string(static_cast<int>(quar->direction(i)));
        }
    return s;
}

static void put(int k, const char* tag, int step, const std::string& text)
{
    std::printf("%d %s s%d%s\n", k, tag, step, text.c_str());
}

// ---------------------------------------------------------------------------------------------
// A: Model::run_step
// ---------------------------------------------------------------------------------------------
static void run_A(int k, const Scn& sc)
{
    const char* tag = "A";
    Config config = sc.config;
    Work w = make_work(sc);
    int rows = sc.rows, cols = sc.cols;
    std::string err = guarded([&]() -> std::string {
        config.create_schedules();
        if (sc.use_weather)
            config.weather_size = 0;
        TModel model(config);
        if (sc.use_soils)
            model.activate_soils(w.soil);
        std::vector<std::unique_ptr<SPool>> pools;
        std::vector<SPool*> pool_ptrs;
        if (sc.entry == "pools") {
            for (int h = 0; h < sc.nhosts; h++) {
                HostData& d = w.hosts[h];
                pools.emplace_back(new SPool(
                    model_type_from_string(config.model_type),
                    d.S,
                    d.E,
                    config.latency_period_steps,
                    d.I,
                    d.TE,
                    d.R,
                    d.M,
                    d.D,
                    d.TH,
                    model.environment(),
                    config.generate_stochasticity,
                    config.reproductive_rate,
                    config.establishment_stochasticity,
                    config.establishment_probability,
                    config.rows,
                    config.cols,
                    d.suitable));
                pool_ptrs.push_back(pools.back().get());
            }
        }
        std::unique_ptr<MPool> multi;
        std::unique_ptr<PestHostTable<SPool>> pht;
        std::unique_ptr<CompetencyTable<SPool>> comp;
        std::unique_ptr<Treatments<SPool, DR>> treatments;
        std::unique_ptr<SpreadRateAction<MPool, RI>> spread_rate;
        PPool pest_pool{w.dispersers, w.established, w.outside};
        unsigned nquar = config.use_quarantine ? config.quarantine_num_steps() : 0;
        unsigned nrate = 0;
        QuarantineEscapeAction<IR> quarantine(sc.qareas, config.ew_res, config.ns_res, nquar, config.quarantine_directions);
        if (sc.entry == "pools") {
            multi.reset(new MPool(pool_ptrs, config));
            if (sc.with_pht) {
                pht.reset(new PestHostTable<SPool>(config, model.environment()));
                multi->set_pest_host_table(*pht);
            }
            if (!sc.comp_rows.empty()) {
                comp.reset(new CompetencyTable<SPool>(config, model.environment()));
                multi->set_competency_table(*comp);
            }
            treatments.reset(new Treatments<SPool, DR>(config.scheduler()));
            for (auto& tr : sc.treats)
                treatments->add_treatment(tr.map, Date(tr.y, tr.m, tr.d), tr.days, treatment_app_enum_from_string(tr.app));
            nrate = config.use_spreadrates ? config.rate_num_steps() : 0;
            spread_rate.reset(new SpreadRateAction<MPool, RI>(*multi, config.rows, config.cols, config.ew_res, config.ns_res, nrate));
        }
        for (int step = 0; step < sc.nsteps; step++) {
            std::string e = guarded([&]() -> std::string {
                if (sc.use_weather)
                    model.environment().update_weather_coefficient(sc.weathers.at(step % sc.weathers.size()));
                if (sc.entry == "pools" && sc.clear_at == step)
                    treatments->clear_after_step((unsigned)sc.clear_step);
                if (sc.entry == "pools") {
                    model.run_step(
                        step,
                        *multi,
                        pest_pool,
                        w.totpop,
                        *treatments,
                        sc.temps,
                        sc.survs,
                        *spread_rate,
                        quarantine,
                        sc.qareas,
                        sc.movements,
                        Network<int>::null_network());
                }
                else {
                    HostData& d = w.hosts[0];
                    model.run_step(
                        step,
                        d.I,
                        d.S,
                        w.totpop,
                        d.TH,
                        w.dispersers,
                        w.established,
                        d.TE,
                        d.E,
                        d.M,
                        d.D,
                        sc.temps,
                        sc.survs,
                        d.R,
                        w.outside,
                        quarantine,
                        sc.qareas,
                        sc.movements,
                        Network<int>::null_network(),
                        d.suitable);
                }
                return std::string();
            });
            if (!e.empty()) {
                put(k, tag, step, " err " + e.substr(4));
                break;
            }
            put(k, tag, step, state_text(sc, w, spread_rate.get(), nrate, &quarantine, nquar));
        }
        (void)rows;
        (void)cols;
        return std::string();
    });
    if (!err.empty())
        std::printf("%d %s setup err %s\n", k, tag, err.substr(4).c_str());
}

// ---------------------------------------------------------------------------------------------
// kernels built directly from the kernel classes (B1: overpopulation; B2: all)
// ---------------------------------------------------------------------------------------------
// One kernel of the kind the documentation of natural_kernel.hpp / anthropogenic_kernel.hpp
// describes for a kernel type: uniform and deterministic-neighbor by name, otherwise the
// deterministic kernel when dispersal stochasticity is off and the radial kernel when on.
struct DirectKernel
{
    DispersalKernelType type;
    bool stochastic;
    std::unique_ptr<UniformDispersalKernel> uniform;
    std::unique_ptr<DeterministicNeighborDispersalKernel> neighbor;
    std::unique_ptr<DeterministicDispersalKernel<IR>> deterministic;
    std::unique_ptr<RadialDispersalKernel<IR>> radial;

    DirectKernel(
        const std::string& type_name,
        const std::string& direction,
        double scale,
        double kappa,
        double shape,
        bool dispersal_stochasticity,
        double dispersal_percentage,
        double ew_res,
        double ns_res,
        int rows,
        int cols,
        const IR& dispersers)
        : type(kernel_type_from_string(type_name)), stochastic(dispersal_stochasticity)
    {
        if (type == DispersalKernelType::Uniform)
            uniform.reset(new UniformDispersalKernel(rows, cols));
        else if (type == DispersalKernelType::DeterministicNeighbor)
            neighbor.reset(new DeterministicNeighborDispersalKernel(direction_from_string(direction)));
        else if (!stochastic)
            deterministic.reset(new DeterministicDispersalKernel<IR>(type, dispersers, dispersal_percentage, ew_res, ns_res, scale, shape));
        else
            radial.reset(new RadialDispersalKernel<IR>(ew_res, ns_res, type, scale, direction_from_string(direction), kappa, shape));
    }

    template<typename G>
    std::tuple<int, int> operator()(G& g, int row, int col)
    {
        if (uniform)
            return (*uniform)(g, row, col);
        if (neighbor)
            return (*neighbor)(g, row, col);
        if (deterministic)
            return (*deterministic)(g, row, col);
        return (*radial)(g, row, col);
    }
    bool draws() const
    {
        return uniform || radial;
    }
};

// natural + anthropogenic: a Bernoulli draw with the share of natural dispersal from the
// anthropogenic stream decides, the chosen kernel draws from its own stream
struct DirectComposite
{
    DirectKernel natural;
    std::unique_ptr<DirectKernel> anthro;
    bool use_anthro;
    std::bernoulli_distribution pick_natural;
    std::function<void(int, int)> observe;

    DirectComposite(const Config& c, const IR& dispersers)
        : natural(
            c.natural_kernel_type,
            c.natural_direction,
            c.natural_scale,
            c.natural_kappa,
            c.shape,
            c.dispersal_stochasticity,
            c.dispersal_percentage,
            c.ew_res,
            c.ns_res,
            c.rows,
            c.cols,
            dispersers),
          use_anthro(c.use_anthropogenic_kernel),
          pick_natural(c.percent_natural_dispersal)
    {
        if (use_anthro)
            anthro.reset(new DirectKernel(
                c.anthro_kernel_type,
                c.anthro_direction,
                c.anthro_scale,
                c.anthro_kappa,
                c.shape,
                c.dispersal_stochasticity,
                c.dispersal_percentage,
                c.ew_res,
                c.ns_res,
                c.rows,
                c.cols,
                dispersers));
    }

    std::tuple<int, int> operator()(Provider& g, int row, int col)
    {
        std::tuple<int, int> to;
        if (!use_anthro || pick_natural(g.anthropogenic_dispersal()))
            to = natural(g.natural_dispersal(), row, col);
        else
            to = (*anthro)(g.anthropogenic_dispersal(), row, col);
        if (observe)
            observe(std::get<0>(to), std::get<1>(to));
        return to;
    }
};

// "Same as the natural kernel. The natural kernel parameters are used, but the scale for radial
// and deterministic kernel is multiplied by the leaving scale coefficient."
struct DirectOverpopulationKernel
{
    DirectKernel kernel;
    int calls{0};
    DirectOverpopulationKernel(const Config& c, const IR& dispersers)
        : kernel(
            c.natural_kernel_type,
            c.natural_direction,
            c.natural_scale * c.leaving_scale_coefficient,
            c.natural_kappa,
            c.shape,
            c.dispersal_stochasticity,
            c.dispersal_percentage,
            c.ew_res,
            c.ns_res,
            c.rows,
            c.cols,
            dispersers)
    {}
    template<typename G>
    std::tuple<int, int> operator()(G& g, int row, int col)
    {
        calls++;
        return kernel(g, row, col);
    }
};

// number of earlier firings of a schedule = index of the input of this firing
struct Firing
{
    unsigned fired{0};
    unsigned next()
    {
        return fired++;
    }
};

// ---------------------------------------------------------------------------------------------
// B1: the public action classes, one by one
// ---------------------------------------------------------------------------------------------
static void run_B1(int k, const Scn& sc)
{
    const char* tag = "B1";
    Config config = sc.config;
    Work w = make_work(sc);
    bool pools_entry = sc.entry == "pools";
    std::string err = guarded([&]() -> std::string {
        config.create_schedules();
        Provider generator(config);
        Env env;
        std::shared_ptr<Soil> soil;
        if (sc.use_soils)
            soil.reset(new Soil(w.soil, env, config.generate_stochasticity, config.establishment_stochasticity));
        int nh = pools_entry ? sc.nhosts : 1;
        std::vector<std::unique_ptr<SPool>> pools;
        std::vector<SPool*> pool_ptrs;
        for (int h = 0; h < nh; h++) {
            HostData& d = w.hosts[h];
            pools.emplace_back(new SPool(
                model_type_from_string(config.model_type),
                d.S,
                d.E,
                config.latency_period_steps,
                d.I,
                d.TE,
                d.R,
                d.M,
                d.D,
                d.TH,
                env,
                config.generate_stochasticity,
                config.reproductive_rate,
                config.establishment_stochasticity,
                config.establishment_probability,
                config.rows,
                config.cols,
                d.suitable));
            pool_ptrs.push_back(pools.back().get());
        }
        MPool hosts(pool_ptrs, config);
        std::unique_ptr<PestHostTable<SPool>> pht;
        std::unique_ptr<CompetencyTable<SPool>> comp;
        Treatments<SPool, DR> treatments(config.scheduler());
        if (pools_entry) {
            if (sc.with_pht) {
                pht.reset(new PestHostTable<SPool>(config, env));
                hosts.set_pest_host_table(*pht);
            }
            if (!sc.comp_rows.empty()) {
                comp.reset(new CompetencyTable<SPool>(config, env));
                hosts.set_competency_table(*comp);
            }
            for (auto& tr : sc.treats)
                treatments.add_treatment(tr.map, Date(tr.y, tr.m, tr.d), tr.days, treatment_app_enum_from_string(tr.app));
        }
        PPool pests{w.dispersers, w.established, w.outside};
        unsigned nquar = config.use_quarantine ? config.quarantine_num_steps() : 0;
        unsigned nrate = pools_entry && config.use_spreadrates ? config.rate_num_steps() : 0;
        QuarantineEscapeAction<IR> quarantine(sc.qareas, config.ew_res, config.ns_res, nquar, config.quarantine_directions);
        SpreadRateAction<MPool, RI> spread_rate(hosts, config.rows, config.cols, config.ew_res, config.ns_res, nrate);
        Firing lethal, survival, rates, quar;
        unsigned movement_cursor = 0;
        const Network<RI>& network = Network<RI>::null_network();
        for (int step = 0; step < sc.nsteps; step++) {
            std::string fired;
            std::string e = guarded([&]() -> std::string {
                if (sc.use_weather)
                    env.update_weather_coefficient(sc.weathers.at(step % sc.weathers.size()));
                if (pools_entry && sc.clear_at == step)
                    treatments.clear_after_step((unsigned)sc.clear_step);
                // 1 soil ageing
                if (soil) {
                    soil->next_step(step);
                    fired += " soil";
                }
                // 2 lethal temperature
                if (config.use_lethal_temperature && config.lethal_schedule().at(step)) {
                    env.update_temperature(sc.temps.at(lethal.next()));
                    RemoveByTemperature<MPool, IR, DR, RI, Provider> remove(env, config.lethal_temperature);
                    remove.action(hosts, generator);
                    fired += " lethal";
                }
                // 3 survival rate
                if (config.use_survival_rate && config.survival_rate_schedule().at(step)) {
                    SurvivalRateAction<MPool, IR, DR> survive(sc.survs.at(survival.next()));
                    survive.action(hosts, generator);
                    fired += " survival";
                }
                // 4 spread: generation, dispersal, latency progression, then overpopulation and host movement
                if (config.spread_schedule().at(step)) {
                    auto kernel = create_dynamic_kernel<Engine, IR, RI>(config, w.dispersers, network);
                    SpreadAction<MPool, PPool, IR, DR, RI, decltype(kernel), Provider> spread(kernel);
                    env.set_total_population(&w.totpop);
                    if (soil)
                        spread.activate_soils(soil, config.dispersers_to_soils_percentage);
                    spread.generate(hosts, pests, generator);
                    spread.disperse(hosts, pests, generator);
                    hosts.step_forward(step);
                    fired += " spread";
                    if (config.use_overpopulation_movements) {
                        DirectOverpopulationKernel okernel(config, w.dispersers);
                        MoveOverpopulatedPests<MPool, PPool, IR, DR, RI, DirectOverpopulationKernel> move_pests(
                            okernel, config.overpopulation_percentage, config.leaving_percentage, config.rows, config.cols);
                        move_pests.action(hosts, pests, generator);
                        fired += okernel.calls ? " overpopulation_moved" : " overpopulation";
                    }
                    if (config.use_movements) {
                        HostMovement<MPool, IR, DR, RI> movement((unsigned)step, movement_cursor, sc.movements, config.movement_schedule);
                        unsigned before = movement_cursor;
                        movement_cursor = movement.action(hosts, generator);
                        fired += movement_cursor != before ? " movement_moved" : " movement";
                    }
                }
                // 5 treatments
                if (config.use_treatments) {
                    bool changed = false;
                    for (auto* host : hosts.host_pools())
                        changed = treatments.manage((unsigned)step, *host) || changed;
                    fired += changed ? " treatments_applied" : " treatments";
                }
                // 6 mortality
                if (config.use_mortality && config.mortality_schedule().at(step)) {
                    Mortality<MPool, IR, DR> mortality;
                    mortality.action(hosts);
                    fired += " mortality";
                }
                // 7 spread rate
                if (config.use_spreadrates && config.spread_rate_schedule().at(step)) {
                    spread_rate.action(hosts, rates.next());
                    fired += " spread_rate";
                }
                // 8 quarantine
                if (config.use_quarantine && config.quarantine_schedule().at(step)) {
                    quarantine.action(hosts, sc.qareas, quar.next());
                    fired += " quarantine";
                }
                return std::string();
            });
            std::printf("%d %s fired s%d%s\n", k, tag, step, fired.c_str());
            if (!e.empty()) {
                put(k, tag, step, " err " + e.substr(4));
                break;
            }
            put(k, tag, step, state_text(sc, w, pools_entry ? &spread_rate : (SpreadRateAction<MPool, RI>*)nullptr, nrate, &quarantine, nquar));
        }
        return std::string();
    });
    if (!err.empty())
        std::printf("%d %s setup err %s\n", k, tag, err.substr(4).c_str());
}

// ---------------------------------------------------------------------------------------------
// B2: the legacy Simulation class on plain rasters
// ---------------------------------------------------------------------------------------------
static std::string b2_not_applicable(const Scn& sc)
{
    if (sc.entry == "pools" && sc.nhosts != 1)
        return "several_hosts";
    if (!sc.comp_rows.empty())
        return "competency_table";
    if (sc.entry == "pools" && sc.with_pht && !sc.pht_rows.empty() && sc.pht_rows[0][0] != 1)
        return "susceptibility_not_1";
    return "";
}

static void run_B2(int k, const Scn& sc)
{
    const char* tag = "B2";
    std::string why = b2_not_applicable(sc);
    if (!why.empty()) {
        std::printf("%d %s skip %s\n", k, tag, why.c_str());
        return;
    }
    Config config = sc.config;
    Work w = make_work(sc);
    bool pools_entry = sc.entry == "pools";
    HostData& d = w.hosts[0];
    std::string err = guarded([&]() -> std::string {
        config.create_schedules();
        Provider generator(config);
        Env env;
        ModelType model_type = model_type_from_string(config.model_type);
        Sim simulation(
            config.rows,
            config.cols,
            model_type,
            config.latency_period_steps,
            config.generate_stochasticity,
            config.establishment_stochasticity,
            config.movement_stochasticity);
        // always: Simulation::environment() then never falls back to its function-local static
        simulation.set_environment(&env);
        std::shared_ptr<Soil> soil;
        if (sc.use_soils) {
            soil.reset(new Soil(w.soil, env, config.generate_stochasticity, config.establishment_stochasticity));
            simulation.activate_soils(soil, config.dispersers_to_soils_percentage);
        }
        // what Simulation does not offer runs on a temporary single pool over the same rasters
        auto with_pool = [&](const std::function<void(SPool&)>& f) {
            SPool pool(
                model_type,
                d.S,
                d.E,
                config.latency_period_steps,
                d.I,
                d.TE,
                d.R,
                d.M,
                d.D,
                d.TH,
                env,
                config.generate_stochasticity,
                config.reproductive_rate,
                config.establishment_stochasticity,
                config.establishment_probability,
                config.rows,
                config.cols,
                d.suitable);
            try {
                f(pool);
            }
            catch (...) {
                env.remove_hosts();
                throw;
            }
            env.remove_hosts();
        };
        Treatments<SPool, DR> treatments(config.scheduler());
        if (pools_entry)
            for (auto& tr : sc.treats)
                treatments.add_treatment(tr.map, Date(tr.y, tr.m, tr.d), tr.days, treatment_app_enum_from_string(tr.app));
        unsigned nquar = config.use_quarantine ? config.quarantine_num_steps() : 0;
        unsigned nrate = pools_entry && config.use_spreadrates ? config.rate_num_steps() : 0;
        QuarantineEscapeAction<IR> quarantine(sc.qareas, config.ew_res, config.ns_res, nquar, config.quarantine_directions);
        std::unique_ptr<SpreadRateAction<SPool, RI>> spread_rate;
        with_pool([&](SPool& pool) {
            spread_rate.reset(new SpreadRateAction<SPool, RI>(pool, config.rows, config.cols, config.ew_res, config.ns_res, nrate));
        });
        double mortality_rate = 0;
        int mortality_lag = 0;
        bool have_mortality_parameters = false;
        if (pools_entry && sc.with_pht && !sc.pht_rows.empty()) {
            mortality_rate = sc.pht_rows[0][1];
            mortality_lag = (int)sc.pht_rows[0][2];
            have_mortality_parameters = true;
        }
        Firing lethal, survival, rates, quar;
        unsigned movement_cursor = 0;
        for (int step = 0; step < sc.nsteps; step++) {
            std::string flags;
            std::string e = guarded([&]() -> std::string {
                if (sc.use_weather)
                    env.update_weather_coefficient(sc.weathers.at(step % sc.weathers.size()));
                if (pools_entry && sc.clear_at == step)
                    treatments.clear_after_step((unsigned)sc.clear_step);
                if (soil)
                    soil->next_step(step);
                if (config.use_lethal_temperature && config.lethal_schedule().at(step)) {
                    env.update_temperature(sc.temps.at(lethal.next()));
                    simulation.remove(d.I, d.S, d.E, d.TE, d.M, config.lethal_temperature, d.suitable, generator);
                }
                if (config.use_survival_rate && config.survival_rate_schedule().at(step))
                    simulation.remove_percentage(d.I, d.S, d.M, d.E, d.TE, sc.survs.at(survival.next()), d.suitable, generator);
                if (config.spread_schedule().at(step)) {
                    DirectComposite kernel(config, w.dispersers);
                    bool zero_suitability = false;
                    kernel.observe = [&](int row, int col) {
                        // a disperser is about to land on (row, col): single HostPool::disperser_to draws
                        // its establishment variate whenever the cell has susceptible hosts, the
                        // multi-host pool of the model only when the suitability is positive
                        if (row < 0 || row >= config.rows || col < 0 || col >= config.cols)
                            return;
                        if (d.S(row, col) > 0 && sc.use_weather && !(env.weather_coefficient_at(row, col) * d.S(row, col) / (double)w.totpop(row, col) > 0))
                            zero_suitability = true;
                    };
                    simulation.generate(w.dispersers, w.established, d.I, sc.use_weather, config.reproductive_rate, d.suitable, generator);
                    if (soil && sc.use_weather)
                        for (auto& rc : d.suitable)
                            if (d.S(rc[0], rc[1]) > 0 && soil->total_at(rc[0], rc[1]) > 0
                                && !(env.weather_coefficient_at(rc[0], rc[1]) > 0))
                                zero_suitability = true;  // (a soil cell with coefficient 0 releases nothing; kept for completeness)
                    simulation.disperse_and_infect(
                        (unsigned)step,
                        w.dispersers,
                        w.established,
                        d.S,
                        d.E,
                        d.I,
                        d.M,
                        w.totpop,
                        d.TE,
                        w.outside,
                        sc.use_weather,
                        kernel,
                        d.suitable,
                        config.establishment_probability,
                        generator);
                    if (zero_suitability && config.establishment_stochasticity)
                        flags += " zero_suitability_landing";
                    if (config.use_overpopulation_movements) {
                        DirectOverpopulationKernel okernel(config, w.dispersers);
                        simulation.move_overpopulated_pests(
                            d.S,
                            d.I,
                            d.TH,
                            w.outside,
                            okernel,
                            d.suitable,
                            config.overpopulation_percentage,
                            config.leaving_percentage,
                            generator);
                        if (okernel.calls > 0)
                            flags += okernel.kernel.draws() ? " overpopulation_move_stochastic_kernel" : " overpopulation_move";
                    }
                    if (config.use_movements)
                        movement_cursor = simulation.movement(
                            d.I,
                            d.S,
                            d.M,
                            d.E,
                            d.R,
                            d.TH,
                            d.TE,
                            (unsigned)step,
                            movement_cursor,
                            sc.movements,
                            config.movement_schedule,
                            d.suitable,
                            generator);
                }
                if (config.use_treatments && pools_entry)
                    with_pool([&](SPool& pool) { treatments.manage((unsigned)step, pool); });
                if (config.use_mortality && config.mortality_schedule().at(step)) {
                    if (!have_mortality_parameters)
                        throw std::invalid_argument("no mortality parameters");  // what the model answers without a pest-host table
                    simulation.mortality(d.I, d.TH, mortality_rate, mortality_lag, d.D, d.M, d.suitable);
                }
                if (config.use_spreadrates && config.spread_rate_schedule().at(step)) {
                    unsigned idx = rates.next();
                    with_pool([&](SPool& pool) { spread_rate->action(pool, idx); });
                }
                if (config.use_quarantine && config.quarantine_schedule().at(step)) {
                    unsigned idx = quar.next();
                    with_pool([&](SPool& pool) { quarantine.action(pool, sc.qareas, idx); });
                }
                return std::string();
            });
            if (!flags.empty())
                std::printf("%d %s flags s%d%s\n", k, tag, step, flags.c_str());
            if (!e.empty()) {
                put(k, tag, step, " err " + e.substr(4));
                break;
            }
            put(k, tag, step, state_text(sc, w, pools_entry ? spread_rate.get() : (SpreadRateAction<SPool, RI>*)nullptr, nrate, &quarantine, nquar));
        }
        return std::string();
    });
    if (!err.empty())
        std::printf("%d %s setup err %s\n", k, tag, err.substr(4).c_str());
}

static void run_case(int k, const Case& cs)
{
    Scn sc;
    std::string err = guarded([&]() -> std::string {
        parse_case(cs, sc);
        return std::string();
    });
    if (!err.empty()) {
        std::printf("%d parse err %s\n", k, err.substr(4).c_str());
        return;
    }
    run_A(k, sc);
    if (sc.mode == "onlyA")
        return;
    run_B1(k, sc);
    run_B2(k, sc);
}

int main(int argc, char** argv)
{
    if (argc < 2)
        return 2;
    std::ifstream in(argv[1]);
    if (!in)
        return 2;
    std::string line;
    int k = 0;
    Case cur;
    bool open = false;
    while (std::getline(in, line)) {
        if (line.empty() || line[0] == '#')
            continue;
        auto t = split_ws(line);
        if (t.empty())
            continue;
        if (t[0] == "compose") {
            cur = Case();
            cur.entry = t.at(1);
            open = true;
        }
        else if (t[0] == "endcompose") {
            if (open) {
                run_case(k, cur);
                std::fflush(stdout);
                k++;
            }
            open = false;
        }
        else if (
            t[0] == "pht" || t[0] == "comprow" || t[0] == "cells" || t[0] == "suitable" || t[0] == "totpop" || t[0] == "wraster"
            || t[0] == "temp" || t[0] == "surv" || t[0] == "move" || t[0] == "treat" || t[0] == "qareas") {
            cur.multi.push_back(t);
        }
        else {
            if (t[0] == "grid") {
                cur.rows = std::stoi(t.at(1));
                cur.cols = std::stoi(t.at(2));
            }
            cur.kv[t[0]] = std::vector<std::string>(t.begin() + 1, t.end());
        }
    }
    return 0;
}
