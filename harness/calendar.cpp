// Implementation side of the calendar engine (C07, C08): runs pops::Date,
// pops::Scheduler, schedule_from_string and Config::create_schedules from
// /repo's working tree on a case file; same line protocol as ocaml/drv_calendar.ml.
#include <pops/date.hpp>
#include <pops/scheduling.hpp>
#include <pops/config.hpp>
#include "hcommon.hpp"

using namespace pops;
using ::verif::bits;
using ::verif::guarded;
using ::verif::ints;
using ::verif::for_each_case;
using ::verif::split_ws;

static std::string sdate(const Date& d)
{
    return std::to_string(d.year()) + "-" + std::to_string(d.month()) + "-"
           + std::to_string(d.day());
}
static std::string sstep(const Step& s)
{
    return sdate(s.start_date()) + ":" + sdate(s.end_date());
}
static StepUnit unit_of(const std::string& s)
{
    return step_unit_enum_from_string(s);
}
static std::string freq_of(const std::string& s)
{
    return s == "-" ? std::string() : s;
}

static const char* freq_names[] = {
    "-", "final_step", "year", "yearly", "month", "monthly", "week", "weekly",
    "day", "daily", "every_n_steps", "every_step", "time_step", "bogus", "Year"};

static void aidx(const char* tag, int k, const std::vector<bool>& sched)
{
    std::string idx;
    for (size_t i = 0; i < sched.size(); i++) {
        if (i)
            idx += ",";
        idx += guarded([&] {
            return std::to_string(simulation_step_to_action_step(sched, (unsigned)i));
        });
    }
    std::string beyond = guarded([&] {
        return std::to_string(
            simulation_step_to_action_step(sched, (unsigned)sched.size()));
    });
    std::printf(
        "%d aidx_%s %s ; count %u ; beyond %s\n",
        k,
        tag,
        idx.c_str(),
        get_number_of_scheduled_actions(sched),
        beyond.c_str());
}

int main(int argc, char** argv)
{
    if (argc < 2)
        return 2;
    for_each_case(argv[1], [](int k, const std::vector<std::string>& t) {
        auto i = [&](size_t j) { return std::stoi(t.at(j)); };
        if (t[0] == "S") {
            Date d(i(2), i(3), i(4));
            if (t[1] == "add")
                d.add_day();
            else if (t[1] == "sub")
                d.subtract_day();
            else if (t[1] == "days")
                d.increased_by_days(i(5));
            else if (t[1] == "week")
                d.increased_by_week();
            else if (t[1] == "month")
                d.increased_by_month();
            std::printf("%d succ %s\n", k, sdate(d).c_str());
        }
        else if (t[0] == "C") {
            Date a(i(1), i(2), i(3)), b(i(4), i(5), i(6));
            std::vector<bool> r{a > b, a < b, a >= b, a <= b, a == b};
            std::printf("%d cmp %s\n", k, bits(r).c_str());
        }
        else if (t[0] == "K") {
            Date s(i(1), i(2), i(3)), e(i(4), i(5), i(6));
            std::string err = guarded([&] {
                Scheduler sc(s, e, unit_of(t[7]), (unsigned)i(8));
                unsigned n = sc.get_num_steps();
                std::string steps;
                for (unsigned j = 0; j < n; j++) {
                    if (j)
                        steps += " ";
                    steps += sstep(sc.get_step(j));
                }
                std::printf("%d steps %s\n", k, steps.c_str());
                std::printf("%d num_steps %u\n", k, n);
                for (long j : {0L, (long)n - 1, (long)n}) {
                    std::string r = guarded(
                        [&] { return sstep(sc.get_step((unsigned)j)); });
                    std::printf("%d get_step %ld %s\n", k, j, r.c_str());
                }
                auto yearly = sc.schedule_action_yearly(i(9), i(10));
                std::printf("%d yearly %s\n", k, bits(yearly).c_str());
                std::printf(
                    "%d eoy %s\n", k, bits(sc.schedule_action_end_of_year()).c_str());
                std::printf(
                    "%d final %s\n",
                    k,
                    bits(sc.schedule_action_end_of_simulation()).c_str());
                std::printf(
                    "%d monthly %s\n", k, bits(sc.schedule_action_monthly()).c_str());
                auto spread = sc.schedule_spread(Season(i(11), i(12)));
                std::printf("%d spread %s\n", k, bits(spread).c_str());
                int fn = i(13);
                if (fn >= 1)
                    std::printf(
                        "%d nsteps %s\n",
                        k,
                        bits(sc.schedule_action_nsteps((unsigned)fn)).c_str());
                for (const char* f : freq_names) {
                    std::string r = guarded([&] {
                        return bits(schedule_from_string(sc, freq_of(f), (unsigned)fn));
                    });
                    std::printf("%d fs %s %s\n", k, f, r.c_str());
                }
                std::string w = guarded(
                    [&] { return ints(sc.schedule_weather((unsigned)i(14))); });
                std::printf("%d weather %s\n", k, w.c_str());
                aidx("yearly", k, yearly);
                aidx("spread", k, spread);
                int nl = i(15);
                for (int j = 0; j < nl; j++) {
                    Date d(i(16 + 3 * j), i(17 + 3 * j), i(18 + 3 * j));
                    std::string r = guarded([&] {
                        return std::to_string(sc.schedule_action_date(d));
                    });
                    std::printf("%d lookup %s %s\n", k, sdate(d).c_str(), r.c_str());
                }
                return std::string();
            });
            if (!err.empty())
                std::printf("%d err %s\n", k, err.substr(4).c_str());
        }
        else if (t[0] == "G") {
            auto b = [&](size_t j) { return t.at(j) == "1"; };
            std::string r = guarded([&] {
                Config c;
                c.set_date_start(i(1), i(2), i(3));
                c.set_date_end(i(4), i(5), i(6));
                c.set_step_unit(t[7]);
                c.set_step_num_units((unsigned)i(8));
                c.set_season_start_end_month(i(9), i(10));
                c.output_frequency = freq_of(t[11]);
                c.output_frequency_n = (unsigned)i(12);
                c.use_mortality = b(13);
                c.mortality_frequency = freq_of(t[14]);
                c.mortality_frequency_n = (unsigned)i(15);
                c.use_lethal_temperature = b(16);
                c.lethal_temperature_month = i(17);
                c.use_survival_rate = b(18);
                c.survival_rate_month = i(19);
                c.survival_rate_day = i(20);
                c.use_spreadrates = b(21);
                c.spreadrate_frequency = freq_of(t[22]);
                c.spreadrate_frequency_n = (unsigned)i(23);
                c.use_quarantine = b(24);
                c.quarantine_frequency = freq_of(t[25]);
                c.quarantine_frequency_n = (unsigned)i(26);
                c.weather_size = i(27);
                c.create_schedules();
                std::string out = "spread=" + bits(c.spread_schedule());
                out += " output=" + bits(c.output_schedule());
                out += " mortality=" + bits(c.mortality_schedule());
                out += " lethal="
                       + (c.use_lethal_temperature ? bits(c.lethal_schedule()) : "");
                out += " survival="
                       + (c.use_survival_rate ? bits(c.survival_rate_schedule()) : "");
                out += " spread_rate="
                       + (c.use_spreadrates ? bits(c.spread_rate_schedule()) : "");
                out += " quarantine="
                       + (c.use_quarantine ? bits(c.quarantine_schedule()) : "");
                out += " weather="
                       + (c.weather_size ? ints(c.weather_table()) : std::string());
                return out;
            });
            if (r.rfind("err:", 0) == 0)
                std::printf("%d cfg err %s\n", k, r.substr(4).c_str());
            else
                std::printf("%d cfg %s\n", k, r.c_str());
        }
    });
    return 0;
}
