// Implementation side of the rng engine (C06): constructs
// RandomNumberGeneratorProvider from a Config in the three documented ways with
// an engine type that records which seed each stream's generator object
// received, and tries to use the provider as one generator.
#include <pops/generator_provider.hpp>
#include <map>
#include "hcommon.hpp"

struct RecEngine
{
    typedef std::default_random_engine::result_type result_type;
    std::default_random_engine e;
    long seeded{-1};
    RecEngine() {}
    void seed(unsigned s)
    {
        e.seed(s);
        seeded = (long)s;
    }
    result_type operator()()
    {
        return e();
    }
    void discard(unsigned long long n)
    {
        e.discard(n);
    }
    static constexpr result_type min()
    {
        return std::default_random_engine::min();
    }
    static constexpr result_type max()
    {
        return std::default_random_engine::max();
    }
};

int main(int argc, char** argv)
{
    if (argc < 2)
        return 2;
    ::verif::for_each_case(argv[1], [](int k, const std::vector<std::string>& t) {
        // P single|multi <seed> | P named k=v,k=v,...
        std::string r = ::verif::guarded([&]() -> std::string {
            pops::Config config;
            if (t.at(1) == "single") {
                config.random_seed = std::stoi(t.at(2));
            }
            else if (t.at(1) == "multi") {
                config.random_seed = std::stoi(t.at(2));
                config.multiple_random_seeds = true;
            }
            else {
                config.random_seed = 7;
                if (t.size() > 2 && t[2] != "-")
                    config.read_seeds(t.at(2), ',', '=');
                else
                    config.multiple_random_seeds = true;
            }
            pops::RandomNumberGeneratorProvider<RecEngine> p(config);
            std::vector<std::pair<std::string, RecEngine*>> acc{
                {"disperser_generation", &p.disperser_generation()},
                {"natural_dispersal", &p.natural_dispersal()},
                {"anthropogenic_dispersal", &p.anthropogenic_dispersal()},
                {"establishment", &p.establishment()},
                {"weather", &p.weather()},
                {"lethal_temperature", &p.lethal_temperature()},
                {"movement", &p.movement()},
                {"overpopulation", &p.overpopulation()},
                {"survival_rate", &p.survival_rate()},
                {"soil", &p.soil()}};
            bool all_same = true;
            for (auto& a : acc)
                all_same = all_same && a.second == acc[0].second;
            std::string out;
            for (size_t i = 0; i < acc.size(); i++) {
                // identity of the generator object: "general" when shared by all,
                // otherwise the first accessor that returns the same object
                std::string id = "general";
                if (!all_same) {
                    for (size_t j = 0; j <= i; j++)
                        if (acc[j].second == acc[i].second) {
                            id = acc[j].first;
                            break;
                        }
                }
                out += " " + acc[i].first + ":" + id + ":" + std::to_string(acc[i].second->seeded);
            }
            std::string call = ::verif::guarded([&]() -> std::string {
                p();
                return "ok";
            });
            std::string disc = ::verif::guarded([&]() -> std::string {
                p.discard(3);
                return "ok";
            });
            return "streams" + out + " | call " + call + " | discard " + disc;
        });
        std::printf("%d %s\n", k, r.c_str());
    });
    return 0;
}
