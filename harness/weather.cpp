// Implementation side of the weather part of C12:
// Environment::update_weather_from_distribution on generated mean / stddev
// rasters; the guarded hook of NormalDistributionWithUniformFallback reports the
// normal variate, whether the fallback was used, and the returned value.
#include <pops/environment.hpp>
#include <pops/raster.hpp>
#include <pops/generator_provider.hpp>
#include <cmath>
#include "hcommon.hpp"

typedef pops::Raster<int> IR;
typedef pops::Raster<double> DR;

static double parse_q(const std::string& s)
{
    size_t p = s.find('/');
    if (p == std::string::npos)
        return std::stod(s);
    return std::stod(s.substr(0, p)) / std::stod(s.substr(p + 1));
}
static std::string q_of_double(double v)
{
    if (v == 0)
        return "0/1";
    int e;
    double m = std::frexp(v, &e);
    long long num = (long long)std::ldexp(m, 53);
    int ex = e - 53;
    while (num % 2 == 0) {
        num /= 2;
        ex++;
    }
    char buf[64];
    if (ex >= 0)
        std::snprintf(buf, sizeof buf, "%lld*2^%d/1", num, ex);
    else
        std::snprintf(buf, sizeof buf, "%lld/2^%d", num, -ex);
    return buf;
}

int main(int argc, char** argv)
{
    if (argc < 2)
        return 2;
    // W seed mrows mcols srows scols means... | stddevs...
    ::verif::for_each_case(argv[1], [](int k, const std::vector<std::string>& t) {
        int seed = std::stoi(t.at(1));
        int mr = std::stoi(t.at(2)), mc = std::stoi(t.at(3)), sr = std::stoi(t.at(4)), sc = std::stoi(t.at(5));
        DR mean(mr, mc, 0.0), stddev(sr, sc, 1.0);
        size_t pos = 6;
        for (int i = 0; i < mr * mc; i++)
            mean(i / mc, i % mc) = parse_q(t.at(pos++));
        pos++;  // the '|'
        for (int i = 0; i < sr * sc; i++)
            stddev(i / sc, i % sc) = parse_q(t.at(pos++));
        std::string draws;
        pops::verif::hooks().event = [&](const char* tag, const void*, const std::vector<double>& p) {
            if (std::string(tag) == "fallback")
                draws += " " + q_of_double(p[0]) + ":" + (p[1] != 0 ? q_of_double(p[2]) : std::string("-"));
        };
        pops::Environment<IR, DR, int, pops::RandomNumberGeneratorProvider<std::default_random_engine>> env;
        pops::RandomNumberGeneratorProvider<std::default_random_engine> provider((unsigned)seed, true);
        std::string r = ::verif::guarded([&]() -> std::string {
            env.update_weather_from_distribution(mean, stddev, provider);
            std::string s = "values";
            for (int i = 0; i < mr * mc; i++)
                s += " " + q_of_double(env.weather_coefficient_at(i / mc, i % mc));
            // the generated coefficients must also be APPLIED from now on: reproductive rate 4
            // and suitability 1/4 under the weather of each cell (exact: powers of two)
            s += "\n" + std::to_string(k) + " applied";
            for (int i = 0; i < mr * mc; i++)
                s += " " + q_of_double(env.influence_reproductive_rate_at(i / mc, i % mc, 4.0)) + ","
                     + q_of_double(env.influence_suitability_at(i / mc, i % mc, 0.25));
            return s;
        });
        pops::verif::hooks().event = nullptr;
        std::printf("%d draws%s\n", k, draws.c_str());
        std::printf("%d %s\n", k, r.c_str());
    });
    return 0;
}
