// Implementation side of the detkernel engine (C14): runs
// pops::DeterministicDispersalKernel and the ten distance-kernel classes from
// /repo's working tree on a case file; line protocol shared with
// ocaml/drv_detkernel.ml and pylib/eng_detkernel.py.
//
//   A rows cols den w_0 .. w_{rows*cols-1} nb (row col n len)*
//       window overwritten with the dyadic weights w_i/den (a class derived from
//       the kernel reaches the protected window), then for every batch
//       dispersers(row, col) = n and `len` calls of operator()(gen, row, col)
//   W kernel scale shape percentage ew ns nb (row col n len)*
//       a real kernel: prints window size, max distance, the probability raster
//       (hex floats) and the returned cells
//   Q kernel scale shape u_1 .. u_k      icdf of the kernel class (hex floats)
//   P kernel scale shape x_1 .. x_k      pdf of the kernel class (hex floats)
//
// The arguments (scale, shape) reach the kernel classes in the order the
// constructor of DeterministicDispersalKernel passes them.
#include <cmath>
#include <cstdio>
#include <limits>
#include <random>
#include <string>
#include <tuple>
#include <vector>

#include <pops/deterministic_kernel.hpp>
#include <pops/raster.hpp>
#include "hcommon.hpp"

using namespace pops;
using namespace ::verif;

typedef Raster<int> IRaster;


class Probe : public DeterministicDispersalKernel<IRaster>
{
public:
    using DeterministicDispersalKernel<IRaster>::DeterministicDispersalKernel;
    int rows() const { return number_of_rows; }
    int cols() const { return number_of_columns; }
    double maxd() const { return max_distance; }
    double prob(int i, int j) const { return probability(i, j); }
    // replace the window by given weights (the centre and the size are what the
    // constructor would have derived from the size)
    void overwrite(int nrows, int ncols, const std::vector<double>& w)
    {
        number_of_rows = nrows;
        number_of_columns = ncols;
        mid_row = nrows / 2;
        mid_col = ncols / 2;
        Raster<double> p(nrows, ncols, 0);
        for (int i = 0; i < nrows; i++)
            for (int j = 0; j < ncols; j++)
                p(i, j) = w[(size_t)i * ncols + j];
        probability = p;
        probability_copy = p;
    }
};

static std::string hex(double v)
{
    char buf[64];
    if (std::isnan(v))
        return "nan";
    if (std::isinf(v))
        return v > 0 ? "inf" : "-inf";
    std::snprintf(buf, sizeof buf, "%a", v);
    return buf;
}

static DispersalKernelType type_of(const std::string& s)
{
    if (s == "cauchy") return DispersalKernelType::Cauchy;
    if (s == "exponential") return DispersalKernelType::Exponential;
    if (s == "weibull") return DispersalKernelType::Weibull;
    if (s == "normal") return DispersalKernelType::Normal;
    if (s == "lognormal") return DispersalKernelType::LogNormal;
    if (s == "logistic") return DispersalKernelType::Logistic;
    if (s == "hyperbolic_secant") return DispersalKernelType::HyperbolicSecant;
    if (s == "gamma") return DispersalKernelType::Gamma;
    if (s == "exponential_power") return DispersalKernelType::ExponentialPower;
    if (s == "power_law") return DispersalKernelType::PowerLaw;
    throw std::runtime_error("unknown kernel name " + s);
}

// pdf / icdf of the class the deterministic kernel uses for this type
static double kernel_fn(const std::string& k, bool want_pdf, double scale, double shape, double x)
{
#define CALL(obj) (want_pdf ? (obj).pdf(x) : (obj).icdf(x))
    if (k == "cauchy") { CauchyKernel o(scale); return CALL(o); }
    if (k == "exponential") { ExponentialKernel o(scale); return CALL(o); }
    if (k == "weibull") { WeibullKernel o(scale, shape); return CALL(o); }
    if (k == "normal") { NormalKernel o(scale); return CALL(o); }
    if (k == "lognormal") { LogNormalKernel o(scale); return CALL(o); }
    if (k == "logistic") { LogisticKernel o(scale); return CALL(o); }
    if (k == "hyperbolic_secant") { HyperbolicSecantKernel o(scale); return CALL(o); }
    if (k == "gamma") { GammaKernel o(scale, shape); return CALL(o); }
    if (k == "exponential_power") { ExponentialPowerKernel o(scale, shape); return CALL(o); }
    if (k == "power_law") { PowerLawKernel o(scale, shape); return CALL(o); }
#undef CALL
    throw std::runtime_error("unknown kernel name " + k);
}

// The dispersers raster is the smallest one containing every source cell of the
// case, so that the generator controls its shape (rows != cols, single row, ...).
static void disp_shape(const std::vector<std::string>& t, size_t pos, int& rows, int& cols)
{
    rows = 1;
    cols = 1;
    int nb = std::stoi(t.at(pos++));
    for (int b = 0; b < nb; b++) {
        rows = std::max(rows, std::stoi(t.at(pos)) + 1);
        cols = std::max(cols, std::stoi(t.at(pos + 1)) + 1);
        pos += 4;
    }
}

static std::string run_batches(
    Probe& kernel, IRaster& disp, const std::vector<std::string>& t, size_t pos)
{
    std::default_random_engine gen;
    std::string out;
    int nb = std::stoi(t.at(pos++));
    for (int b = 0; b < nb; b++) {
        int row = std::stoi(t.at(pos++));
        int col = std::stoi(t.at(pos++));
        int n = std::stoi(t.at(pos++));
        int len = std::stoi(t.at(pos++));
        disp(row, col) = n;
        for (int c = 0; c < len; c++) {
            int r, cc;
            std::tie(r, cc) = kernel(gen, row, col);
            if (!out.empty())
                out += " ";
            out += std::to_string(r) + "," + std::to_string(cc);
        }
    }
    return out;
}

int main(int argc, char** argv)
{
    if (argc < 2)
        return 2;
    for_each_case(argv[1], [](int k, const std::vector<std::string>& t) {
        if (t[0] == "A") {
            int rows = std::stoi(t.at(1)), cols = std::stoi(t.at(2));
            double den = std::stod(t.at(3));
            std::vector<double> w;
            for (int i = 0; i < rows * cols; i++)
                w.push_back(std::stod(t.at(4 + i)) / den);
            int drows, dcols;
            disp_shape(t, 4 + (size_t)rows * cols, drows, dcols);
            IRaster disp(drows, dcols, 0);
            std::string res = guarded([&] {
                Probe kernel(DispersalKernelType::Exponential, disp, 0.5, 1.0, 1.0, 1.0);
                kernel.overwrite(rows, cols, w);
                return "cells " + run_batches(kernel, disp, t, 4 + (size_t)rows * cols);
            });
            std::printf("%d %s\n", k, res.c_str());
        }
        else if (t[0] == "W") {
            int drows, dcols;
            disp_shape(t, 7, drows, dcols);
            IRaster disp(drows, dcols, 0);
            std::string res = guarded([&] {
                Probe kernel(
                    type_of(t.at(1)),
                    disp,
                    std::stod(t.at(4)),
                    std::stod(t.at(5)),
                    std::stod(t.at(6)),
                    std::stod(t.at(2)),
                    std::stod(t.at(3)));
                std::string s = "dims " + std::to_string(kernel.rows()) + " "
                                + std::to_string(kernel.cols()) + "\n";
                s += std::to_string(k) + " maxd " + hex(kernel.maxd()) + "\n";
                s += std::to_string(k) + " prob";
                for (int i = 0; i < kernel.rows(); i++)
                    for (int j = 0; j < kernel.cols(); j++)
                        s += " " + hex(kernel.prob(i, j));
                s += "\n" + std::to_string(k) + " cells " + run_batches(kernel, disp, t, 7);
                return s;
            });
            std::printf("%d %s\n", k, res.c_str());
        }
        else if (t[0] == "Q" || t[0] == "P") {
            bool want_pdf = t[0] == "P";
            double scale = std::stod(t.at(2)), shape = std::stod(t.at(3));
            std::string s = want_pdf ? "pdf" : "icdf";
            for (size_t i = 4; i < t.size(); i++) {
                double x = std::stod(t[i]);
                s += " " + guarded([&] { return hex(kernel_fn(t[1], want_pdf, scale, shape, x)); });
            }
            std::printf("%d %s\n", k, s.c_str());
        }
        else {
            std::printf("%d err:unknown_case\n", k);
        }
    });
    return 0;
}
