// Implementation side of the safety engine (C20): every documented invalid input
// is injected one at a time through the real API; each probe runs in a forked
// child so that a crash (signal, sanitizer abort) is reported instead of
// killing the harness.  Output: "<k> <probe> <result>" with result one of
// err:<exception kind>, no_exception[:value], crash:<signal or exit status>.
#include <pops/model.hpp>
#include <pops/spread_rate.hpp>
#include <pops/competency_table.hpp>
#include <pops/pest_host_table.hpp>
#include <pops/network.hpp>
#include <sys/wait.h>
#include <unistd.h>
#include <csignal>
#include "hcommon.hpp"

using namespace pops;
typedef Raster<int> IR;
typedef Raster<double> DR;
typedef RandomNumberGeneratorProvider<std::default_random_engine> Provider;
typedef HostPool<IR, DR, int, Provider> Pool;
typedef MultiHostPool<Pool, IR, DR, int, Provider> MultiPool;

struct PoolFixture
{
    IR S{{10, 6}, {0, 4}}, I{{2, 0}, {0, 1}}, TE{{0, 0}, {0, 0}}, R{{0, 0}, {0, 0}}, D{{0, 0}, {0, 0}}, TH{{12, 6}, {0, 5}};
    std::vector<IR> E{IR(2, 2, 0), IR(2, 2, 0)};
    std::vector<IR> M{IR({{2, 0}, {0, 1}}), IR(2, 2, 0)};
    std::vector<std::vector<int>> suitable{{0, 0}, {0, 1}, {1, 1}};
    Environment<IR, DR, int, Provider> env;
    Pool pool;
    PoolFixture()
        : pool(ModelType::SusceptibleExposedInfected, S, E, 1, I, TE, R, M, D, TH, env, false, 1.0, false, 1.0, 2, 2, suitable)
    {}
};

static std::string probe(const std::string& name, const std::vector<std::string>& a)
{
    auto arg = [&](size_t i) { return i < a.size() ? a[i] : std::string(); };
    if (name == "kernel_type")
        return std::to_string((int)kernel_type_from_string(arg(0)));
    if (name == "direction")
        return std::to_string((int)direction_from_string(arg(0)));
    if (name == "model_type")
        return std::to_string((int)model_type_from_string(arg(0)));
    // the overloads taking a C string, documented to accept a null pointer (= empty name)
    if (name == "model_type_cstr")
        return std::to_string((int)model_type_from_string(arg(0) == "<null>" ? (const char*)nullptr : arg(0).c_str()));
    if (name == "kernel_type_cstr")
        return std::to_string((int)kernel_type_from_string(arg(0) == "<null>" ? (const char*)nullptr : arg(0).c_str()));
    if (name == "direction_cstr")
        return std::to_string((int)direction_from_string(arg(0) == "<null>" ? (const char*)nullptr : arg(0).c_str()));
    if (name == "weather_type")
        return std::to_string((int)weather_type_from_string(arg(0)));
    if (name == "treatment_app")
        return std::to_string((int)treatment_app_enum_from_string(arg(0)));
    if (name == "step_unit")
        return std::to_string((int)step_unit_enum_from_string(arg(0)));
    if (name == "arrival_behavior") {
        Config c;
        c.set_arrival_behavior(arg(0));
        return c.arrival_behavior();
    }
    if (name == "quarantine_directions") {
        auto d = directions_from_string(arg(0));
        return std::to_string(d.size());
    }
    if (name == "frequency") {
        Scheduler sc(Date(2020, 1, 1), Date(2020, 12, 31), StepUnit::Month, 1);
        return ::verif::bits(schedule_from_string(sc, arg(0), 1));
    }
    if (name == "date_string") {
        Date d(arg(0));
        return std::to_string(d.month());
    }
    if (name == "treatment_date") {
        Scheduler sc(Date(2020, 1, 1), Date(2020, 12, 31), StepUnit::Month, 1);
        Treatments<Pool, DR> t(sc);
        DR map(2, 2, 0.5);
        t.add_treatment(map, Date(std::stoi(arg(0)), std::stoi(arg(1)), std::stoi(arg(2))), std::stoi(arg(3)), TreatmentApplication::Ratio);
        return "added";
    }
    if (name == "scheduler") {
        Scheduler sc(
            Date(std::stoi(arg(0)), std::stoi(arg(1)), std::stoi(arg(2))),
            Date(std::stoi(arg(3)), std::stoi(arg(4)), std::stoi(arg(5))),
            step_unit_enum_from_string(arg(6)),
            (unsigned)std::stoi(arg(7)));
        return std::to_string(sc.get_num_steps());
    }
    if (name == "schedule_weather") {
        Scheduler sc(Date(2020, 1, 1), Date(2020, 12, 31), StepUnit::Month, 1);
        return std::to_string(sc.schedule_weather((unsigned)std::stoi(arg(0))).size());
    }
    if (name == "config_before_schedules") {
        Config c;
        if (arg(0) == "scheduler")
            return std::to_string(c.scheduler().get_num_steps());
        if (arg(0) == "spread")
            return std::to_string(c.spread_schedule().size());
        if (arg(0) == "mortality")
            return std::to_string(c.mortality_schedule().size());
        if (arg(0) == "lethal") {
            c.use_lethal_temperature = true;
            return std::to_string(c.lethal_schedule().size());
        }
        c.create_schedules();
        return "created";
    }
    if (name == "config_disabled_schedule") {
        Config c;
        c.set_date_start(2020, 1, 1);
        c.set_date_end(2020, 12, 31);
        c.set_step_unit("month");
        c.set_step_num_units(1);
        c.use_spreadrates = false;
        c.create_schedules();
        if (arg(0) == "lethal")
            return std::to_string(c.lethal_schedule().size());
        if (arg(0) == "survival")
            return std::to_string(c.survival_rate_schedule().size());
        if (arg(0) == "spread_rate")
            return std::to_string(c.spread_rate_schedule().size());
        if (arg(0) == "quarantine")
            return std::to_string(c.quarantine_schedule().size());
        return std::to_string(c.weather_table().size());
    }
    if (name == "remove_hosts_exposed_length") {
        PoolFixture f;
        std::vector<int> e((size_t)std::stoi(arg(0)), 0), m{0, 0};
        f.pool.completely_remove_hosts_at(0, 0, 1, e, 1, m);
        return std::to_string(f.S(0, 0));
    }
    if (name == "remove_hosts_mortality_length") {
        PoolFixture f;
        std::vector<int> e{0, 0}, m((size_t)std::stoi(arg(0)), 0);
        f.pool.completely_remove_hosts_at(0, 0, 1, e, 1, m);
        return std::to_string(f.S(0, 0));
    }
    if (name == "remove_hosts_mortality_too_high") {
        PoolFixture f;
        std::vector<int> e{0, 0}, m{5, 0};
        f.pool.completely_remove_hosts_at(0, 0, 1, e, 1, m);
        return std::to_string(f.S(0, 0));
    }
    if (name == "make_resistant_length") {
        PoolFixture f;
        std::vector<int> e((size_t)std::stoi(arg(0)), 0), m((size_t)std::stoi(arg(1)), 0);
        // optional third argument: the infected count of the request (0: a cell without infection)
        int inf = arg(2).empty() ? 1 : std::stoi(arg(2));
        f.pool.make_resistant_at(0, 0, 1, e, inf, m);
        return std::to_string(f.R(0, 0));
    }
    if (name == "make_resistant_too_many") {
        PoolFixture f;
        std::vector<int> e{0, 0}, m{0, 0};
        f.pool.make_resistant_at(0, 0, 100, e, 0, m);
        return std::to_string(f.R(0, 0));
    }
    if (name == "weather_missing") {
        PoolFixture f;
        return std::to_string(f.env.weather_coefficient_at(0, 0));
    }
    if (name == "temperature_missing") {
        PoolFixture f;
        return std::to_string(f.env.temperature_at(0, 0));
    }
    if (name == "weather_mean_range") {
        PoolFixture f;
        Provider p(1u);
        DR mean(2, 2, 0.5), sd(2, 2, 0.25);
        mean(1, 0) = std::stod(arg(0));
        if (!arg(1).empty())  // optional: the deviation of that cell (0 = "no uncertainty")
            sd(1, 0) = std::stod(arg(1));
        f.env.update_weather_from_distribution(mean, sd, p);
        return "updated";
    }
    if (name == "weather_shape") {
        PoolFixture f;
        Provider p(1u);
        DR mean(2, 2, 0.5), sd(std::stoi(arg(0)), std::stoi(arg(1)), 0.25);
        f.env.update_weather_from_distribution(mean, sd, p);
        return "updated";
    }
    if (name == "suitability_range") {
        // total population smaller than the susceptible count, with / without a pest-host table
        PoolFixture f;
        IR totpop(2, 2, 5);
        f.env.set_total_population(&totpop);
        PestHostTable<Pool> table(f.env);
        table.add_host_info(1.0, 0.5, 0);
        if (arg(0) == "table")
            f.pool.set_pest_host_table(table);
        return std::to_string(f.pool.suitability_at(0, 0));
    }
    if (name == "total_suitability") {
        // two hosts whose suitabilities add up to more than one
        PoolFixture f, g;
        IR totpop(2, 2, 12);
        f.env.set_total_population(&totpop);
        Pool second(ModelType::SusceptibleExposedInfected, g.S, g.E, 1, g.I, g.TE, g.R, g.M, g.D, g.TH, f.env, false, 1.0, false, 1.0, 2, 2, g.suitable);
        Config config;
        std::vector<Pool*> pools{&f.pool, &second};
        MultiPool multi(pools, config);
        Provider p(1u);
        return std::to_string(multi.disperser_to(0, 0, p.establishment()));
    }
    if (name == "mortality_without_table") {
        PoolFixture f;
        f.pool.apply_mortality_at(0, 0);
        return std::to_string(f.D(0, 0));
    }
    if (name == "competency_width") {
        PoolFixture f, g;
        Pool second(ModelType::SusceptibleExposedInfected, g.S, g.E, 1, g.I, g.TE, g.R, g.M, g.D, g.TH, f.env, false, 1.0, false, 1.0, 2, 2, g.suitable);
        CompetencyTable<Pool> table(f.env);
        table.add_host_competencies({true}, 0.5);  // one column, two hosts
        return std::to_string(table.competency_at(0, 0, arg(0) == "second" ? &second : &f.pool));
    }
    if (name == "competency_complete_missing") {
        PoolFixture f;
        Config config;
        config.read_competency_table({{0, 0.0}, {0, 0.5}});  // 2 rows = 2^1: "complete", but the row for presence 1 is missing
        CompetencyTable<Pool> table(config, f.env);
        return std::to_string(table.competency_at(0, 0, &f.pool));
    }
    if (name == "pest_host_table_row") {
        Config c;
        if (arg(0) == "short")
            c.read_pest_host_table({{1.0, 0.5}});
        else
            c.read_pest_host_table({{std::stod(arg(0)), 0.5, 0}});
        return "read";
    }
    if (name == "competency_table_rows") {
        Config c;
        if (arg(0) == "uneven")
            c.read_competency_table({{1, 0, 0.5}, {1, 0.5}});
        else
            c.read_competency_table({{0.5}});
        return "read";
    }
    if (name == "soil_pool_empty") {
        PoolFixture f;
        std::vector<IR> none;
        SoilPool<IR, DR, int, Provider> soil(none, f.env);
        return "constructed";
    }
    if (name == "named_seeds") {
        Config c;
        c.read_seeds(arg(0), ',', '=');
        Provider p(c);
        return "seeded";
    }
    if (name == "seed_list") {   // Config::read_seeds(vector): exactly one seed per documented name
        Config c;
        std::vector<unsigned> v;
        for (int i = 0; i < std::stoi(arg(0)); i++)
            v.push_back((unsigned)(i + 1));
        c.read_seeds(v);
        Provider p(c);
        return "seeded";
    }
    if (name == "provider_as_generator") {
        Provider p(7u, true);
        if (arg(0) == "discard") {
            p.discard(2);
            return "discarded";
        }
        return std::to_string(p() >= 0);
    }
    if (name == "raster_shape") {
        IR a(2, 3, 1), b(3, 2, 1);
        if (arg(0) == "plus")
            return std::to_string((a + b).rows());
        if (arg(0) == "times")
            return std::to_string((a * b).rows());
        a += b;
        return std::to_string(a.rows());
    }
    if (name == "raster_view") {
        // a raster wrapping caller storage never takes ownership of it, whatever is done with the
        // wrapper afterwards (moved from, copied, assigned to); the buffer is not heap memory,
        // so releasing it is reported by any allocator
        static int buf[6];
        for (int i = 0; i < 6; ++i)
            buf[i] = i + 1;
        const std::string op = arg(0);
        long sum = 0;
        if (op == "move_assign_temporary") {
            IR target(1, 1, 0);
            target = IR(buf, 2, 3);
            sum = target(1, 2);
        }
        else if (op == "move_assign_named") {
            IR view(buf, 2, 3);
            {
                IR target(3, 3, 7);
                target = std::move(view);
                sum = target(0, 1);
            }
        }
        else if (op == "move_assign_then_reassign") {
            IR target(1, 1, 0);
            target = IR(buf, 2, 3);
            target = IR(2, 2, 5);
            IR other(2, 2, 4);
            target = other;
            sum = target(0, 0);
        }
        else if (op == "move_construct") {
            IR view(buf, 2, 3);
            {
                IR target(std::move(view));
                sum = target(1, 0);
            }
        }
        else if (op == "copy_construct") {
            IR view(buf, 2, 3);
            {
                IR target(view);
                target(0, 0) = 99;
                sum = target(0, 0) + view(0, 0);
            }
        }
        else if (op == "copy_assign") {
            IR view(buf, 2, 3);
            {
                IR target(1, 1, 0);
                target = view;
                target(0, 0) = 99;
                sum = target(0, 0) + view(0, 0);
            }
        }
        else if (op == "write_through") {
            IR view(buf, 2, 3);
            view(1, 1) = 42;
            view += 1;
            sum = buf[4];
        }
        for (int i = 0; i < 6; ++i)
            sum = sum * 7 + buf[i];
        return std::to_string(sum);
    }
    if (name == "network_no_node") {
        BBox<double> bbox;
        bbox.north = 10;
        bbox.south = 0;
        bbox.east = 10;
        bbox.west = 0;
        Network<int> network(bbox, 1, 1);
        std::stringstream nodes("1,1,1\n2,8,8\n"), segments("1,2,1;1;8;8\n");
        std::default_random_engine g(1);
        int r, c;
        std::tie(r, c) = network.walk(5, 5, 3.0, g);
        return std::to_string(r);
    }
    if (name == "model_unknown_names") {
        Config c;
        c.model_type = "SI";
        c.natural_kernel_type = arg(0);
        c.natural_direction = arg(1);
        c.anthro_kernel_type = arg(2);
        c.anthro_direction = arg(3);
        c.rows = 2;
        c.cols = 2;
        c.ew_res = 1;
        c.ns_res = 1;
        c.set_date_start(2020, 1, 1);
        c.set_date_end(2020, 12, 31);
        c.set_step_unit("month");
        c.set_step_num_units(1);
        c.use_spreadrates = false;
        c.create_schedules();
        Model<IR, DR, int> model(c);
        return "constructed";
    }
    return "unknown_probe";
}

int main(int argc, char** argv)
{
    if (argc < 2)
        return 2;
    ::verif::for_each_case(argv[1], [](int k, const std::vector<std::string>& t) {
        std::string name = t.at(0);
        std::vector<std::string> args(t.begin() + 1, t.end());
        for (auto& a : args)
            if (a == "<empty>")
                a = "";
            else
                for (auto& ch : a)
                    if (ch == '~')
                        ch = ' ';
        int fd[2];
        if (pipe(fd) != 0)
            std::exit(2);
        pid_t pid = fork();
        if (pid == 0) {
            close(fd[0]);
            alarm(20);
            std::string r = ::verif::guarded([&]() -> std::string { return "no_exception:" + probe(name, args); });
            if (write(fd[1], r.c_str(), r.size()) < 0)
                _exit(3);
            close(fd[1]);
            _exit(0);
        }
        close(fd[1]);
        std::string out;
        char buf[256];
        ssize_t n;
        while ((n = read(fd[0], buf, sizeof buf)) > 0)
            out.append(buf, (size_t)n);
        close(fd[0]);
        int status = 0;
        waitpid(pid, &status, 0);
        if (WIFSIGNALED(status))
            out = "crash:signal_" + std::to_string(WTERMSIG(status));
        else if (WIFEXITED(status) && WEXITSTATUS(status) != 0)
            out = "crash:exit_" + std::to_string(WEXITSTATUS(status));
        std::string line;
        for (auto& a : t)
            line += " " + a;
        std::printf("%d%s => %s\n", k, line.c_str(), out.c_str());
        std::fflush(stdout);
    });
    return 0;
}
