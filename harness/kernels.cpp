// Implementation side of the kernels engine (C13): runs the dispersal kernels
// of /repo's working tree on a case file.  Line protocol (shared with
// ocaml/drv_kernels.ml for the exact part):
//   N dir row col                neighbour kernel call                -> nb
//   T hex                        kernel_type_from_string              -> kt
//   D hex                        direction_from_string                -> dir
//   M use elig pk uk bern        NaturalAnthropogenicDispersalKernel  -> mix
//   U rows cols seed n           UniformDispersalKernel(rows, cols)   -> uni
//   UF which rows cols seed n    uniform kernel through the factory   -> uni
//   F which hex stochastic       class chosen by the factory          -> fac
// real kernels, SwitchDispersalKernel and the mix built from them (LAND = rows cols ew ns edges, edges =
// r:c-r:c,... one network edge per pair of node cells or `-` for the null network; CELLS = r:c ...):
//   SW type flag movement LAND seed CELLS      hand-built SwitchDispersalKernel, flag 0|1|d (d = default
//                                 argument): eligibility, member kernel that produced the result -> sw<i>
//   SS type                      supports_kernel of the switch kernel and of the five classes -> sup
//   KE movement LAND CELLS       is_cell_eligible of the five real kernel classes -> ke<i>
//   FE which hex stochastic movement LAND CELLS   class and eligibility of the factory-built wrapper -> fe, fe<i>
//   MX route use pk uk bern type flag natkind movement LAND seed CELLS
//                                 NaturalAnthropogenicDispersalKernel of real kernels, route hand (two
//                                 SwitchDispersalKernels) or cfg (create_dynamic_kernel) -> mx<i>
//   (swraw<i>, mxraw<i>: the raw observations the identification is derived from; not compared with the model)
// impl-only (evaluated by the monitor, not compared with the model):
//   G dir ew ns kname scale shape seed n          kappa = 1e6 geometry -> geo
//   GF nat|ant dir ew ns kname scale shape seed n    the same through the factory -> geo
//   R kname scale shape dir kappa ew ns seed n    end-to-end distance law -> rad
//   RF nat|ant kname scale shape dir kappa ew ns seed n   the same through the factory -> rad
//   K kname scale shape seed n                    goodness of fit of random() -> ks
//   B p seed n                                    frequency of the anthropogenic branch -> bfreq
#include <pops/kernel_types.hpp>
#include <pops/utils.hpp>
#include <pops/raster.hpp>
#include <pops/radial_kernel.hpp>
#include <pops/uniform_kernel.hpp>
#include <pops/neighbor_kernel.hpp>
#include <pops/natural_anthropogenic_kernel.hpp>
#include <pops/natural_kernel.hpp>
#include <pops/anthropogenic_kernel.hpp>
#include <pops/network.hpp>
#include <pops/network_kernel.hpp>
#include <pops/deterministic_kernel.hpp>
#include <pops/switch_kernel.hpp>
#include <pops/kernel_base.hpp>
#include <pops/kernel.hpp>
#include <pops/config.hpp>
#include "hcommon.hpp"

#include <algorithm>
#include <array>
#include <cmath>
#include <cstdint>
#include <memory>
#include <random>
#include <tuple>

using namespace pops;
using ::verif::guarded;
using ::verif::for_each_case;

static std::string unhex(const std::string& h)
{
    if (h == "-")
        return std::string();
    std::string s;
    for (size_t i = 0; i + 1 < h.size(); i += 2)
        s += (char)std::stoi(h.substr(i, 2), nullptr, 16);
    return s;
}

// the harness's own token -> enum maps (not the library's string tables)
static Direction dir_of(const std::string& t)
{
    if (t == "N") return Direction::N;
    if (t == "NE") return Direction::NE;
    if (t == "E") return Direction::E;
    if (t == "SE") return Direction::SE;
    if (t == "S") return Direction::S;
    if (t == "SW") return Direction::SW;
    if (t == "W") return Direction::W;
    if (t == "NW") return Direction::NW;
    if (t == "NONE") return Direction::None;
    throw std::runtime_error("harness: direction token " + t);
}
static DispersalKernelType ktype_of(const std::string& t)
{
    if (t == "cauchy") return DispersalKernelType::Cauchy;
    if (t == "exponential") return DispersalKernelType::Exponential;
    if (t == "weibull") return DispersalKernelType::Weibull;
    if (t == "normal") return DispersalKernelType::Normal;
    if (t == "lognormal") return DispersalKernelType::LogNormal;
    if (t == "powerlaw") return DispersalKernelType::PowerLaw;
    if (t == "hsecant") return DispersalKernelType::HyperbolicSecant;
    if (t == "gamma") return DispersalKernelType::Gamma;
    if (t == "exppower") return DispersalKernelType::ExponentialPower;
    if (t == "logistic") return DispersalKernelType::Logistic;
    throw std::runtime_error("harness: kernel token " + t);
}

// ---- the kernel classes behind one interface: random() folded by abs as the
//      radial kernel does, and the kernel's own pdf ----
struct DistanceLaw
{
    std::function<double(std::mt19937_64&)> draw;
    std::function<double(double)> pdf;
    bool two_sided;  // density of |X| is pdf(x) + pdf(-x) = 2 pdf(x)
};
template<typename K>
static DistanceLaw law_of(std::shared_ptr<K> k, bool two_sided)
{
    DistanceLaw l;
    l.draw = [k](std::mt19937_64& g) { return std::abs(k->random(g)); };
    l.pdf = [k](double x) { return k->pdf(x); };
    l.two_sided = two_sided;
    return l;
}
// constructor arguments in the order RadialDispersalKernel documents them:
// (distance_scale[, shape])
static DistanceLaw make_law(const std::string& t, double scale, double shape)
{
    if (t == "cauchy") return law_of(std::make_shared<CauchyKernel>(scale), true);
    if (t == "exponential") return law_of(std::make_shared<ExponentialKernel>(scale), false);
    if (t == "weibull") return law_of(std::make_shared<WeibullKernel>(scale, shape), false);
    if (t == "normal") return law_of(std::make_shared<NormalKernel>(scale), true);
    if (t == "lognormal") return law_of(std::make_shared<LogNormalKernel>(scale), false);
    if (t == "powerlaw") return law_of(std::make_shared<PowerLawKernel>(scale, shape), false);
    if (t == "hsecant") return law_of(std::make_shared<HyperbolicSecantKernel>(scale), true);
    if (t == "gamma") return law_of(std::make_shared<GammaKernel>(scale, shape), false);
    if (t == "exppower") return law_of(std::make_shared<ExponentialPowerKernel>(scale, shape), true);
    if (t == "logistic") return law_of(std::make_shared<LogisticKernel>(scale), true);
    throw std::runtime_error("harness: kernel token " + t);
}

// cdf of the distance at the sorted points xs (ascending), by integrating the
// kernel's own pdf: 8-point Gauss-Legendre on each gap, the first gap [0, xs[0]]
// and long gaps subdivided.
static std::vector<double> integrate_pdf(const DistanceLaw& law, const std::vector<double>& xs)
{
    static const double gx[4] = {0.1834346424956498, 0.5255324099163290, 0.7966664774136267, 0.9602898564975363};
    static const double gw[4] = {0.3626837833783620, 0.3137066458778873, 0.2223810344533745, 0.1012285362903763};
    const double fold = law.two_sided ? 2.0 : 1.0;
    auto piece = [&](double a, double b) {
        double c = 0.5 * (a + b), h = 0.5 * (b - a), s = 0;
        for (int i = 0; i < 4; i++)
            s += gw[i] * (law.pdf(c - h * gx[i]) + law.pdf(c + h * gx[i]));
        return s * h * fold;
    };
    // typical spacing: median gap, used to subdivide long gaps
    std::vector<double> out(xs.size());
    double acc = 0, prev = 0;
    double scale_hint = xs[xs.size() / 2] / 200.0;
    for (size_t i = 0; i < xs.size(); i++) {
        double a = prev, b = xs[i];
        if (b > a) {
            int parts = (int)std::min(2000.0, std::max(1.0, std::ceil((b - a) / scale_hint)));
            if (i == 0)
                parts = std::max(parts, 400);
            // geometric refinement towards 0 in the first gap (integrable singularities)
            if (i == 0) {
                double lo = b;
                for (int k = 0; k < 60; k++) {
                    double nlo = lo * 0.5;
                    acc += piece(nlo, lo);
                    lo = nlo;
                }
                acc += piece(0, lo);
            }
            else {
                double w = (b - a) / parts;
                for (int k = 0; k < parts; k++)
                    acc += piece(a + k * w, a + (k + 1) * w);
            }
        }
        out[i] = acc;
        prev = b;
    }
    return out;
}

// ---- mix: controlled uniform random bit generator and tagged sub-kernels ----
struct FixedURBG
{
    using result_type = std::uint64_t;
    std::uint64_t v = 0;
    int calls = 0;
    static constexpr result_type min() { return 0; }
    static constexpr result_type max() { return ~std::uint64_t(0); }
    result_type operator()()
    {
        calls++;
        return v;
    }
};
struct TwoStreams
{
    FixedURBG nat, ant;
    FixedURBG& natural_dispersal() { return nat; }
    FixedURBG& anthropogenic_dispersal() { return ant; }
};
struct Mt2Streams
{
    std::mt19937_64 nat, ant;
    std::mt19937_64& natural_dispersal() { return nat; }
    std::mt19937_64& anthropogenic_dispersal() { return ant; }
};
struct TagKernel
{
    int tag;
    bool eligible;
    const void** seen;
    TagKernel(int t, bool e, const void** s) : tag(t), eligible(e), seen(s) {}
    template<typename G>
    std::tuple<int, int> operator()(G& g, int row, int col)
    {
        *seen = (const void*)&g;
        return std::make_tuple(row + tag, col);
    }
    bool is_cell_eligible(int, int) { return eligible; }
    static bool supports_kernel(const DispersalKernelType) { return true; }
};

using Gen = std::mt19937;

template<typename KI>
static const char* class_of(KI* k)
{
    if (dynamic_cast<DynamicWrapperKernel<UniformDispersalKernel, Gen>*>(k)) return "uniform";
    if (dynamic_cast<DynamicWrapperKernel<DeterministicNeighborDispersalKernel, Gen>*>(k)) return "neighbor";
    if (dynamic_cast<DynamicWrapperKernel<NetworkDispersalKernel<int>, Gen>*>(k)) return "network";
    if (dynamic_cast<DynamicWrapperKernel<DeterministicDispersalKernel<Raster<int>>, Gen>*>(k)) return "deterministic";
    if (dynamic_cast<DynamicWrapperKernel<RadialDispersalKernel<Raster<int>>, Gen>*>(k)) return "radial";
    return "other";
}


// Library spelling of the harness's kernel tokens (for the factory cases).
static std::string libname_of(const std::string& t)
{
    if (t == "lognormal") return "log-normal";
    if (t == "powerlaw") return "power-law";
    if (t == "hsecant") return "hyperbolic-secant";
    if (t == "exppower") return "exponential-power";
    return t;
}
static std::string opposite_of(const std::string& d)
{
    if (d == "N") return "S";
    if (d == "NE") return "SW";
    if (d == "E") return "W";
    if (d == "SE") return "NW";
    if (d == "S") return "N";
    if (d == "SW") return "NE";
    if (d == "W") return "E";
    if (d == "NW") return "SE";
    return "N";
}
// A radial kernel created by create_natural_kernel / create_anthro_kernel from a
// Config; the parameters of the OTHER kernel are set to decoy values so that a
// mix-up of natural and anthropogenic parameters is visible.
static std::unique_ptr<KernelInterface<Gen>> factory_radial(
    const std::string& which, const std::string& kname, double scale, double shape,
    const std::string& dir, double kappa, double ew, double ns,
    const Raster<int>& dispersers, const Network<int>& network)
{
    Config config;
    config.rows = 5;
    config.cols = 5;
    config.ew_res = ew;
    config.ns_res = ns;
    config.shape = shape;
    config.dispersal_stochasticity = true;
    config.network_movement = "walk";
    bool nat = which == "nat";
    std::string d = dir == "NONE" ? "" : dir;
    config.natural_kernel_type = nat ? libname_of(kname) : "cauchy";
    config.anthro_kernel_type = nat ? "cauchy" : libname_of(kname);
    config.natural_scale = nat ? scale : scale * 7 + 1;
    config.anthro_scale = nat ? scale * 7 + 1 : scale;
    config.natural_direction = nat ? d : opposite_of(dir);
    config.anthro_direction = nat ? opposite_of(dir) : d;
    config.natural_kappa = nat ? kappa : 0;
    config.anthro_kappa = nat ? 0 : kappa;
    if (nat)
        return create_natural_kernel<Gen, Raster<int>, int>(config, dispersers);
    return create_anthro_kernel<Gen, Raster<int>, int>(config, dispersers, network);
}


// ======================================================================
// real kernels, SwitchDispersalKernel, mix of real kernels
// ======================================================================
// Counting generator: an optional scripted first value (so that the outcome of
// the first draw - the mix's Bernoulli - is controlled), then mt19937_64.
struct CountingURBG
{
    using result_type = std::uint64_t;
    std::mt19937_64 rest;
    bool scripted = false;
    std::uint64_t first = 0;
    long calls = 0;
    CountingURBG() = default;
    explicit CountingURBG(std::uint64_t seed) : rest(seed) {}
    static constexpr result_type min() { return 0; }
    static constexpr result_type max() { return ~std::uint64_t(0); }
    result_type operator()()
    {
        calls++;
        if (scripted && calls == 1)
            return first;
        return rest();
    }
};
struct CountingStreams
{
    CountingURBG nat, ant;
    CountingURBG& natural_dispersal() { return nat; }
    CountingURBG& anthropogenic_dispersal() { return ant; }
};

static DispersalKernelType enum_of(const std::string& t)
{
    static const char* names[] = {"Cauchy", "Exponential", "Uniform", "DeterministicNeighbor", "PowerLaw",
                                  "HyperbolicSecant", "Gamma", "ExponentialPower", "Weibull", "Normal",
                                  "LogNormal", "Logistic", "Network", "None"};
    static const DispersalKernelType values[] = {
        DispersalKernelType::Cauchy, DispersalKernelType::Exponential, DispersalKernelType::Uniform,
        DispersalKernelType::DeterministicNeighbor, DispersalKernelType::PowerLaw,
        DispersalKernelType::HyperbolicSecant, DispersalKernelType::Gamma,
        DispersalKernelType::ExponentialPower, DispersalKernelType::Weibull, DispersalKernelType::Normal,
        DispersalKernelType::LogNormal, DispersalKernelType::Logistic, DispersalKernelType::Network,
        DispersalKernelType::None};
    for (int i = 0; i < 14; i++)
        if (t == names[i])
            return values[i];
    throw std::runtime_error("harness: enumerator token " + t);
}
// the library's spelling of an enumerator (for Config)
static std::string config_name_of(const std::string& t)
{
    if (t == "DeterministicNeighbor") return "deterministic neighbor";
    if (t == "PowerLaw") return "power-law";
    if (t == "HyperbolicSecant") return "hyperbolic-secant";
    if (t == "ExponentialPower") return "exponential-power";
    if (t == "LogNormal") return "log-normal";
    std::string s = t;
    s[0] = (char)std::tolower(s[0]);
    return s;
}

typedef std::pair<int, int> Cell;
static Cell cell_of(const std::string& t)
{
    size_t p = t.find(':');
    if (p == std::string::npos)
        throw std::runtime_error("harness: cell token " + t);
    return Cell(std::stoi(t.substr(0, p)), std::stoi(t.substr(p + 1)));
}
static std::string scell(int r, int c)
{
    return std::to_string(r) + ":" + std::to_string(c);
}

// rows cols ew ns edges: raster of dispersers and a network loaded from text with
// one two-point segment per edge, node coordinates at the cell centres
struct Land
{
    int rows, cols;
    double ew, ns;
    std::vector<std::pair<Cell, Cell>> edges;
    Raster<int> dispersers;
    std::unique_ptr<Network<int>> net;
    std::string text;
    bool node_at(int r, int c) const
    {
        for (const auto& e : edges)
            if (e.first == Cell(r, c) || e.second == Cell(r, c))
                return true;
        return false;
    }
};
static std::unique_ptr<Land> make_land(const std::vector<std::string>& t, size_t o)
{
    std::unique_ptr<Land> l(new Land());
    l->rows = std::stoi(t.at(o));
    l->cols = std::stoi(t.at(o + 1));
    l->ew = std::stod(t.at(o + 2));
    l->ns = std::stod(t.at(o + 3));
    l->dispersers = Raster<int>(l->rows, l->cols, 5);
    const std::string& es = t.at(o + 4);
    if (es == "-") {
        l->net.reset(new Network<int>(Network<int>::null_network()));
        return l;
    }
    size_t p = 0;
    while (p < es.size()) {
        size_t q = es.find(',', p);
        if (q == std::string::npos)
            q = es.size();
        std::string e = es.substr(p, q - p);
        size_t d = e.find('-');
        l->edges.emplace_back(cell_of(e.substr(0, d)), cell_of(e.substr(d + 1)));
        p = q + 1;
    }
    BBox<double> bbox;
    bbox.north = l->rows * l->ns;
    bbox.south = 0;
    bbox.east = l->cols * l->ew;
    bbox.west = 0;
    l->net.reset(new Network<int>(bbox, l->ew, l->ns));
    char buf[400];
    int id = 1;
    for (const auto& e : l->edges) {
        std::snprintf(buf, sizeof buf, "%d,%d,%.17g;%.17g;%.17g;%.17g\n", id, id + 1,
                      (e.first.second + 0.5) * l->ew, bbox.north - (e.first.first + 0.5) * l->ns,
                      (e.second.second + 0.5) * l->ew, bbox.north - (e.second.first + 0.5) * l->ns);
        l->text += buf;
        id += 2;
    }
    std::stringstream stream(l->text);
    l->net->load(stream);
    return l;
}

typedef SwitchDispersalKernel<Raster<int>, int> SwitchK;
static NetworkDispersalKernel<int> network_member(const Land& l, const std::string& movement)
{
    if (movement == "teleport")
        return NetworkDispersalKernel<int>(*l.net);
    // walking distances shorter than one cell: the trip ends inside the first segment
    return NetworkDispersalKernel<int>(*l.net, 0.0, 0.25 * std::min(l.ew, l.ns), movement == "jump");
}
// member kernels of a hand-built switch kernel; their own parameters do not depend
// on the switch kernel's type, so every type and flag can be called
struct Members
{
    RadialDispersalKernel<Raster<int>> radial;
    DeterministicDispersalKernel<Raster<int>> deterministic;
    UniformDispersalKernel uniform;
    DeterministicNeighborDispersalKernel neighbor;
    NetworkDispersalKernel<int> network;
    Members(const Land& l, const std::string& movement, Direction nb, DispersalKernelType radial_type, Direction rd, double kappa)
        : radial(l.ew, l.ns, radial_type, 4 * std::max(l.ew, l.ns), rd, kappa, 1.0),
          deterministic(DispersalKernelType::Cauchy, l.dispersers, 0.9, l.ew, l.ns, std::min(l.ew, l.ns), 1.0),
          uniform(l.rows, l.cols),
          neighbor(nb),
          network(network_member(l, movement))
    {}
    SwitchK make(DispersalKernelType type, const std::string& flag) const
    {
        if (flag == "d")
            return SwitchK(type, radial, deterministic, uniform, network, neighbor);
        return SwitchK(type, radial, deterministic, uniform, network, neighbor, flag == "1");
    }
};

// what one kernel call did: result or exception, and generator calls
struct Obs
{
    bool threw = false;
    std::string what;  // exception name or r:c
    long calls = 0;
    bool operator==(const Obs& o) const { return threw == o.threw && what == o.what && calls == o.calls; }
};
template<typename K, typename G>
static Obs observe(K& kernel, G& g, long& counter, int r, int c)
{
    Obs o;
    std::string s = guarded([&] {
        int row, col;
        std::tie(row, col) = kernel(g, r, c);
        return scell(row, col);
    });
    o.threw = s.compare(0, 4, "err:") == 0;
    o.what = s;
    o.calls = counter;
    return o;
}
static std::string sobs(const Obs& o)
{
    return o.what + "/" + std::to_string(o.calls);
}

template<typename G>
static const char* class_of_g(KernelInterface<G>* k)
{
    if (dynamic_cast<DynamicWrapperKernel<UniformDispersalKernel, G>*>(k)) return "uniform";
    if (dynamic_cast<DynamicWrapperKernel<DeterministicNeighborDispersalKernel, G>*>(k)) return "neighbor";
    if (dynamic_cast<DynamicWrapperKernel<NetworkDispersalKernel<int>, G>*>(k)) return "network";
    if (dynamic_cast<DynamicWrapperKernel<DeterministicDispersalKernel<Raster<int>>, G>*>(k)) return "deterministic";
    if (dynamic_cast<DynamicWrapperKernel<RadialDispersalKernel<Raster<int>>, G>*>(k)) return "radial";
    return "other";
}

static const char* DIR_TOKENS[8] = {"NW", "N", "NE", "E", "SE", "S", "SW", "W"};
static const int DIR_OFF[8][2] = {{-1, -1}, {-1, 0}, {-1, 1}, {0, 1}, {1, 1}, {1, 0}, {1, -1}, {0, -1}};

static Config land_config(const Land& l, const std::string& movement)
{
    Config config;
    config.rows = l.rows;
    config.cols = l.cols;
    config.ew_res = l.ew;
    config.ns_res = l.ns;
    config.shape = 1.0;
    config.natural_scale = 2 * std::max(l.ew, l.ns);
    config.anthro_scale = 2.0;
    config.natural_kappa = 0;
    config.anthro_kappa = 0;
    config.natural_direction = "";
    config.anthro_direction = "SE";
    config.dispersal_percentage = 0.9;
    config.network_movement = movement;
    config.network_min_distance = 0.0;
    config.network_max_distance = 0.25 * std::min(l.ew, l.ns);
    return config;
}

// the mix with its protected anthropogenic kernel made visible
template<typename Mix>
struct OpenMix : public Mix
{
    explicit OpenMix(Mix&& m) : Mix(std::move(m)) {}
    bool has_anthropogenic() { return static_cast<bool>(this->anthropogenic_kernel_); }
    bool anthropogenic_eligible(int r, int c) { return this->anthropogenic_kernel_->is_cell_eligible(r, c); }
};

// One mix call at (r, c) compared with the natural kernel alone and the
// anthropogenic kernel alone (after 0 and after 1 draw on its stream), all from
// the same generator states: the kernel that was run and the number of
// Bernoulli draws are the unique explanation of (result, calls on each stream).
struct MixRun
{
    std::string line, raw;
};
template<typename MakeMix, typename MakeNat, typename MakeAnt>
static MixRun mix_at(int r, int c, std::uint64_t seed, std::uint64_t first, MakeMix make_mix, MakeNat make_nat, MakeAnt make_ant,
                     bool natural_is_neighbor)
{
    auto fresh = [&](CountingStreams& g) {
        g.nat = CountingURBG(seed);
        g.ant = CountingURBG(seed + 7919);
        g.ant.scripted = true;
        g.ant.first = first;
    };
    // anthropogenic kernel alone, after k draws on its stream
    Obs alone[2];
    for (int k = 0; k < 2; k++) {
        CountingStreams g;
        fresh(g);
        for (int j = 0; j < k; j++)
            g.ant();
        auto ant = make_ant();
        alone[k] = observe(*ant, g.ant, g.ant.calls, r, c);
    }
    // natural kernel: when it is a neighbour kernel, the first direction whose
    // target cell differs from what the anthropogenic kernel alone returns
    int nd = 0;
    if (natural_is_neighbor)
        for (nd = 0; nd < 7; nd++) {
            std::string tgt = scell(r + DIR_OFF[nd][0], c + DIR_OFF[nd][1]);
            if (tgt != alone[0].what && tgt != alone[1].what)
                break;
        }
    Obs nat_alone;
    {
        CountingStreams g;
        fresh(g);
        auto nat = make_nat(nd);
        nat_alone = observe(*nat, g.nat, g.nat.calls, r, c);
    }
    CountingStreams g;
    fresh(g);
    auto mix = make_mix(nd);
    // create_dynamic_kernel may leave a disabled anthropogenic kernel out (null)
    std::string elig = !mix->has_anthropogenic() ? "-" : mix->anthropogenic_eligible(r, c) ? "1" : "0";
    long dummy = 0;
    Obs run = observe(*mix, g, dummy, r, c);
    long A = g.ant.calls, N = g.nat.calls;
    std::vector<std::string> expl;
    for (int b = 0; b < 2; b++)
        if (run.threw == nat_alone.threw && run.what == nat_alone.what && N == nat_alone.calls && A == b)
            expl.push_back(std::string("natural bdraws=") + std::to_string(b));
    for (int k = 0; k < 2; k++)
        if (run.threw == alone[k].threw && run.what == alone[k].what && A == alone[k].calls && N == 0)
            expl.push_back(std::string("anthropogenic bdraws=") + std::to_string(k));
    std::string choice;
    if (expl.size() == 1)
        choice = expl[0];
    else if (expl.empty())
        choice = "unexplained bdraws=?";
    else {
        choice = "ambiguous";
        for (const auto& e : expl)
            choice += "|" + e.substr(0, e.find(' ')) + e.substr(e.find('=') + 1);
        choice += " bdraws=?";
    }
    MixRun out;
    out.line = std::string("elig=") + elig + " choice=" + choice + " exc=" + (run.threw ? "1" : "0");
    out.raw = "cell=" + scell(r, c) + " result=" + run.what + " ant_calls=" + std::to_string(A) + " nat_calls=" + std::to_string(N)
              + " natural_alone=" + sobs(nat_alone) + " anthropogenic_alone0=" + sobs(alone[0]) + " anthropogenic_alone1="
              + sobs(alone[1]) + " natural_direction=" + (natural_is_neighbor ? DIR_TOKENS[nd] : "-");
    return out;
}

static void real_kernel_case(int k, const std::vector<std::string>& t)
{
    const std::string& c = t[0];
    if (c == "SS") {
        DispersalKernelType ty = enum_of(t.at(1));
        std::printf("%d sup switch=%d radial=%d deterministic=%d uniform=%d neighbor=%d network=%d\n", k,
                    (int)SwitchK::supports_kernel(ty), (int)RadialDispersalKernel<Raster<int>>::supports_kernel(ty),
                    (int)DeterministicDispersalKernel<Raster<int>>::supports_kernel(ty),
                    (int)UniformDispersalKernel::supports_kernel(ty),
                    (int)DeterministicNeighborDispersalKernel::supports_kernel(ty),
                    (int)NetworkDispersalKernel<int>::supports_kernel(ty));
        return;
    }
    if (c == "SW") {
        // SW type flag movement rows cols ew ns edges seed cells...
        DispersalKernelType ty = enum_of(t.at(1));
        const std::string& flag = t.at(2);
        std::unique_ptr<Land> land = make_land(t, 4);
        std::uint64_t seed = std::stoull(t.at(9));
        for (size_t j = 10; j < t.size(); j++) {
            Cell cell = cell_of(t[j]);
            int r = cell.first, cc = cell.second;
            // fresh kernels for every cell (the deterministic kernel keeps state between calls)
            Members m(*land, t.at(3), Direction::SE, DispersalKernelType::Exponential, Direction::N, 2.0);
            SwitchK sw = m.make(ty, flag);
            bool elig = sw.is_cell_eligible(r, cc);
            CountingURBG g(seed);
            Obs run = observe(sw, g, g.calls, r, cc);
            Members a(*land, t.at(3), Direction::SE, DispersalKernelType::Exponential, Direction::N, 2.0);
            Obs alone[5];
            CountingURBG g0(seed), g1(seed), g2(seed), g3(seed), g4(seed);
            alone[0] = observe(a.uniform, g0, g0.calls, r, cc);
            alone[1] = observe(a.neighbor, g1, g1.calls, r, cc);
            alone[2] = observe(a.network, g2, g2.calls, r, cc);
            alone[3] = observe(a.deterministic, g3, g3.calls, r, cc);
            alone[4] = observe(a.radial, g4, g4.calls, r, cc);
            static const char* names[5] = {"uniform", "neighbor", "network", "deterministic", "radial"};
            std::string member, raw;
            int n = 0;
            for (int q = 0; q < 5; q++) {
                if (run == alone[q]) {
                    member += (n ? "+" : "") + std::string(names[q]);
                    n++;
                }
                raw += std::string(" ") + names[q] + "=" + sobs(alone[q]);
            }
            if (n == 0)
                member = "none";
            else if (n > 1)
                member = "ambiguous:" + member;
            int i = (int)(j - 10);
            std::printf("%d sw%d elig=%d member=%s exc=%d\n", k, i, (int)elig, member.c_str(), (int)run.threw);
            std::printf("%d swraw%d cell=%s result=%s%s\n", k, i, scell(r, cc).c_str(), sobs(run).c_str(), raw.c_str());
        }
        return;
    }
    if (c == "KE") {
        // KE movement rows cols ew ns edges cells...
        std::unique_ptr<Land> land = make_land(t, 2);
        Members m(*land, t.at(1), Direction::SE, DispersalKernelType::Exponential, Direction::None, 0.0);
        for (size_t j = 7; j < t.size(); j++) {
            Cell cell = cell_of(t[j]);
            int r = cell.first, cc = cell.second;
            std::printf("%d ke%d radial=%d deterministic=%d uniform=%d neighbor=%d network=%d\n", k, (int)(j - 7),
                        (int)m.radial.is_cell_eligible(r, cc), (int)m.deterministic.is_cell_eligible(r, cc),
                        (int)m.uniform.is_cell_eligible(r, cc), (int)m.neighbor.is_cell_eligible(r, cc),
                        (int)m.network.is_cell_eligible(r, cc));
        }
        return;
    }
    if (c == "FE") {
        // FE which hex stochastic movement rows cols ew ns edges cells...
        std::unique_ptr<Land> land = make_land(t, 5);
        Config config = land_config(*land, t.at(4));
        std::string name = unhex(t.at(2));
        config.natural_kernel_type = name;
        config.anthro_kernel_type = name;
        config.natural_direction = "SE";
        config.natural_scale = config.anthro_scale;  // a scale every kernel type can build a small window from
        config.dispersal_stochasticity = t.at(3) == "1";
        std::unique_ptr<KernelInterface<Gen>> kernel;
        std::string r0 = guarded([&] {
            kernel = t.at(1) == "nat" ? create_natural_kernel<Gen, Raster<int>, int>(config, land->dispersers)
                                      : create_anthro_kernel<Gen, Raster<int>, int>(config, land->dispersers, *land->net);
            return std::string(class_of_g<Gen>(kernel.get()));
        });
        std::printf("%d fe class=%s\n", k, r0.c_str());
        if (!kernel)
            return;
        for (size_t j = 10; j < t.size(); j++) {
            Cell cell = cell_of(t[j]);
            std::printf("%d fe%d elig=%d\n", k, (int)(j - 10), (int)kernel->is_cell_eligible(cell.first, cell.second));
        }
        return;
    }
    if (c == "MX") {
        // MX route use pk uk bern type flag natkind movement rows cols ew ns edges seed cells...
        const std::string& route = t.at(1);
        bool use = t.at(2) == "1";
        double p = std::stoi(t.at(3)) / 16.0;
        std::uint64_t first = (2 * (std::uint64_t)std::stoi(t.at(4)) + 1) << 59;  // u = (2*uk+1)/32
        const std::string& tyname = t.at(6);
        DispersalKernelType ty = enum_of(tyname);
        const std::string& flag = t.at(7);
        bool nat_neighbor = t.at(8) == "neighbor";
        const std::string& movement = t.at(9);
        std::unique_ptr<Land> land = make_land(t, 10);
        std::uint64_t seed = std::stoull(t.at(15));
        for (size_t j = 16; j < t.size(); j++) {
            Cell cell = cell_of(t[j]);
            MixRun res;
            if (route == "hand") {
                typedef NaturalAnthropogenicDispersalKernel<SwitchK, SwitchK> Mix;
                auto make_nat = [&](int nd) {
                    Members m(*land, movement, dir_of(DIR_TOKENS[nd]), DispersalKernelType::Exponential, Direction::None, 0.0);
                    return std::unique_ptr<SwitchK>(new SwitchK(
                        m.make(nat_neighbor ? DispersalKernelType::DeterministicNeighbor : DispersalKernelType::Exponential, "1")));
                };
                auto make_ant = [&]() {
                    Members m(*land, movement, Direction::SE, DispersalKernelType::Exponential, Direction::N, 2.0);
                    return std::unique_ptr<SwitchK>(new SwitchK(m.make(ty, flag)));
                };
                auto make_mix = [&](int nd) {
                    return std::unique_ptr<OpenMix<Mix>>(new OpenMix<Mix>(Mix(make_nat(nd), make_ant(), use, p)));
                };
                res = mix_at(cell.first, cell.second, seed, first, make_mix, make_nat, make_ant, nat_neighbor);
            }
            else {
                typedef DispersalKernel<CountingURBG> Mix;
                auto config_for = [&](int nd) {
                    Config config = land_config(*land, movement);
                    config.natural_kernel_type = nat_neighbor ? "deterministic neighbor" : "exponential";
                    config.natural_direction = nat_neighbor ? DIR_TOKENS[nd] : "";
                    config.anthro_kernel_type = config_name_of(tyname);
                    config.dispersal_stochasticity = flag == "1";
                    config.use_anthropogenic_kernel = use;
                    config.percent_natural_dispersal = p;
                    return config;
                };
                auto make_nat = [&](int nd) {
                    return create_natural_kernel<CountingURBG, Raster<int>, int>(config_for(nd), land->dispersers);
                };
                auto make_ant = [&]() {
                    return create_anthro_kernel<CountingURBG, Raster<int>, int>(config_for(0), land->dispersers, *land->net);
                };
                auto make_mix = [&](int nd) {
                    return std::unique_ptr<OpenMix<Mix>>(new OpenMix<Mix>(
                        create_dynamic_kernel<CountingURBG, Raster<int>, int>(config_for(nd), land->dispersers, *land->net)));
                };
                res = mix_at(cell.first, cell.second, seed, first, make_mix, make_nat, make_ant, nat_neighbor);
            }
            int i = (int)(j - 16);
            std::printf("%d mx%d %s\n", k, i, res.line.c_str());
            std::printf("%d mxraw%d %s\n", k, i, res.raw.c_str());
        }
        return;
    }
}

int main(int argc, char** argv)
{
    if (argc < 2)
        return 2;
    // optional second argument: first case number to run (the engine restarts
    // the harness behind a case that aborted it, e.g. under UBSan)
    const int first_case = argc > 2 ? std::atoi(argv[2]) : 0;
    for_each_case(argv[1], [first_case](int k, const std::vector<std::string>& t) {
        if (k < first_case)
            return;
        std::fflush(stdout);
        auto i = [&](size_t j) { return std::stoi(t.at(j)); };
        auto d = [&](size_t j) { return std::stod(t.at(j)); };
        const std::string& c = t[0];
        if (c == "N") {
            std::string r = guarded([&] {
                DeterministicNeighborDispersalKernel kernel(dir_of(t[1]));
                std::mt19937 g(1);
                int row, col;
                std::tie(row, col) = kernel(g, i(2), i(3));
                return std::to_string(row) + " " + std::to_string(col);
            });
            std::printf("%d nb %s\n", k, r.c_str());
        }
        else if (c == "T") {
            std::string s = unhex(t[1]);
            std::string r = guarded([&] { return std::to_string((int)kernel_type_from_string(s)); });
            std::printf("%d kt %s\n", k, r.c_str());
        }
        else if (c == "D") {
            std::string s = unhex(t[1]);
            std::string r = guarded([&] { return std::to_string((int)direction_from_string(s)); });
            std::printf("%d dir %s\n", k, r.c_str());
        }
        else if (c == "M") {
            bool use = i(1), elig = i(2);
            double p = i(3) / 16.0;
            std::uint64_t uk = (std::uint64_t)i(4);
            const void* seen = nullptr;
            TwoStreams gen;
            gen.ant.v = (2 * uk + 1) << 59;  // u = (2*uk+1)/32
            gen.nat.v = gen.ant.v;
            NaturalAnthropogenicDispersalKernel<TagKernel, TagKernel> kernel(
                std::unique_ptr<TagKernel>(new TagKernel(1000, true, &seen)),
                std::unique_ptr<TagKernel>(new TagKernel(2000, elig, &seen)),
                use,
                p);
            int row, col;
            std::tie(row, col) = kernel(gen, 5, 7);
            const char* which = row == 1005 ? "natural" : row == 2005 ? "anthropogenic" : "?";
            const char* stream = seen == (const void*)&gen.nat ? "natural"
                                 : seen == (const void*)&gen.ant ? "anthropogenic" : "?";
            std::printf("%d mix %s bdraws=%d/%d kstream=%s\n", k, which, gen.ant.calls, gen.nat.calls, stream);
        }
        else if (c == "B") {
            // frequency of the anthropogenic branch with a real generator
            double p = d(1);
            int n = i(3);
            Mt2Streams gen;
            gen.nat.seed(i(2));
            gen.ant.seed(i(2) + 7919);
            const void* seen = nullptr;
            NaturalAnthropogenicDispersalKernel<TagKernel, TagKernel> kernel(
                std::unique_ptr<TagKernel>(new TagKernel(1000, true, &seen)),
                std::unique_ptr<TagKernel>(new TagKernel(2000, true, &seen)),
                true,
                p);
            int anth = 0;
            for (int j = 0; j < n; j++) {
                int row, col;
                std::tie(row, col) = kernel(gen, 0, 0);
                anth += row == 2000;
            }
            std::printf("%d bfreq anthropogenic=%d n=%d\n", k, anth, n);
        }
        else if (c == "U" || c == "UF") {
            size_t o = c == "U" ? 1 : 2;
            int rows = i(o), cols = i(o + 1), seed = i(o + 2), n = i(o + 3);
            std::string r = guarded([&] {
                Gen g(seed);
                int rmin = 1 << 30, rmax = -(1 << 30), cmin = 1 << 30, cmax = -(1 << 30);
                std::vector<long> cell((size_t)(rows + 1) * (cols + 1), 0);
                auto note = [&](int row, int col) {
                    rmin = std::min(rmin, row);
                    rmax = std::max(rmax, row);
                    cmin = std::min(cmin, col);
                    cmax = std::max(cmax, col);
                    if (row >= 0 && row <= rows && col >= 0 && col <= cols)
                        cell[(size_t)row * (cols + 1) + col]++;
                };
                if (c == "U") {
                    UniformDispersalKernel kernel(rows, cols);
                    for (int j = 0; j < n; j++) {
                        int row, col;
                        std::tie(row, col) = kernel(g, 3, 4);
                        note(row, col);
                    }
                }
                else {
                    Config config;
                    config.rows = rows;
                    config.cols = cols;
                    config.ew_res = 10;
                    config.ns_res = 10;
                    config.natural_kernel_type = "uniform";
                    config.anthro_kernel_type = "uniform";
                    config.natural_scale = 1;
                    config.anthro_scale = 1;
                    Raster<int> dispersers(rows, cols, 0);
                    Network<int> network = Network<int>::null_network();
                    std::unique_ptr<KernelInterface<Gen>> kernel =
                        t[1] == "nat" ? create_natural_kernel<Gen, Raster<int>, int>(config, dispersers)
                                      : create_anthro_kernel<Gen, Raster<int>, int>(config, dispersers, network);
                    for (int j = 0; j < n; j++) {
                        int row, col;
                        std::tie(row, col) = (*kernel)(g, 3, 4);
                        note(row, col);
                    }
                }
                // chi-square statistic of the in-landscape cells against equal probability
                double expect = (double)n / ((double)rows * cols), chi = 0;
                long inside = 0;
                for (int row = 0; row < rows; row++)
                    for (int col = 0; col < cols; col++) {
                        double x = (double)cell[(size_t)row * (cols + 1) + col];
                        inside += (long)x;
                        chi += (x - expect) * (x - expect) / expect;
                    }
                char buf[200];
                std::snprintf(buf, sizeof buf, "%d %d %d %d", rmin, rmax, cmin, cmax);
                std::string s(buf);
                std::snprintf(buf, sizeof buf, "\n%d unistat inside=%ld chi2=%.3f n=%d", k, inside, chi, n);
                return s + buf;
            });
            std::printf("%d uni %s\n", k, r.c_str());
        }
        else if (c == "F") {
            std::string name = unhex(t[2]);
            bool stochastic = i(3);
            std::string r = guarded([&] {
                Config config;
                config.rows = 5;
                config.cols = 5;
                config.ew_res = 10;
                config.ns_res = 10;
                config.natural_kernel_type = name;
                config.anthro_kernel_type = name;
                config.natural_scale = 1.5;
                config.anthro_scale = 1.5;
                config.shape = 2;
                config.natural_direction = "N";
                config.anthro_direction = "N";
                config.network_movement = "walk";
                config.dispersal_stochasticity = stochastic;
                Raster<int> dispersers(5, 5, 0);
                Network<int> network = Network<int>::null_network();
                std::unique_ptr<KernelInterface<Gen>> kernel =
                    t[1] == "nat" ? create_natural_kernel<Gen, Raster<int>, int>(config, dispersers)
                                  : create_anthro_kernel<Gen, Raster<int>, int>(config, dispersers, network);
                return std::string(class_of(kernel.get()));
            });
            std::printf("%d fac %s\n", k, r.c_str());
        }
        else if (c == "G" || c == "GF") {
            // G dir ew ns kname scale shape seed n   /   GF nat|ant dir ew ns kname scale shape seed n
            size_t o = c == "G" ? 0 : 1;
            std::string r = guarded([&] {
                std::string s;
                int n = i(o + 8);
                if (c == "G") {
                    RadialDispersalKernel<Raster<int>> kernel(
                        d(2), d(3), ktype_of(t[4]), d(5), dir_of(t[1]), 1e6, d(6));
                    std::mt19937_64 g(i(7));
                    for (int j = 0; j < n; j++) {
                        int row, col;
                        std::tie(row, col) = kernel(g, 0, 0);
                        s += " " + std::to_string(row) + ":" + std::to_string(col);
                    }
                }
                else {
                    Raster<int> dispersers(5, 5, 0);
                    Network<int> network = Network<int>::null_network();
                    auto kernel = factory_radial(t[1], t[5], d(6), d(7), t[2], 1e6, d(3), d(4), dispersers, network);
                    Gen g(i(8));
                    for (int j = 0; j < n; j++) {
                        int row, col;
                        std::tie(row, col) = (*kernel)(g, 0, 0);
                        s += " " + std::to_string(row) + ":" + std::to_string(col);
                    }
                }
                return s;
            });
            std::printf("%d geo%s%s\n", k, r[0] == ' ' ? "" : " ", r.c_str());
        }
        else if (c == "R" || c == "RF") {
            // R kname scale shape dir kappa ew ns seed n   /   RF nat|ant kname scale shape dir kappa ew ns seed n
            size_t o = c == "R" ? 0 : 1;
            std::string r = guarded([&] {
                double scale = d(o + 2), shape = d(o + 3), kappa = d(o + 5), ew = d(o + 6), ns = d(o + 7);
                int n = i(o + 9);
                const std::string& kname = t[o + 1];
                RadialDispersalKernel<Raster<int>> direct(ew, ns, ktype_of(kname), scale, dir_of(t[o + 4]), kappa, shape);
                Raster<int> dispersers(5, 5, 0);
                Network<int> network = Network<int>::null_network();
                std::unique_ptr<KernelInterface<Gen>> made;
                if (c == "RF")
                    made = factory_radial(t[1], kname, scale, shape, t[o + 4], kappa, ew, ns, dispersers, network);
                DistanceLaw law = make_law(kname, scale, shape);
                std::mt19937_64 g(i(o + 8));
                Gen g32(i(o + 8));
                std::vector<double> rho(n);
                long quad[4] = {0, 0, 0, 0};
                for (int j = 0; j < n; j++) {
                    int row, col;
                    if (c == "R")
                        std::tie(row, col) = direct(g, 0, 0);
                    else
                        std::tie(row, col) = (*made)(g32, 0, 0);
                    rho[j] = std::hypot(row * ns, col * ew);
                    // quadrant of the displacement: 0 = NE, 1 = SE, 2 = SW, 3 = NW (axes excluded)
                    if (row < 0 && col > 0) quad[0]++;
                    else if (row > 0 && col > 0) quad[1]++;
                    else if (row > 0 && col < 0) quad[2]++;
                    else if (row < 0 && col < 0) quad[3]++;
                }
                std::sort(rho.begin(), rho.end());
                // band: the true distance lies within h of the reconstructed one
                double h = 0.5 * std::hypot(ns, ew) + 1e-9;
                std::vector<double> pts;
                for (double x : rho) {
                    pts.push_back(std::max(0.0, x - h));
                    pts.push_back(x + h);
                }
                std::sort(pts.begin(), pts.end());
                std::vector<double> pos;
                for (double x : pts)
                    if (x > 0)
                        pos.push_back(x);
                std::vector<double> cdf = integrate_pdf(law, pos);
                auto F = [&](double x) {
                    if (x <= 0)
                        return 0.0;
                    size_t idx = std::lower_bound(pos.begin(), pos.end(), x) - pos.begin();
                    if (idx >= pos.size())
                        idx = pos.size() - 1;
                    return cdf[idx];
                };
                double D = 0;
                for (int j = 0; j < n; j++) {
                    double lo = F(std::max(0.0, rho[j] - h)), hi = F(rho[j] + h);
                    double e_hi = (double)(j + 1) / n, e_lo = (double)j / n;
                    // empirical cdf must lie in [lo, hi] up to D
                    D = std::max(D, e_lo - hi);
                    D = std::max(D, lo - e_hi);
                }
                char buf[200];
                std::snprintf(buf, sizeof buf, "D=%.5f n=%d quadrants=%ld,%ld,%ld,%ld", D, n, quad[0], quad[1], quad[2], quad[3]);
                return std::string(buf);
            });
            std::printf("%d rad %s\n", k, r.c_str());
        }
        else if (c == "K") {
            // K kname scale shape seed n
            std::string r = guarded([&] {
                int n = i(5);
                DistanceLaw law = make_law(t[1], d(2), d(3));
                std::mt19937_64 g(i(4));
                std::vector<double> xs(n);
                for (int j = 0; j < n; j++)
                    xs[j] = law.draw(g);
                std::sort(xs.begin(), xs.end());
                std::vector<double> pos;
                for (double x : xs)
                    pos.push_back(std::max(x, 1e-300));
                std::vector<double> cdf = integrate_pdf(law, pos);
                double D = 0;
                for (int j = 0; j < n; j++) {
                    D = std::max(D, std::abs(cdf[j] - (double)j / n));
                    D = std::max(D, std::abs(cdf[j] - (double)(j + 1) / n));
                }
                char buf[200];
                std::snprintf(buf, sizeof buf, "D=%.5f n=%d mass=%.5f median=%.6g", D, n, cdf[n - 1], xs[n / 2]);
                return std::string(buf);
            });
            std::printf("%d ks %s\n", k, r.c_str());
        }
        else if (c == "SW" || c == "SS" || c == "KE" || c == "FE" || c == "MX") {
            // a failure while setting a case up (not inside a kernel call) is reported as such
            try {
                real_kernel_case(k, t);
            }
            catch (const std::exception& e) {
                std::printf("%d setup_failed %s\n", k, e.what());
            }
        }
        else {
            std::printf("%d unknown_case\n", k);
        }
    });
    return 0;
}
