// Implementation side of the operation-level host-pool tie (pylib/hostops.py,
// called by the host-model engine for C01-C05, C10, C11).
//
// Every case builds ONE pops::HostPool (rasters given cell by cell) with the
// Environment it needs and applies a list of operations of the public HostPool
// API to it, one per line.  After every operation the complete state of every
// cell, the operation's return value and the random outcomes it used (guarded
// hooks of pops/verif_hooks.hpp: the oracle tape) are printed;
// ocaml/drv_hostops.ml replays the same file on the extracted Coq functions of
// CellDefs.v / LandDefs.v (through HostOpsDefs.v) with that tape.
//
// usage: hostops <cases> [--last]
//   --last : print only the last state / error line of every case (used by the
//            generator, which chooses the next operation from the true state)
//
// case block:
//   ops <free text>
//   pool <SI|SEI> <latency> <rows> <cols> <est_stoch> <est_prob> <gen_stoch> <rr>
//   totpop - | v v ...        explicit total population raster
//   other - | v v ...         other individuals raster
//   weather - | q q ...       weather coefficient raster
//   pht - | <susceptibility> <mortality rate> <mortality time lag>
//   cells <S|E,..|I|TE|R|M,..|D|TH> ...      (rows*cols cells; the first decides the cohort counts)
//   suitable r,c r,c ...
//   seed <n>
//   op <name> <args>          (any number)
//   endops
//
// output, k = case number, j = operation number:
//   k init <cells> ; suit <r,c>...
//   k j tape <events>
//   k j st <return value> | <cells> ; suit <r,c>...
//   k j err <exception class>         (the case ends at the first exception)
#include <pops/raster.hpp>
#include <pops/environment.hpp>
#include <pops/host_pool.hpp>
#include <pops/pest_host_table.hpp>
#include <pops/generator_provider.hpp>
#include <pops/model_type.hpp>
#include <cinttypes>
#include <cmath>
#include <cstring>
#include <memory>
#include <random>
#include "hcommon.hpp"

using namespace pops;
using ::verif::guarded;
using ::verif::split_ws;

typedef Raster<int> IR;
typedef Raster<double> DR;
typedef RandomNumberGeneratorProvider<std::default_random_engine> Provider;
typedef HostPool<IR, DR, int, Provider> Pool;
typedef Environment<IR, DR, int, Provider> Env;

static double parse_q(const std::string& s)
{
    size_t p = s.find('/');
    if (p == std::string::npos)
        return std::stod(s);
    return std::stod(s.substr(0, p)) / std::stod(s.substr(p + 1));
}

static std::vector<int> parse_ints(const std::string& s)
{
    std::vector<int> out;
    if (s.empty() || s == "-")
        return out;
    std::stringstream ss(s);
    std::string t;
    while (std::getline(ss, t, ','))
        out.push_back(std::stoi(t));
    return out;
}

// exact text of a double: integer numerator and power-of-two denominator
static std::string q_of_double(double v)
{
    if (v == 0)
        return "0/1";
    int e;
    double m = std::frexp(v, &e);
    long long num = (long long)std::ldexp(m, 53);
    int ex = e - 53;
    while (num % 2 == 0 && ex < 0) {
        num /= 2;
        ex++;
    }
    char buf[64];
    if (ex >= 0)
        std::snprintf(buf, sizeof buf, "%lld*2^%d/1", num, ex);
    else
        std::snprintf(buf, sizeof buf, "%lld/2^%d", num, -ex);
    return buf;
}

static std::vector<std::string> split_bar(const std::string& s)
{
    std::vector<std::string> parts;
    std::string cur;
    for (char ch : s) {
        if (ch == '|') {
            parts.push_back(cur);
            cur.clear();
        }
        else
            cur += ch;
    }
    parts.push_back(cur);
    while (parts.size() < 8)
        parts.push_back("");
    return parts;
}

struct Case
{
    std::vector<std::string> pool, totpop, other, weather, pht, cells, suitable;
    unsigned seed{1};
    std::vector<std::vector<std::string>> ops;
};

struct Data
{
    IR S, I, TE, R, D, TH;
    std::vector<IR> E, M;
    std::vector<std::vector<int>> suit;
};

static std::string ints_text(const std::vector<int>& v)
{
    std::string s;
    for (size_t i = 0; i < v.size(); i++)
        s += (i ? "," : "") + std::to_string(v[i]);
    return s;
}

static std::string state_text(const Data& d, int rows, int cols)
{
    std::string s;
    for (int i = 0; i < rows * cols; i++) {
        int r = i / cols, c = i % cols;
        s += (i ? " " : "") + std::to_string(d.S(r, c)) + "|";
        for (size_t k = 0; k < d.E.size(); k++)
            s += (k ? "," : "") + std::to_string(d.E[k](r, c));
        s += "|" + std::to_string(d.I(r, c)) + "|" + std::to_string(d.TE(r, c)) + "|"
             + std::to_string(d.R(r, c)) + "|";
        for (size_t k = 0; k < d.M.size(); k++)
            s += (k ? "," : "") + std::to_string(d.M[k](r, c));
        s += "|" + std::to_string(d.D(r, c)) + "|" + std::to_string(d.TH(r, c));
    }
    s += " ; suit";
    for (auto& rc : d.suit)
        s += " " + std::to_string(rc.at(0)) + "," + std::to_string(rc.at(1));
    return s;
}

static void run_case(int k, const Case& cs, bool last_only)
{
    std::vector<std::string> lines;  // everything but tape lines when last_only
    auto emit = [&](const std::string& s, bool is_tape) {
        if (!last_only)
            std::puts(s.c_str());
        else if (!is_tape)
            lines.push_back(s);
    };
    std::string setup = guarded([&]() -> std::string {
        const auto& P = cs.pool;
        ModelType mt = model_type_from_string(P.at(0));
        unsigned latency = (unsigned)std::stoi(P.at(1));
        int rows = std::stoi(P.at(2)), cols = std::stoi(P.at(3));
        bool est_stoch = P.at(4) == "1";
        double est_prob = parse_q(P.at(5));
        bool gen_stoch = P.at(6) == "1";
        double rr = parse_q(P.at(7));
        int ncell = rows * cols;
        Data d;
        auto first = split_bar(cs.cells.at(0));
        size_t ne = parse_ints(first[1]).size(), nm = parse_ints(first[5]).size();
        d.S = IR(rows, cols, 0);
        d.I = IR(rows, cols, 0);
        d.TE = IR(rows, cols, 0);
        d.R = IR(rows, cols, 0);
        d.D = IR(rows, cols, 0);
        d.TH = IR(rows, cols, 0);
        d.E.assign(ne, IR(rows, cols, 0));
        d.M.assign(nm, IR(rows, cols, 0));
        for (int i = 0; i < ncell; i++) {
            auto p = split_bar(cs.cells.at(i));
            int r = i / cols, c = i % cols;
            d.S(r, c) = std::stoi(p[0]);
            auto e = parse_ints(p[1]);
            for (size_t q = 0; q < ne; q++)
                d.E[q](r, c) = e.at(q);
            d.I(r, c) = std::stoi(p[2]);
            d.TE(r, c) = std::stoi(p[3]);
            d.R(r, c) = std::stoi(p[4]);
            auto m = parse_ints(p[5]);
            for (size_t q = 0; q < nm; q++)
                d.M[q](r, c) = m.at(q);
            d.D(r, c) = std::stoi(p[6]);
            d.TH(r, c) = std::stoi(p[7]);
        }
        for (const auto& t : cs.suitable) {
            auto rc = parse_ints(t);
            d.suit.push_back({rc.at(0), rc.at(1)});
        }
        Env env;
        IR totpop(rows, cols, 0), other(rows, cols, 0);
        DR weather(rows, cols, 0.0);
        if (!cs.totpop.empty() && cs.totpop[0] != "-") {
            for (int i = 0; i < ncell; i++)
                totpop(i / cols, i % cols) = std::stoi(cs.totpop.at(i));
            env.set_total_population(&totpop);
        }
        if (!cs.other.empty() && cs.other[0] != "-") {
            for (int i = 0; i < ncell; i++)
                other(i / cols, i % cols) = std::stoi(cs.other.at(i));
            env.set_other_individuals(&other);
        }
        if (!cs.weather.empty() && cs.weather[0] != "-") {
            for (int i = 0; i < ncell; i++)
                weather(i / cols, i % cols) = parse_q(cs.weather.at(i));
            env.update_weather_coefficient(weather);
        }
        Pool pool(
            mt, d.S, d.E, latency, d.I, d.TE, d.R, d.M, d.D, d.TH, env, gen_stoch, rr, est_stoch,
            est_prob, rows, cols, d.suit);
        PestHostTable<Pool> pht(env);
        if (!cs.pht.empty() && cs.pht[0] != "-") {
            pht.add_host_info(parse_q(cs.pht.at(0)), parse_q(cs.pht.at(1)), std::stoi(cs.pht.at(2)));
            pool.set_pest_host_table(pht);
        }
        std::default_random_engine generator(cs.seed);

        std::vector<std::string> tape;
        pops::verif::hooks().action = nullptr;
        pops::verif::hooks().event =
            [&](const char* tag, const void*, const std::vector<double>& p) {
                std::string t = tag, s = tag;
                if (t == "draw") {
                    s += ":";
                    for (size_t i = 0; i < p.size(); i++)
                        s += (i ? "," : "") + std::to_string((long)p[i]);
                }
                else if (t == "establish") {
                    s += ":" + q_of_double(p[0]) + ":" + q_of_double(p[1]) + ":"
                         + std::to_string((int)p[2]);
                }
                else if (t == "generate") {
                    s += ":" + std::to_string((long)p[0]) + ":" + std::to_string((long)p[1]) + ":"
                         + q_of_double(p[2]) + ":" + std::to_string((long)p[3]);
                }
                else
                    s += ":?";
                tape.push_back(s);
            };

        emit(std::to_string(k) + " init " + state_text(d, rows, cols), false);
        for (size_t j = 0; j < cs.ops.size(); j++) {
            const auto& t = cs.ops[j];
            tape.clear();
            std::string ret = "-";
            auto A = [&](size_t i) { return std::stoi(t.at(i)); };
            std::string err = guarded([&]() -> std::string {
                const std::string& name = t.at(1);
                if (name == "disperser_to")
                    ret = std::to_string(pool.disperser_to(A(2), A(3), generator));
                else if (name == "add_disperser_at")
                    ret = std::to_string(pool.add_disperser_at(A(2), A(3)));
                else if (name == "dispersers_from")
                    ret = std::to_string(pool.dispersers_from(A(2), A(3), generator));
                else if (name == "pests_from")
                    ret = std::to_string(pool.pests_from(A(2), A(3), A(4), generator));
                else if (name == "pests_to")
                    ret = std::to_string(pool.pests_to(A(2), A(3), A(4), generator));
                else if (name == "move_hosts_from_to")
                    ret = std::to_string(
                        pool.move_hosts_from_to(A(2), A(3), A(4), A(5), A(6), generator));
                else if (name == "completely_remove_hosts_at")
                    pool.completely_remove_hosts_at(
                        A(2), A(3), A(4), parse_ints(t.at(5)), A(6), parse_ints(t.at(7)));
                else if (name == "remove_infected_at")
                    pool.remove_infected_at(A(2), A(3), A(4), generator);
                else if (name == "remove_all_infected_at")
                    pool.remove_all_infected_at(A(2), A(3), generator);
                else if (name == "remove_infection_by_ratio_at")
                    pool.remove_infection_by_ratio_at(A(2), A(3), parse_q(t.at(4)), generator);
                else if (name == "remove_exposed_at")
                    pool.remove_exposed_at(A(2), A(3), A(4), generator);
                else if (name == "make_resistant_at")
                    pool.make_resistant_at(
                        A(2), A(3), A(4), parse_ints(t.at(5)), A(6), parse_ints(t.at(7)));
                else if (name == "remove_resistance_at")
                    pool.remove_resistance_at(A(2), A(3));
                else if (name == "apply_mortality_at")
                    pool.apply_mortality_at(A(2), A(3), parse_q(t.at(4)), A(5));
                else if (name == "apply_mortality_at_pht")
                    pool.apply_mortality_at(A(2), A(3));
                else if (name == "step_forward_mortality")
                    pool.step_forward_mortality();
                else if (name == "step_forward")
                    pool.step_forward((unsigned)A(2));
                else if (name == "reset_total_host") {
                    // reset_total_host is private; a removal of nothing is exactly one call of it
                    pool.completely_remove_hosts_at(
                        A(2), A(3), 0, std::vector<int>(d.E.size(), 0), 0, std::vector<int>());
                }
                else if (name == "read") {
                    int r = A(2), c = A(3);
                    ret = "read:" + std::to_string(pool.infected_at(r, c)) + ":"
                          + std::to_string(pool.susceptible_at(r, c)) + ":"
                          + std::to_string(pool.exposed_at(r, c)) + ":"
                          + std::to_string(pool.computed_exposed_at(r, c)) + ":"
                          + std::to_string(pool.resistant_at(r, c)) + ":"
                          + std::to_string(pool.total_hosts_at(r, c)) + ":E="
                          + ints_text(pool.exposed_by_group_at(r, c)) + ":M="
                          + ints_text(pool.mortality_by_group_at(r, c));
                }
                else if (name == "is_outside")
                    ret = pool.is_outside(A(2), A(3)) ? "true" : "false";
                else if (name == "suitability_at")
                    ret = std::to_string(std::llround(pool.suitability_at(A(2), A(3)) * 1048576.0));
                else
                    return "err:unknown_operation";
                return std::string();
            });
            std::string tp = std::to_string(k) + " " + std::to_string(j) + " tape";
            for (auto& ev : tape)
                tp += " " + ev;
            emit(tp, true);
            // the list the pool was given is the list suitable_cells() returns
            if (&pool.suitable_cells() != &d.suit)
                err = "err:suitable_cells_is_a_copy";
            if (!err.empty()) {
                emit(std::to_string(k) + " " + std::to_string(j) + " err " + err.substr(4), false);
                break;
            }
            emit(
                std::to_string(k) + " " + std::to_string(j) + " st " + ret + " | "
                    + state_text(d, rows, cols),
                false);
        }
        pops::verif::hooks().event = nullptr;
        return std::string();
    });
    pops::verif::hooks().event = nullptr;
    if (!setup.empty())
        emit(std::to_string(k) + " setup err " + setup.substr(4), false);
    if (last_only) {
        if (lines.empty())
            std::printf("%d none\n", k);
        else
            std::puts(lines.back().c_str());
    }
}

int main(int argc, char** argv)
{
    if (argc < 2)
        return 2;
    bool last_only = argc > 2 && std::strcmp(argv[2], "--last") == 0;
    std::ifstream in(argv[1]);
    if (!in) {
        std::cerr << "cannot open " << argv[1] << "\n";
        return 2;
    }
    std::string line;
    int k = 0;
    Case cur;
    bool open = false;
    while (std::getline(in, line)) {
        if (line.empty() || line[0] == '#')
            continue;
        auto t = split_ws(line);
        if (t.empty())
            continue;
        auto rest = std::vector<std::string>(t.begin() + 1, t.end());
        if (t[0] == "ops") {
            cur = Case();
            open = true;
        }
        else if (!open)
            continue;
        else if (t[0] == "endops") {
            run_case(k, cur, last_only);
            std::fflush(stdout);
            k++;
            open = false;
        }
        else if (t[0] == "pool")
            cur.pool = rest;
        else if (t[0] == "totpop")
            cur.totpop = rest;
        else if (t[0] == "other")
            cur.other = rest;
        else if (t[0] == "weather")
            cur.weather = rest;
        else if (t[0] == "pht")
            cur.pht = rest;
        else if (t[0] == "cells")
            cur.cells = rest;
        else if (t[0] == "suitable")
            cur.suitable = rest;
        else if (t[0] == "seed")
            cur.seed = (unsigned)std::stoul(rest.at(0));
        else if (t[0] == "op")
            cur.ops.push_back(t);
    }
    return 0;
}
