// Shared helpers of the correspondence harnesses (implementation side).
#ifndef VERIF_HCOMMON_HPP
#define VERIF_HCOMMON_HPP
#include <cstdio>
#include <cstdlib>
#include <fstream>
#include <iostream>
#include <sstream>
#include <stdexcept>
#include <string>
#include <vector>
#include <functional>

namespace verif {

inline std::vector<std::string> split_ws(const std::string& line)
{
    std::vector<std::string> out;
    std::istringstream is(line);
    std::string t;
    while (is >> t)
        out.push_back(t);
    return out;
}

// Runs f and maps the documented exception types to the names the model prints.
template<typename F>
std::string guarded(F f)
{
    try {
        return f();
    }
    catch (const std::invalid_argument&) {
        return "err:invalid_argument";
    }
    catch (const std::out_of_range&) {
        return "err:out_of_range";
    }
    catch (const std::logic_error&) {
        return "err:logic_error";
    }
    catch (const std::runtime_error&) {
        return "err:runtime_error";
    }
    catch (const std::exception& e) {
        return std::string("err:other_exception");
    }
}

template<typename T>
std::string bits(const std::vector<T>& v)
{
    std::string s;
    for (auto b : v)
        s += b ? '1' : '0';
    return s;
}

template<typename T>
std::string ints(const std::vector<T>& v)
{
    std::string s;
    for (size_t i = 0; i < v.size(); i++) {
        if (i)
            s += ",";
        s += std::to_string(v[i]);
    }
    return s;
}

// Calls f(case_number, tokens) for every non-empty, non-comment line.
inline void for_each_case(
    const char* path,
    const std::function<void(int, const std::vector<std::string>&)>& f)
{
    std::ifstream in(path);
    if (!in) {
        std::cerr << "cannot open " << path << "\n";
        std::exit(2);
    }
    std::string line;
    int k = 0;
    while (std::getline(in, line)) {
        if (line.empty() || line[0] == '#')
            continue;
        f(k, split_ws(line));
        k++;
    }
}

}  // namespace verif
#endif
