// Implementation side of the raster engine (C19): runs pops::Raster<int> and
// pops::Raster<double> from /repo's working tree on a case file; same line
// protocol as ocaml/drv_raster.ml (case format: pylib/eng_raster.py).
//
// The global array forms of operator new / operator delete are replaced so
// that the harness sees every buffer the Raster class allocates and frees:
// a delete[] of a block that is not live (double free, free of caller memory)
// is recorded and skipped instead of corrupting the heap, freed blocks are
// poisoned and kept until the end of the case (a later read through a stale
// pointer shows up as a wrong cell value), and the number of live blocks is
// part of the canonical output.  Memory still comes from malloc, so ASan's
// red zones stay in effect in the thorough tier.
#include <type_traits>
#include <pops/raster.hpp>
#include <cmath>
#include <cstdint>
#include <cstring>
#include <memory>
#include <new>
#include "hcommon.hpp"

using namespace pops;
using namespace verif;

// --------------------------------------------------------------------------
// allocation tracker
// --------------------------------------------------------------------------
namespace {
struct Block {
    void* p;
    size_t n;
};
struct Tracker {
    bool on = false;
    std::vector<Block> live;
    std::vector<Block> quarantine;
    std::vector<Block> caller;  // caller-owned arrays (never from new[])
    std::vector<std::string> errs;
};
Tracker& tracker()
{
    static Tracker* t = new Tracker();  // never destroyed: usable during exit
    return *t;
}
void tracker_free(void* p)
{
    if (!p)
        return;
    Tracker& t = tracker();
    if (!t.on) {
        std::free(p);
        return;
    }
    for (size_t i = 0; i < t.live.size(); i++) {
        if (t.live[i].p == p) {
            std::memset(p, 0xCD, t.live[i].n);
            t.quarantine.push_back(t.live[i]);
            t.live.erase(t.live.begin() + i);
            return;
        }
    }
    for (const auto& b : t.quarantine) {
        if (b.p == p) {
            t.errs.push_back("double_free");
            return;
        }
    }
    for (const auto& b : t.caller) {
        if ((char*)p >= (char*)b.p && (char*)p < (char*)b.p + b.n) {
            t.errs.push_back("free_of_caller_memory");
            return;
        }
    }
    t.errs.push_back("foreign_free");
}
}  // namespace

void* operator new[](size_t n)
{
    void* p = std::malloc(n ? n : 1);
    if (!p)
        throw std::bad_alloc();
    Tracker& t = tracker();
    if (t.on)
        t.live.push_back(Block{p, n});
    return p;
}
void operator delete[](void* p) noexcept
{
    tracker_free(p);
}
void operator delete[](void* p, size_t) noexcept
{
    tracker_free(p);
}

namespace {

void tracker_begin()
{
    Tracker& t = tracker();
    t.live.clear();
    t.quarantine.clear();
    t.caller.clear();
    t.errs.clear();
    t.on = true;
}
std::string tracker_errs()
{
    Tracker& t = tracker();
    if (t.errs.empty())
        return "none";
    std::string s;
    for (size_t i = 0; i < t.errs.size(); i++)
        s += (i ? "," : "") + t.errs[i];
    t.errs.clear();
    return s;
}
size_t tracker_live()
{
    return tracker().live.size();
}
void tracker_end()
{
    Tracker& t = tracker();
    t.on = false;
    for (auto& b : t.quarantine)
        std::free(b.p);
    for (auto& b : t.live)  // leaked by the class: reported, then released
        std::free(b.p);
    t.quarantine.clear();
    t.live.clear();
    t.caller.clear();
}

// --------------------------------------------------------------------------
// numbers
// --------------------------------------------------------------------------
template<typename T>
T parse_num(const std::string& s);
template<>
int parse_num<int>(const std::string& s)
{
    return std::stoi(s);
}
template<>
double parse_num<double>(const std::string& s)
{
    size_t i = s.find('/');
    if (i == std::string::npos)
        return (double)std::stoll(s);
    return (double)std::stoll(s.substr(0, i)) / (double)std::stoll(s.substr(i + 1));
}

std::string num_str(int x)
{
    return std::to_string(x);
}
// exact: every finite double is k * 2^e
std::string num_str(double x)
{
    if (x == 0)
        return "0";
    if (!std::isfinite(x))
        return "nonfinite";
    int e;
    double m = std::frexp(std::fabs(x), &e);
    uint64_t k = (uint64_t)std::ldexp(m, 53);
    e -= 53;
    while ((k & 1) == 0) {
        k >>= 1;
        e++;
    }
    std::string sign = x < 0 ? "-" : "";
    if (e >= 0 && e < 10)
        return sign + std::to_string(k << e);
    if (e < 0 && e > -62)
        return sign + std::to_string(k) + "/" + std::to_string((uint64_t)1 << (-e));
    return sign + std::to_string(k) + "*2^" + std::to_string(e);
}

template<typename T>
const char* tag();
template<>
const char* tag<int>()
{
    return "i";
}
template<>
const char* tag<double>()
{
    return "d";
}

template<typename T>
std::string cells_str(const T* p, size_t n)
{
    std::string s = "[";
    for (size_t i = 0; i < n; i++) {
        if (i)
            s += ",";
        s += num_str(p[i]);
    }
    return s + "]";
}
template<typename T>
std::string raster_str(const Raster<T>& r)
{
    return std::string(tag<T>()) + ":" + std::to_string(r.rows()) + "x"
           + std::to_string(r.cols()) + ":"
           + cells_str(r.data(), (size_t)(r.rows() * r.cols()));
}

// reads the protected owns_ member (no hook needed)
template<typename T>
struct Peek : Raster<T>
{
    static bool owns(const Raster<T>& r)
    {
        return r.*(&Peek::owns_);
    }
};

// --------------------------------------------------------------------------
// token cursor and operands
// --------------------------------------------------------------------------
struct Cur
{
    const std::vector<std::string>& t;
    size_t p;
    const std::string& next()
    {
        return t.at(p++);
    }
    int next_int()
    {
        return std::stoi(next());
    }
    bool more() const
    {
        return p < t.size();
    }
};

template<typename T>
std::unique_ptr<Raster<T>> from_list(int r, int c, const std::vector<T>& v)
{
#define ROW1(b) {v[b]}
#define ROW2(b) {v[b], v[b + 1]}
#define ROW3(b) {v[b], v[b + 1], v[b + 2]}
#define ROW4(b) {v[b], v[b + 1], v[b + 2], v[b + 3]}
#define MK(...)                                \
    return std::unique_ptr<Raster<T>>(new Raster<T>( \
        std::initializer_list<std::initializer_list<T>>{__VA_ARGS__}))
    switch (r * 10 + c) {
    case 11: MK(ROW1(0));
    case 12: MK(ROW2(0));
    case 13: MK(ROW3(0));
    case 14: MK(ROW4(0));
    case 21: MK(ROW1(0), ROW1(1));
    case 22: MK(ROW2(0), ROW2(2));
    case 23: MK(ROW3(0), ROW3(3));
    case 24: MK(ROW4(0), ROW4(4));
    case 31: MK(ROW1(0), ROW1(1), ROW1(2));
    case 32: MK(ROW2(0), ROW2(2), ROW2(4));
    case 33: MK(ROW3(0), ROW3(3), ROW3(6));
    case 34: MK(ROW4(0), ROW4(4), ROW4(8));
    case 41: MK(ROW1(0), ROW1(1), ROW1(2), ROW1(3));
    case 42: MK(ROW2(0), ROW2(2), ROW2(4), ROW2(6));
    case 43: MK(ROW3(0), ROW3(3), ROW3(6), ROW3(9));
    case 44: MK(ROW4(0), ROW4(4), ROW4(8), ROW4(12));
    default: return nullptr;
    }
#undef MK
#undef ROW1
#undef ROW2
#undef ROW3
#undef ROW4
}

const size_t PADLEN = 48;  // cells of a caller array in "pad" mode (rasters have <= 16)

// One operand of an algebra case.  mode "own": Raster(rows, cols) then every
// cell written; "lst": initializer list; "pad": a wrapper over the first
// rows*cols cells of a caller array whose remaining cells hold sentinels
// (distinct for the two operands), so that reads or writes past the raster
// are visible and stay inside memory the harness owns.
template<typename T>
struct Operand
{
    int rows, cols;
    size_t n;
    std::vector<T> mem;
    std::unique_ptr<Raster<T>> r;
    T sentinel(size_t i, int which) const
    {
        return (T)(1000000 * (which + 1) + (int)i);
    }
    int which;
    Operand(Cur& c, const std::string& mode, int which_) : which(which_)
    {
        rows = c.next_int();
        cols = c.next_int();
        n = (size_t)(rows * cols);
        std::vector<T> v(n);
        for (size_t i = 0; i < n; i++)
            v[i] = parse_num<T>(c.next());
        if (mode == "pad") {
            mem.resize(PADLEN);
            for (size_t i = 0; i < PADLEN; i++)
                mem[i] = i < n ? v[i] : sentinel(i, which);
            tracker().caller.push_back(Block{mem.data(), mem.size() * sizeof(T)});
            r.reset(new Raster<T>(mem.data(), rows, cols));
            return;
        }
        if (mode == "lst")
            r = from_list<T>(rows, cols, v);
        if (!r) {
            r.reset(new Raster<T>(rows, cols));
            for (int i = 0; i < rows; i++)
                for (int j = 0; j < cols; j++)
                    (*r)(i, j) = v[(size_t)(i * cols + j)];
        }
    }
    bool pad_ok() const
    {
        for (size_t i = n; i < mem.size(); i++)
            if (mem[i] != sentinel(i, which))
                return false;
        return true;
    }
};

template<typename A, typename B>
auto binary(const std::string& op, const Raster<A>& a, const Raster<B>& b)
{
    if (op == "add")
        return a + b;
    if (op == "sub")
        return a - b;
    if (op == "mul")
        return a * b;
    return a / b;
}
template<typename A, typename S>
Raster<A> raster_scalar(const std::string& op, const Raster<A>& a, S s)
{
    if (op == "add")
        return a + s;
    if (op == "sub")
        return a - s;
    if (op == "mul")
        return a * s;
    return a / s;
}
template<typename A, typename S>
Raster<A> scalar_raster(const std::string& op, S s, const Raster<A>& a)
{
    if (op == "add")
        return s + a;
    if (op == "sub")
        return s - a;
    if (op == "mul")
        return s * a;
    return s / a;
}
template<typename A, typename S>
void compound_scalar(const std::string& op, Raster<A>& a, S s)
{
    if (op == "add")
        a += s;
    else if (op == "sub")
        a -= s;
    else if (op == "mul")
        a *= s;
    else
        a /= s;
}
template<typename A, typename B>
void compound_raster(const std::string& op, Raster<A>& a, const Raster<B>& b)
{
    if (op == "add")
        a += b;
    else if (op == "sub")
        a -= b;
    else if (op == "mul")
        a *= b;
    else
        a /= b;
}

template<typename A, typename B>
void tail(int k, const std::string& mode, const Operand<A>& a, const Operand<B>* b)
{
    bool ok = a.pad_ok() && (!b || b->pad_ok());
    if (mode == "pad") {
        std::printf("%d mem %s\n", k, cells_str(a.mem.data(), a.n).c_str());
        if (b)
            std::printf("%d memb %s\n", k, cells_str(b->mem.data(), b->n).c_str());
    }
    std::printf("%d pad %s", k, ok ? "ok" : "dirty");
}

// ---- algebra cases -------------------------------------------------------
template<typename A, typename B>
void case_RR(int k, const std::string& mode, const std::string& op, Cur& c)
{
    {
        Operand<A> a(c, mode, 0);
        c.next();  // type tag of b (already dispatched on)
        Operand<B> b(c, mode, 1);
        const Raster<A>& ca = *a.r;
        const Raster<B>& cb = *b.r;
        std::string res = guarded([&] { return raster_str(binary(op, ca, cb)); });
        std::printf("%d res %s\n", k, res.c_str());
        std::printf("%d lhs %s\n%d rhs %s\n", k, raster_str(ca).c_str(), k, raster_str(cb).c_str());
        tail(k, mode, a, &b);
    }
    std::printf(" live=%zu memerr=%s\n", tracker_live(), tracker_errs().c_str());
}

template<typename A, typename S>
void case_RS(int k, const std::string& kind, const std::string& mode, const std::string& op, Cur& c, S s,
             bool scalar_first)
{
    {
        Operand<A> a(c, mode, 0);
        if (!scalar_first) {
            c.next();
            s = parse_num<S>(c.next());
        }
        const Raster<A>& ca = *a.r;
        std::string res = guarded([&] {
            return raster_str(kind == "RS" ? raster_scalar(op, ca, s) : scalar_raster(op, s, ca));
        });
        std::printf("%d res %s\n%d arg %s\n", k, res.c_str(), k, raster_str(ca).c_str());
        tail<A, A>(k, mode, a, nullptr);
    }
    std::printf(" live=%zu memerr=%s\n", tracker_live(), tracker_errs().c_str());
}

template<typename A, typename S>
void case_CS(int k, const std::string& mode, const std::string& op, Cur& c)
{
    {
        Operand<A> a(c, mode, 0);
        c.next();
        S s = parse_num<S>(c.next());
        std::string st = guarded([&] {
            // when the scalar has the raster's element type and equals one of its cells, pass
            // THAT CELL (an lvalue inside the raster's own storage) instead of a copy
            if constexpr (std::is_same<A, S>::value) {
                for (int i = 0; i < a.r->rows(); i++)
                    for (int j = 0; j < a.r->cols(); j++)
                        if ((*a.r)(i, j) == s) {
                            const A& own = (*a.r)(i, j);
                            if (op == "add")
                                *a.r += own;
                            else if (op == "sub")
                                *a.r -= own;
                            else if (op == "mul")
                                *a.r *= own;
                            else
                                *a.r /= own;
                            return std::string();
                        }
            }
            compound_scalar(op, *a.r, s);
            return std::string();
        });
        if (st.empty())
            std::printf("%d lhs %s\n", k, raster_str(*a.r).c_str());
        else
            std::printf("%d lhs %s\n", k, st.c_str());
        tail<A, A>(k, mode, a, nullptr);
    }
    std::printf(" live=%zu memerr=%s\n", tracker_live(), tracker_errs().c_str());
}

template<typename A, typename B>
void case_CR(int k, const std::string& mode, const std::string& op, Cur& c)
{
    {
        Operand<A> a(c, mode, 0);
        c.next();
        Operand<B> b(c, mode, 1);
        const Raster<B>& cb = *b.r;
        std::string st = guarded([&] {
            compound_raster(op, *a.r, cb);
            return std::string("ok");
        });
        std::printf("%d status %s\n", k, st.c_str());
        std::printf("%d lhs %s\n%d rhs %s\n", k, raster_str(*a.r).c_str(), k, raster_str(cb).c_str());
        tail(k, mode, a, &b);
    }
    std::printf(" live=%zu memerr=%s\n", tracker_live(), tracker_errs().c_str());
}

template<typename A>
void case_fun(int k, const std::string& kind, const std::string& mode, Cur& c)
{
    {
        Operand<A> a(c, mode, 0);
        const Raster<A>& ca = *a.r;
        double e = kind == "PW" ? (double)c.next_int() : 0.0;
        std::string res = guarded([&] { return raster_str(kind == "PW" ? pow(ca, e) : sqrt(ca)); });
        std::printf("%d res %s\n%d arg %s\n", k, res.c_str(), k, raster_str(ca).c_str());
        tail<A, A>(k, mode, a, nullptr);
    }
    std::printf(" live=%zu memerr=%s\n", tracker_live(), tracker_errs().c_str());
}

template<typename A>
void case_EQ(int k, const std::string& mode, Cur& c)
{
    {
        Operand<A> a(c, mode, 0);
        c.next();
        Operand<A> b(c, mode, 1);
        const Raster<A>& ca = *a.r;
        const Raster<A>& cb = *b.r;
        bool eq = ca == cb;
        bool ne = ca != cb;
        std::printf("%d eq %d ne %d\n", k, eq ? 1 : 0, ne ? 1 : 0);
        std::printf("%d lhs %s\n%d rhs %s\n", k, raster_str(ca).c_str(), k, raster_str(cb).c_str());
        tail(k, mode, a, &b);
    }
    std::printf(" live=%zu memerr=%s\n", tracker_live(), tracker_errs().c_str());
}

// ---- ownership sequences -------------------------------------------------
template<typename T>
struct Pool
{
    std::vector<std::unique_ptr<Raster<T>>> slots;
    std::vector<std::unique_ptr<std::vector<T>>> exts;

    std::string state() const
    {
        std::vector<const T*> names;
        std::string s = "live=" + std::to_string(tracker_live()) + " memerr=" + tracker_errs() + " |";
        for (const auto& p : slots) {
            s += " ";
            if (!p) {
                s += "-";
                continue;
            }
            s += std::to_string(p->rows()) + "x" + std::to_string(p->cols()) + ":o"
                 + (Peek<T>::owns(*p) ? "1" : "0") + ":";
            const T* d = p->data();
            if (!d) {
                s += "null:[]";
                continue;
            }
            int e = -1;
            for (size_t i = 0; i < exts.size(); i++)
                if (exts[i]->data() == d)
                    e = (int)i;
            if (e >= 0)
                s += "E" + std::to_string(e);
            else {
                size_t h = 0;
                while (h < names.size() && names[h] != d)
                    h++;
                if (h == names.size())
                    names.push_back(d);
                s += "H" + std::to_string(h);
            }
            s += ":" + cells_str(d, (size_t)(p->rows() * p->cols()));
        }
        s += " |";
        for (size_t i = 0; i < exts.size(); i++)
            s += " E" + std::to_string(i) + "=" + cells_str(exts[i]->data(), exts[i]->size());
        return s;
    }
};

template<typename T>
void case_OWN(int k, Cur& c)
{
    Pool<T> pool;
    pool.slots.resize((size_t)c.next_int());
    int idx = 0;
    bool ok = true;
    auto alive = [&](int v) { return v >= 0 && (size_t)v < pool.slots.size() && pool.slots[(size_t)v]; };
    auto vacant = [&](int v) { return v >= 0 && (size_t)v < pool.slots.size() && !pool.slots[(size_t)v]; };
    while (ok && c.more()) {
        c.next();  // ";"
        std::string name = c.next();
        bool usage = true;  // false: the case asks for something the API cannot express here
        if (name == "default") {
            int v = c.next_int();
            if ((usage = vacant(v)))
                pool.slots[v].reset(new Raster<T>());
        }
        else if (name == "sized" || name == "list") {
            int v = c.next_int(), r = c.next_int(), cc = c.next_int();
            std::vector<T> vals((size_t)(r * cc));
            for (auto& x : vals)
                x = parse_num<T>(c.next());
            if ((usage = vacant(v))) {
                if (name == "list")
                    pool.slots[v] = from_list<T>(r, cc, vals);
                else {
                    pool.slots[v].reset(new Raster<T>(r, cc));
                    for (int i = 0; i < r; i++)
                        for (int j = 0; j < cc; j++)
                            (*pool.slots[v])(i, j) = vals[(size_t)(i * cc + j)];
                }
                usage = (bool)pool.slots[v];
            }
        }
        else if (name == "fill") {
            int v = c.next_int(), r = c.next_int(), cc = c.next_int();
            T x = parse_num<T>(c.next());
            if ((usage = vacant(v)))
                pool.slots[v].reset(new Raster<T>(r, cc, x));
        }
        else if (name == "like") {
            int v = c.next_int(), w = c.next_int();
            T x = parse_num<T>(c.next());
            if ((usage = vacant(v) && alive(w)))
                pool.slots[v].reset(new Raster<T>(*pool.slots[w], x));
        }
        else if (name == "ext") {
            int n = c.next_int();
            std::unique_ptr<std::vector<T>> a(new std::vector<T>((size_t)n));
            for (auto& x : *a)
                x = parse_num<T>(c.next());
            tracker().caller.push_back(Block{a->data(), a->size() * sizeof(T)});
            pool.exts.push_back(std::move(a));
        }
        else if (name == "wrap") {
            int v = c.next_int(), e = c.next_int(), r = c.next_int(), cc = c.next_int();
            if ((usage = vacant(v) && e >= 0 && (size_t)e < pool.exts.size()))
                pool.slots[v].reset(new Raster<T>(pool.exts[e]->data(), r, cc));
        }
        else if (name == "copy" || name == "move") {
            int v = c.next_int(), w = c.next_int();
            if ((usage = vacant(v) && alive(w))) {
                if (name == "copy")
                    pool.slots[v].reset(new Raster<T>(*pool.slots[w]));
                else
                    pool.slots[v].reset(new Raster<T>(std::move(*pool.slots[w])));
            }
        }
        else if (name == "cassign" || name == "massign") {
            int v = c.next_int(), w = c.next_int();
            if ((usage = alive(v) && alive(w))) {
                Raster<T>& dst = *pool.slots[v];
                Raster<T>& src = *pool.slots[w];
                if (name == "cassign")
                    dst = src;
                else
                    dst = std::move(src);
            }
        }
        else if (name == "destroy") {
            int v = c.next_int();
            if ((usage = alive(v)))
                pool.slots[v].reset();
        }
        else if (name == "write") {
            int v = c.next_int(), i = c.next_int(), j = c.next_int();
            T x = parse_num<T>(c.next());
            if ((usage = alive(v)))
                (*pool.slots[v])(i, j) = x;
        }
        else if (name == "extw") {
            int e = c.next_int(), kk = c.next_int();
            T x = parse_num<T>(c.next());
            if ((usage = e >= 0 && (size_t)e < pool.exts.size() && (size_t)kk < pool.exts[e]->size()))
                (*pool.exts[e])[(size_t)kk] = x;
        }
        else
            usage = false;
        if (!usage) {
            std::printf("%d step %d err:usage\n", k, idx);
            ok = false;
        }
        else
            std::printf("%d step %d ok %s\n", k, idx, pool.state().c_str());
        idx++;
    }
    for (auto& p : pool.slots)
        p.reset();
    if (ok)
        std::printf("%d end live=%zu memerr=%s\n", k, tracker_live(), tracker_errs().c_str());
    else
        std::printf("%d end aborted\n", k);
}

void run_case(int k, const std::vector<std::string>& t)
{
    Cur c{t, 0};
    std::string kind = c.next();
    if (kind == "OWN") {
        std::string ty = c.next();
        if (ty == "i")
            case_OWN<int>(k, c);
        else
            case_OWN<double>(k, c);
        return;
    }
    std::string mode = c.next();
    if (kind == "RR" || kind == "CR") {
        std::string op = c.next();
        std::string ta = c.next();
        // the type of b follows a's cells: rows cols cells...
        size_t pb = c.p + 2 + (size_t)(std::stoi(t.at(c.p)) * std::stoi(t.at(c.p + 1)));
        std::string tb = t.at(pb);
        std::string tt = ta + tb;
        if (kind == "RR") {
            if (tt == "ii")
                case_RR<int, int>(k, mode, op, c);
            else if (tt == "id")
                case_RR<int, double>(k, mode, op, c);
            else if (tt == "di")
                case_RR<double, int>(k, mode, op, c);
            else
                case_RR<double, double>(k, mode, op, c);
        }
        else {
            if (tt == "ii")
                case_CR<int, int>(k, mode, op, c);
            else if (tt == "di")
                case_CR<double, int>(k, mode, op, c);
            else if (tt == "dd")
                case_CR<double, double>(k, mode, op, c);
            else
                std::printf("%d status err:does_not_compile\n", k);
        }
    }
    else if (kind == "RS" || kind == "CS") {
        std::string op = c.next();
        std::string ta = c.next();
        size_t ps = c.p + 2 + (size_t)(std::stoi(t.at(c.p)) * std::stoi(t.at(c.p + 1)));
        std::string ts = t.at(ps);
        std::string tt = ta + ts;
        if (kind == "RS") {
            if (tt == "ii")
                case_RS<int, int>(k, kind, mode, op, c, 0, false);
            else if (tt == "id")
                case_RS<int, double>(k, kind, mode, op, c, 0.0, false);
            else if (tt == "di")
                case_RS<double, int>(k, kind, mode, op, c, 0, false);
            else
                case_RS<double, double>(k, kind, mode, op, c, 0.0, false);
        }
        else {
            if (tt == "ii")
                case_CS<int, int>(k, mode, op, c);
            else if (tt == "id")
                case_CS<int, double>(k, mode, op, c);
            else if (tt == "di")
                case_CS<double, int>(k, mode, op, c);
            else
                case_CS<double, double>(k, mode, op, c);
        }
    }
    else if (kind == "SR") {
        std::string op = c.next();
        std::string ts = c.next();
        std::string sv = c.next();
        std::string ta = c.next();
        std::string tt = ta + ts;
        if (tt == "ii")
            case_RS<int, int>(k, kind, mode, op, c, parse_num<int>(sv), true);
        else if (tt == "id")
            case_RS<int, double>(k, kind, mode, op, c, parse_num<double>(sv), true);
        else if (tt == "di")
            case_RS<double, int>(k, kind, mode, op, c, parse_num<int>(sv), true);
        else
            case_RS<double, double>(k, kind, mode, op, c, parse_num<double>(sv), true);
    }
    else if (kind == "PW" || kind == "SQ") {
        std::string ta = c.next();
        if (ta == "i")
            case_fun<int>(k, kind, mode, c);
        else
            case_fun<double>(k, kind, mode, c);
    }
    else if (kind == "EQ") {
        std::string ta = c.next();
        if (ta == "i")
            case_EQ<int>(k, mode, c);
        else
            case_EQ<double>(k, mode, c);
    }
    else {
        std::fprintf(stderr, "unknown case kind %s\n", kind.c_str());
        std::exit(2);
    }
}

}  // namespace

int main(int argc, char** argv)
{
    if (argc < 2)
        return 2;
    // argv[2]: number of the first case (the check restarts the harness after
    // the case it crashed on, so that one crash does not hide the other cases)
    const int base = argc > 2 ? std::atoi(argv[2]) : 0;
    std::setvbuf(stdout, nullptr, _IOLBF, 0);
    for_each_case(argv[1], [base](int k, const std::vector<std::string>& t) {
        tracker_begin();
        run_case(k + base, t);
        tracker_end();
    });
    return 0;
}
