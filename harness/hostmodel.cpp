// Implementation side of the host-model engine (C01-C05, C09-C12, C16, C17):
// runs pops::Model::run_step (pools or raster entry point) from /repo's working
// tree on generated scenarios.  The guarded hooks of pops/verif_hooks.hpp give a
// snapshot of every raster after each individual action and the tape of random
// outcomes the library used; ocaml/drv_hostmodel.ml replays the same scenario
// on the extracted Coq model with that tape.
#include <pops/model.hpp>
#include <pops/spread_rate.hpp>
#include <pops/competency_table.hpp>
#include <pops/pest_host_table.hpp>
#include <cinttypes>
#include <map>
#include <memory>
#include "hcommon.hpp"

using namespace pops;
using ::verif::bits; using ::verif::guarded; using ::verif::split_ws;

typedef Raster<int> IR;
typedef Raster<double> DR;
typedef Model<IR, DR, DR::IndexType> TModel;

static double parse_q(const std::string& s)
{
    size_t p = s.find('/');
    if (p == std::string::npos)
        return std::stod(s);
    return std::stod(s.substr(0, p)) / std::stod(s.substr(p + 1));
}

static std::vector<int> parse_ints(const std::string& s)
{
    std::vector<int> out;
    if (s.empty() || s == "-")
        return out;
    std::stringstream ss(s);
    std::string t;
    while (std::getline(ss, t, ','))
        out.push_back(std::stoi(t));
    return out;
}

// exact text of a double: integer numerator and power-of-two denominator
static std::string q_of_double(double v)
{
    if (v == 0)
        return "0/1";
    int e;
    double m = std::frexp(v, &e);  // v = m * 2^e, 0.5 <= |m| < 1
    long long num = (long long)std::ldexp(m, 53);
    int ex = e - 53;  // v = num * 2^ex
    while (num % 2 == 0 && ex < 0) {
        num /= 2;
        ex++;
    }
    char buf[64];
    if (ex >= 0)
        std::snprintf(buf, sizeof buf, "%lld*2^%d/1", num, ex);
    else
        std::snprintf(buf, sizeof buf, "%lld/2^%d", num, -ex);
    return buf;
}

struct HostData
{
    IR S, I, TE, R, D, TH;
    std::vector<IR> E, M;
    std::vector<std::vector<int>> suitable;
};

struct Case
{
    std::string entry{"pools"};
    int rows{0}, cols{0};
    std::map<std::string, std::vector<std::string>> kv;
    std::vector<std::vector<std::string>> multi;  // repeated lines
};

static const std::vector<std::string>& get(const Case& c, const std::string& k)
{
    static const std::vector<std::string> empty;
    auto it = c.kv.find(k);
    return it == c.kv.end() ? empty : it->second;
}

static std::string cell_text(const HostData& h, int r, int c)
{
    std::string s = std::to_string(h.S(r, c)) + "|";
    for (size_t k = 0; k < h.E.size(); k++)
        s += (k ? "," : "") + std::to_string(h.E[k](r, c));
    s += "|" + std::to_string(h.I(r, c)) + "|" + std::to_string(h.TE(r, c)) + "|"
         + std::to_string(h.R(r, c)) + "|";
    for (size_t k = 0; k < h.M.size(); k++)
        s += (k ? "," : "") + std::to_string(h.M[k](r, c));
    s += "|" + std::to_string(h.D(r, c)) + "|" + std::to_string(h.TH(r, c));
    return s;
}

static void run_case(int k, const Case& cs)
{
    int rows = cs.rows, cols = cs.cols;
    auto T = [&](const std::string& key, size_t i) -> const std::string& {
        return get(cs, key).at(i);
    };
    Config config;
    config.rows = rows;
    config.cols = cols;
    config.ew_res = parse_q(T("grid", 2));
    config.ns_res = parse_q(T("grid", 3));
    config.set_date_start(std::stoi(T("calendar", 0)), std::stoi(T("calendar", 1)), std::stoi(T("calendar", 2)));
    config.set_date_end(std::stoi(T("calendar", 3)), std::stoi(T("calendar", 4)), std::stoi(T("calendar", 5)));
    config.set_step_unit(T("calendar", 6));
    config.set_step_num_units((unsigned)std::stoi(T("calendar", 7)));
    config.set_season_start_end_month(std::stoi(T("season", 0)), std::stoi(T("season", 1)));
    config.random_seed = std::stoi(T("seed", 0));
    // seedmode single | multi (one seed, ten streams) | named (name=value pairs)
    std::string seedmode = get(cs, "seedmode").empty() ? "single" : T("seedmode", 0);
    if (seedmode == "multi")
        config.multiple_random_seeds = true;
    if (seedmode == "named") {
        std::string text;
        const auto& kvs = get(cs, "seedmode");
        for (size_t q = 1; q < kvs.size(); q++)
            text += (q > 1 ? "," : "") + kvs[q];
        config.read_seeds(text, ',', '=');
    }
    config.model_type = T("mt", 0);
    config.latency_period_steps = std::stoi(T("mt", 1));
    config.generate_stochasticity = T("stoch", 0) == "1";
    config.establishment_stochasticity = T("stoch", 1) == "1";
    config.movement_stochasticity = T("stoch", 2) == "1";
    config.dispersal_stochasticity = T("stoch", 3) == "1";
    config.establishment_probability = parse_q(T("estprob", 0));
    config.reproductive_rate = parse_q(T("rr", 0));
    config.natural_kernel_type = T("kernel", 0);
    config.natural_direction = T("kernel", 1);
    config.natural_scale = parse_q(T("kernel", 2));
    config.natural_kappa = parse_q(T("kernel", 3));
    config.shape = parse_q(T("kernel", 4));
    config.use_anthropogenic_kernel = T("anthro", 0) == "1";
    config.anthro_kernel_type = T("anthro", 1);
    config.anthro_direction = T("anthro", 2);
    config.anthro_scale = parse_q(T("anthro", 3));
    config.anthro_kappa = parse_q(T("anthro", 4));
    config.percent_natural_dispersal = parse_q(T("anthro", 5));
    config.use_lethal_temperature = T("lethal", 0) == "1";
    config.lethal_temperature_month = std::stoi(T("lethal", 1));
    config.lethal_temperature = parse_q(T("lethal", 2));
    config.use_survival_rate = T("survival", 0) == "1";
    config.survival_rate_month = std::stoi(T("survival", 1));
    config.survival_rate_day = std::stoi(T("survival", 2));
    config.use_overpopulation_movements = T("overpop", 0) == "1";
    config.overpopulation_percentage = parse_q(T("overpop", 1));
    config.leaving_percentage = parse_q(T("overpop", 2));
    config.leaving_scale_coefficient = parse_q(T("overpop", 3));
    config.use_movements = T("movements", 0) == "1";
    config.use_treatments = T("treatments", 0) == "1";
    config.use_mortality = T("mortality", 0) == "1";
    config.mortality_frequency = T("mortality", 1) == "-" ? "" : T("mortality", 1);
    config.mortality_frequency_n = (unsigned)std::stoi(T("mortality", 2));
    config.use_spreadrates = T("spreadrates", 0) == "1";
    config.spreadrate_frequency = T("spreadrates", 1) == "-" ? "" : T("spreadrates", 1);
    config.spreadrate_frequency_n = (unsigned)std::stoi(T("spreadrates", 2));
    config.use_quarantine = T("quarantine", 0) == "1";
    config.quarantine_frequency = T("quarantine", 1) == "-" ? "" : T("quarantine", 1);
    config.quarantine_frequency_n = (unsigned)std::stoi(T("quarantine", 2));
    config.quarantine_directions = "";
    bool use_soils = T("soils", 0) == "1";
    config.dispersers_to_soils_percentage = parse_q(T("soils", 1));
    int soil_cohorts = std::stoi(T("soils", 2));
    bool use_weather = T("weather", 0) == "1";
    config.weather = use_weather;
    config.set_arrival_behavior(T("arrival", 0));
    config.output_frequency = "";
    config.output_frequency_n = 0;
    int nhosts = std::stoi(T("hosts", 0));
    int nsteps = std::stoi(T("steps", 0));
    bool with_pht = false;
    std::vector<std::vector<double>> pht_rows;
    std::vector<std::vector<double>> comp_rows;
    std::vector<HostData> hosts(nhosts);
    IR totpop(rows, cols, 0);
    std::vector<DR> weathers, temps, survs;
    std::vector<std::vector<int>> movements;
    struct Treat
    {
        bool pest;
        int y, m, d, days;
        std::string app;
        DR map;
    };
    std::vector<Treat> treats;
    auto read_dr = [&](const std::vector<std::string>& t, size_t from) {
        DR r(rows, cols, 0.0);
        for (int i = 0; i < rows * cols; i++)
            r(i / cols, i % cols) = parse_q(t.at(from + i));
        return r;
    };
    for (const auto& t : cs.multi) {
        if (t[0] == "pht") {
            with_pht = true;
            pht_rows.push_back({parse_q(t[2]), parse_q(t[3]), (double)std::stoi(t[4])});
        }
        else if (t[0] == "comprow") {
            std::vector<double> row;
            for (int v : parse_ints(t[1]))
                row.push_back(v);
            row.push_back(parse_q(t[2]));
            comp_rows.push_back(row);
        }
        else if (t[0] == "cells") {
            HostData& h = hosts.at(std::stoi(t[1]));
            // first cell decides the cohort counts
            auto parts0 = std::vector<std::string>();
            {
                std::stringstream ss(t[2]);
                std::string p;
                while (std::getline(ss, p, '|'))
                    parts0.push_back(p);
            }
            size_t ne = parse_ints(parts0.at(1)).size(), nm = parse_ints(parts0.at(5)).size();
            h.S = IR(rows, cols, 0);
            h.I = IR(rows, cols, 0);
            h.TE = IR(rows, cols, 0);
            h.R = IR(rows, cols, 0);
            h.D = IR(rows, cols, 0);
            h.TH = IR(rows, cols, 0);
            h.E.assign(ne, IR(rows, cols, 0));
            h.M.assign(nm, IR(rows, cols, 0));
            for (int i = 0; i < rows * cols; i++) {
                std::vector<std::string> parts;
                std::stringstream ss(t.at(2 + i));
                std::string p;
                while (std::getline(ss, p, '|'))
                    parts.push_back(p);
                while (parts.size() < 8)
                    parts.push_back("");
                int r = i / cols, c = i % cols;
                h.S(r, c) = std::stoi(parts[0]);
                auto e = parse_ints(parts[1]);
                for (size_t q = 0; q < ne; q++)
                    h.E[q](r, c) = e.at(q);
                h.I(r, c) = std::stoi(parts[2]);
                h.TE(r, c) = std::stoi(parts[3]);
                h.R(r, c) = std::stoi(parts[4]);
                auto m = parse_ints(parts[5]);
                for (size_t q = 0; q < nm; q++)
                    h.M[q](r, c) = m.at(q);
                h.D(r, c) = std::stoi(parts[6]);
                h.TH(r, c) = std::stoi(parts[7]);
            }
        }
        else if (t[0] == "suitable") {
            HostData& h = hosts.at(std::stoi(t[1]));
            for (size_t i = 2; i < t.size(); i++) {
                auto rc = parse_ints(t[i]);
                h.suitable.push_back({rc.at(0), rc.at(1)});
            }
        }
        else if (t[0] == "totpop") {
            for (int i = 0; i < rows * cols; i++)
                totpop(i / cols, i % cols) = std::stoi(t.at(1 + i));
        }
        else if (t[0] == "wraster")
            weathers.push_back(read_dr(t, 1));
        else if (t[0] == "temp")
            temps.push_back(read_dr(t, 1));
        else if (t[0] == "surv")
            survs.push_back(read_dr(t, 1));
        else if (t[0] == "move") {
            movements.push_back({std::stoi(t[1]), std::stoi(t[2]), std::stoi(t[3]), std::stoi(t[4]), std::stoi(t[5])});
            config.movement_schedule.push_back((unsigned)std::stoi(t[6]));
        }
        else if (t[0] == "treat") {
            Treat tr{t[1] == "1", std::stoi(t[2]), std::stoi(t[3]), std::stoi(t[4]), std::stoi(t[5]), t[6], read_dr(t, 7)};
            treats.push_back(tr);
        }
    }
    // `tables direct`: the caller fills the pest-host table itself (add_host_info) and leaves
    // Config's table data empty; Config's own mortality parameters are then inputs nobody reads
    bool direct_tables = !get(cs, "tables").empty() && T("tables", 0) == "direct";
    if (with_pht && !direct_tables)
        config.read_pest_host_table(pht_rows);
    if (direct_tables) {
        config.mortality_rate = 1.0;
        config.mortality_time_lag = 0;
    }
    if (!comp_rows.empty())
        config.read_competency_table(comp_rows);

    std::vector<std::string> tape;
    std::string prefix;
    int cur_step = 0;
    IR dispersers(rows, cols, 0), established(rows, cols, 0);
    std::vector<std::tuple<int, int>> outside;
    std::vector<IR> soil_rasters;
    std::unique_ptr<TModel> model;

    auto snapshot = [&](const char* tag, int idx) {
        std::string s = std::to_string(k) + " s" + std::to_string(cur_step) + " " + tag + " "
                        + std::to_string(idx);
        for (int h = 0; h < nhosts; h++) {
            s += " | h" + std::to_string(h) + ":";
            for (int i = 0; i < rows * cols; i++)
                s += " " + cell_text(hosts[h], i / cols, i % cols);
            s += " ; suit";
            for (auto& rc : hosts[h].suitable)
                s += " " + std::to_string(rc[0]) + "," + std::to_string(rc[1]);
        }
        s += " | disp";
        for (int i = 0; i < rows * cols; i++)
            s += " " + std::to_string(dispersers(i / cols, i % cols));
        s += " | estab";
        for (int i = 0; i < rows * cols; i++)
            s += " " + std::to_string(established(i / cols, i % cols));
        s += " | outside";
        for (auto& o : outside)
            s += " " + std::to_string(std::get<0>(o)) + "," + std::to_string(std::get<1>(o));
        s += " | soil";
        if (use_soils)
            for (int i = 0; i < rows * cols; i++) {
                s += " ";
                for (size_t q = 0; q < soil_rasters.size(); q++)
                    s += (q ? "," : "") + std::to_string(soil_rasters[q](i / cols, i % cols));
            }
        std::puts(s.c_str());
    };

    pops::verif::hooks().action = [&](int idx, const char* name) { snapshot(name, idx); };
    pops::verif::hooks().event =
        [&](const char* tag, const void* gen, const std::vector<double>& p) {
            std::string s = tag;
            std::string t = tag;
            if (model) {
                auto& pr = model->random_number_generator();
                const char* name = "provider";
                bool single = (const void*)&pr.disperser_generation() == (const void*)&pr.soil();
                if (gen == (const void*)&pr)
                    name = "provider";
                else if (single && gen == (const void*)&pr.soil())
                    name = "general";
                else if (gen == (const void*)&pr.disperser_generation())
                    name = "disperser_generation";
                else if (gen == (const void*)&pr.natural_dispersal())
                    name = "natural_dispersal";
                else if (gen == (const void*)&pr.anthropogenic_dispersal())
                    name = "anthropogenic_dispersal";
                else if (gen == (const void*)&pr.establishment())
                    name = "establishment";
                else if (gen == (const void*)&pr.weather())
                    name = "weather";
                else if (gen == (const void*)&pr.lethal_temperature())
                    name = "lethal_temperature";
                else if (gen == (const void*)&pr.movement())
                    name = "movement";
                else if (gen == (const void*)&pr.overpopulation())
                    name = "overpopulation";
                else if (gen == (const void*)&pr.survival_rate())
                    name = "survival_rate";
                else if (gen == (const void*)&pr.soil())
                    name = "soil";
                else
                    name = "unknown";
                s += std::string("@") + name;
            }
            if (t == "draw") {
                s += ":";
                for (size_t i = 0; i < p.size(); i++)
                    s += (i ? "," : "") + std::to_string((long)p[i]);
            }
            else if (t == "establish" || t == "soil_to") {
                s += ":" + q_of_double(p[0]) + ":" + q_of_double(p[1]) + ":" + std::to_string((int)p[2]);
            }
            else if (t == "generate" || t == "soil_from") {
                s += ":" + std::to_string((long)p[0]) + ":" + std::to_string((long)p[1]) + ":"
                     + q_of_double(p[2]) + ":" + std::to_string((long)p[3]);
            }
            else if (t == "kernel" || t == "okernel") {
                s += ":" + std::to_string((long)p[0]) + ":" + std::to_string((long)p[1]) + ":"
                     + std::to_string((long)p[2]) + ":" + std::to_string((long)p[3]);
            }
            else if (t == "pick") {
                s += ":" + std::to_string((long)p[0]);
            }
            else if (t == "weather") {
                s += ":" + std::to_string((long)p[0]) + ":" + std::to_string((long)p[1]) + ":" + q_of_double(p[2]);
            }
            tape.push_back(s);
        };

    std::string err = guarded([&]() -> std::string {
        config.create_schedules();
        if (use_weather)
            config.weather_size = 0;
        model.reset(new TModel(config));
        if (use_soils) {
            soil_rasters.assign(soil_cohorts, IR(rows, cols, 0));
            model->activate_soils(soil_rasters);
        }
        std::vector<std::unique_ptr<TModel::StandardSingleHostPool>> pools;
        std::vector<TModel::StandardSingleHostPool*> pool_ptrs;
        if (cs.entry == "pools") {
            for (int h = 0; h < nhosts; h++) {
                HostData& d = hosts[h];
                pools.emplace_back(new TModel::StandardSingleHostPool(
                    model_type_from_string(config.model_type),
                    d.S,
                    d.E,
                    config.latency_period_steps,
                    d.I,
                    d.TE,
                    d.R,
                    d.M,
                    d.D,
                    d.TH,
                    model->environment(),
                    config.generate_stochasticity,
                    config.reproductive_rate,
                    config.establishment_stochasticity,
                    config.establishment_probability,
                    config.rows,
                    config.cols,
                    d.suitable));
                pool_ptrs.push_back(pools.back().get());
            }
        }
        std::unique_ptr<TModel::StandardMultiHostPool> multi;
        std::unique_ptr<PestHostTable<TModel::StandardSingleHostPool>> pht;
        std::unique_ptr<PestHostTable<TModel::StandardSingleHostPool>> decoy_pht;
        std::unique_ptr<CompetencyTable<TModel::StandardSingleHostPool>> comp;
        std::unique_ptr<Treatments<TModel::StandardSingleHostPool, DR>> treatments;
        std::unique_ptr<SpreadRateAction<TModel::StandardMultiHostPool, int>> spread_rate;
        TModel::StandardPestPool pest_pool{dispersers, established, outside};
        IR zeros(rows, cols, 0);
        QuarantineEscapeAction<IR> quarantine(
            zeros, config.ew_res, config.ns_res, config.use_quarantine ? config.quarantine_num_steps() : 0);
        if (cs.entry == "pools") {
            multi.reset(new TModel::StandardMultiHostPool(pool_ptrs, config));
            if (with_pht) {
                if (direct_tables) {
                    pht.reset(new PestHostTable<TModel::StandardSingleHostPool>(model->environment()));
                    for (auto& row : pht_rows)
                        pht->add_host_info(row.at(0), row.at(1), (int)row.at(2));
                }
                else
                    pht.reset(new PestHostTable<TModel::StandardSingleHostPool>(config, model->environment()));
                // a pool can be given another table at any time: first a decoy table (other
                // susceptibilities, rates and lags) is set and used once, then the real one
                decoy_pht.reset(new PestHostTable<TModel::StandardSingleHostPool>(model->environment()));
                for (size_t hi = 0; hi < pool_ptrs.size(); ++hi)
                    decoy_pht->add_host_info(hi % 2 ? 0.0 : 0.03125, hi % 2 ? 1.0 : 0.0, (int)(hi % 2));
                multi->set_pest_host_table(*decoy_pht);
                for (auto* hp : pool_ptrs) {
                    bool done = false;
                    for (int r = 0; r < rows && !done; ++r)
                        for (int c = 0; c < cols && !done; ++c)
                            if (model->environment().total_population_at(r, c) > 0) {
                                try {
                                    (void)hp->suitability_at(r, c);
                                }
                                catch (const std::exception&) {
                                }
                                done = true;
                            }
                }
                multi->set_pest_host_table(*pht);
            }
            if (!comp_rows.empty()) {
                comp.reset(new CompetencyTable<TModel::StandardSingleHostPool>(config, model->environment()));
                multi->set_competency_table(*comp);
            }
            treatments.reset(new Treatments<TModel::StandardSingleHostPool, DR>(config.scheduler()));
            {
                // the caller loads every coefficient raster into ONE buffer and reuses it: a
                // registered treatment keeps the coefficients it was given, whatever happens
                // to the caller's raster afterwards
                DR buffer(rows, cols, 0.0);
                for (auto& tr : treats) {
                    buffer = tr.map;
                    treatments->add_treatment(
                        buffer, Date(tr.y, tr.m, tr.d), tr.days, treatment_app_enum_from_string(tr.app));
                }
                buffer.fill(0.0);
            }
            spread_rate.reset(new SpreadRateAction<TModel::StandardMultiHostPool, int>(
                *multi,
                config.rows,
                config.cols,
                config.ew_res,
                config.ns_res,
                config.use_spreadrates ? config.rate_num_steps() : 0));
        }
        // `clearafter K S`: before step K the caller drops the treatments dated after step S
        // (Treatments::clear_after_step, computational steering)
        int clear_at = -1, clear_step = 0;
        if (!get(cs, "clearafter").empty()) {
            clear_at = std::stoi(T("clearafter", 0));
            clear_step = std::stoi(T("clearafter", 1));
        }
        std::printf("%d sched spread=%s\n", k, bits(config.spread_schedule()).c_str());
        for (cur_step = 0; cur_step < nsteps; cur_step++) {
            tape.clear();
            std::string e = guarded([&]() -> std::string {
                if (use_weather)
                    model->environment().update_weather_coefficient(
                        weathers.at(cur_step % weathers.size()));
                if (cs.entry == "pools" && clear_at == cur_step)
                    treatments->clear_after_step((unsigned)clear_step);
                if (cs.entry == "pools") {
                    model->run_step(
                        cur_step,
                        *multi,
                        pest_pool,
                        totpop,
                        *treatments,
                        temps,
                        survs,
                        *spread_rate,
                        quarantine,
                        zeros,
                        movements,
                        Network<int>::null_network());
                }
                else {
                    HostData& d = hosts[0];
                    model->run_step(
                        cur_step,
                        d.I,
                        d.S,
                        totpop,
                        d.TH,
                        dispersers,
                        established,
                        d.TE,
                        d.E,
                        d.M,
                        d.D,
                        temps,
                        survs,
                        d.R,
                        outside,
                        quarantine,
                        zeros,
                        movements,
                        Network<int>::null_network(),
                        d.suitable);
                }
                return std::string();
            });
            std::string tp = std::to_string(k) + " s" + std::to_string(cur_step) + " tape";
            for (auto& ev : tape)
                tp += " " + ev;
            std::puts(tp.c_str());
            if (!e.empty()) {
                std::printf("%d s%d err %s\n", k, cur_step, e.substr(4).c_str());
                break;
            }
            snapshot("end", cur_step);
        }
        return std::string();
    });
    if (!err.empty())
        std::printf("%d setup err %s\n", k, err.substr(4).c_str());
    pops::verif::hooks().action = nullptr;
    pops::verif::hooks().event = nullptr;
}

int main(int argc, char** argv)
{
    if (argc < 2)
        return 2;
    std::ifstream in(argv[1]);
    std::string line;
    int k = 0;
    Case cur;
    bool open = false;
    while (std::getline(in, line)) {
        if (line.empty() || line[0] == '#')
            continue;
        auto t = split_ws(line);
        if (t[0] == "case") {
            cur = Case();
            cur.entry = t.at(1);
            open = true;
        }
        else if (t[0] == "end") {
            if (open) {
                run_case(k, cur);
                std::fflush(stdout);
                k++;
            }
            open = false;
        }
        else if (
            t[0] == "pht" || t[0] == "comprow" || t[0] == "cells" || t[0] == "suitable" || t[0] == "totpop"
            || t[0] == "wraster" || t[0] == "temp" || t[0] == "surv" || t[0] == "move" || t[0] == "treat") {
            cur.multi.push_back(t);
        }
        else {
            if (t[0] == "grid") {
                cur.rows = std::stoi(t.at(1));
                cur.cols = std::stoi(t.at(2));
            }
            cur.kv[t[0]] = std::vector<std::string>(t.begin() + 1, t.end());
        }
    }
    return 0;
}
