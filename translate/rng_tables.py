#!/usr/bin/env python3
"""translate/rng_tables.py <repo> <coq theories dir>

Regenerates GeneratedRng.v (property C06) from the headers of pops-core:

  * generator_provider.hpp, class MultiRandomNumberGeneratorProvider: the order
    of the `<member>.seed(seed++)` statements of seed(unsigned), the
    (key, member) pairs of the set_seed_by_name calls of seed(map), and the
    member each stream accessor returns;
  * class SingleGeneratorProvider: what each stream accessor returns;
  * class RandomNumberGeneratorProvider: whether operator() and discard()
    throw std::runtime_error when the provider is in multi-stream mode;
  * config.hpp read_seeds(vector): the documented list of seed names;
  * actions.hpp / model.hpp: which stream accessors each action class asks
    the provider for (`generator.<accessor>()`), and what it hands to the soil pool.

A region that can no longer be found makes the translator exit non-zero with a
message: a broken tie, never a pass.
"""
import os
import re
import sys


def strip_comments(s):
    s = re.sub(r"/\*.*?\*/", " ", s, flags=re.S)
    s = re.sub(r"//[^\n]*", " ", s)
    return s


def class_body(src, name):
    m = re.search(r"class\s+%s\b[^{;]*\{" % re.escape(name), src)
    if not m:
        raise SystemExit("class %s not found" % name)
    i = m.end()
    depth = 1
    while depth and i < len(src):
        if src[i] == "{":
            depth += 1
        elif src[i] == "}":
            depth -= 1
        i += 1
    return src[m.end():i - 1]


def func_body(body, signature_re):
    m = re.search(signature_re + r"[^{;]*\{", body)
    if not m:
        raise SystemExit("function %s not found" % signature_re)
    i = m.end()
    depth = 1
    while depth and i < len(body):
        if body[i] == "{":
            depth += 1
        elif body[i] == "}":
            depth -= 1
        i += 1
    return body[m.end():i - 1]


def coq_str_list(xs):
    return "[" + "; ".join('"%s"' % x for x in xs) + "]"


def main():
    repo, outdir = sys.argv[1], sys.argv[2]
    gp = strip_comments(open(os.path.join(repo, "include/pops/generator_provider.hpp")).read())
    multi = class_body(gp, "MultiRandomNumberGeneratorProvider")
    single = class_body(gp, "SingleGeneratorProvider")
    prov = class_body(gp, "RandomNumberGeneratorProvider")
    # accessor -> member in the multi provider
    acc = re.findall(r"Generator&\s+(\w+)\s*\(\s*\)\s*override\s*\{\s*return\s+(\w+)\s*;\s*\}", multi)
    if len(acc) < 10:
        raise SystemExit("multi provider: expected 10 stream accessors, found %d" % len(acc))
    member_to_acc = {m: a for a, m in acc}
    seed_u = func_body(multi, r"void\s+seed\s*\(\s*unsigned\s+seed\s*\)")
    stmts = re.findall(r"(\w+)\s*\.\s*seed\s*\(\s*(seed\+\+|seed|\+\+seed)\s*\)", seed_u)
    if not stmts or any(m not in member_to_acc for m, _ in stmts):
        raise SystemExit("multi provider seed(unsigned): cannot read the seeding statements")
    # offsets: seed++ uses the current value then increments; a final plain `seed` uses the current value
    order, off = [], 0
    for m, how in stmts:
        if how == "++seed":
            off += 1
            order.append((member_to_acc[m], off))
        else:
            order.append((member_to_acc[m], off))
            if how == "seed++":
                off += 1
    named = re.findall(r"set_seed_by_name\s*\(\s*seeds\s*,\s*\"(\w+)\"\s*,\s*(\w+)\s*\)", func_body(multi, r"void\s+seed\s*\(\s*const\s+std::map"))
    if len(named) < 10 or any(m not in member_to_acc for _, m in named):
        raise SystemExit("multi provider seed(map): cannot read the set_seed_by_name calls")
    sby = func_body(multi, r"void\s+set_seed_by_name")
    missing_rejected = bool(re.search(r"catch\s*\(\s*const\s+std::out_of_range", sby) and re.search(r"throw\s+std::invalid_argument", sby))
    sacc = re.findall(r"Generator&\s+(\w+)\s*\(\s*\)\s*override\s*\{\s*return\s+(\w+)\s*\(\s*\)\s*;\s*\}", single)
    if len(sacc) < 10:
        raise SystemExit("single provider: expected 10 stream accessors")
    opcall = func_body(prov, r"result_type\s+operator\s*\(\s*\)\s*\(\s*\)")
    disc = func_body(prov, r"void\s+discard\s*\(")

    def throws_direct(b):
        # if (<the multi-stream flag>) throw std::runtime_error(...), with or without braces
        return bool(re.search(r"if\s*\(\s*\w+\s*\)\s*\{?\s*throw\s+std::runtime_error", b))

    def throws(b):
        if throws_direct(b):
            return True
        # or through a private helper of the class called by the body
        for callee in set(re.findall(r"\b([A-Za-z_]\w*)\s*\(", b)):
            m2 = re.search(r"\b%s\s*\([^)]*\)\s*(?:const\s*)?\{" % re.escape(callee), prov)
            if m2:
                i, depth = m2.end(), 1
                while depth and i < len(prov):
                    depth += {"{": 1, "}": -1}.get(prov[i], 0)
                    i += 1
                if throws_direct(prov[m2.end():i - 1]):
                    return True
        return False
    cfg = strip_comments(open(os.path.join(repo, "include/pops/config.hpp")).read())
    rs = func_body(cfg, r"void\s+read_seeds\s*\(\s*const\s+std::vector<unsigned>")
    names = re.findall(r"\"(\w+)\"", rs.split("};")[0])
    if len(names) < 10:
        raise SystemExit("config.hpp read_seeds(vector): cannot read the list of names")
    act = strip_comments(open(os.path.join(repo, "include/pops/actions.hpp")).read())
    classes = ["SpreadAction", "SurvivalRateAction", "RemoveByTemperature", "MoveOverpopulatedPests", "HostMovement", "Mortality"]
    uses = []
    for c in classes:
        b = class_body(act, c)
        used = sorted(set(re.findall(r"generator\s*\.\s*(\w+)\s*\(\s*\)", b)))
        uses.append((c, used))
    spread = class_body(act, "SpreadAction")
    soil_args = re.findall(r"soil_pool_->\s*dispersers_(?:to|from)\s*\(([^;]*)\)\s*;", spread)
    soil_stream_ok = bool(soil_args) and all(re.search(r"generator\s*\.\s*soil\s*\(\s*\)\s*$", a.strip()) for a in soil_args)
    env = strip_comments(open(os.path.join(repo, "include/pops/environment.hpp")).read())
    weather_uses = sorted(set(re.findall(r"generator\s*\.\s*(\w+)\s*\(\s*\)", class_body(env, "Environment"))))
    out = []
    out.append("(* GENERATED by translate/rng_tables.py from generator_provider.hpp, config.hpp,")
    out.append("   actions.hpp and environment.hpp - do not edit. *)")
    out.append("From Coq Require Import ZArith List String.")
    out.append("Import ListNotations.")
    out.append("Local Open Scope string_scope.")
    out.append("Local Open Scope Z_scope.")
    out.append("")
    out.append("(* MultiRandomNumberGeneratorProvider::seed(unsigned): stream accessor and the offset added to the seed *)")
    out.append("Definition gen_multi_seed_order : list (string * Z) :=")
    out.append("  [" + "; ".join('("%s", %d)' % (a, o) for a, o in order) + "].")
    out.append("(* seed(map): (key looked up, stream accessor seeded) in the order of the calls *)")
    out.append("Definition gen_named_seed_keys : list (string * string) :=")
    out.append("  [" + "; ".join('("%s", "%s")' % (k, member_to_acc[m]) for k, m in named) + "].")
    out.append("Definition gen_missing_key_rejected : bool := %s." % ("true" if missing_rejected else "false"))
    out.append("(* the accessors of the multi provider, each returning its own member *)")
    out.append("Definition gen_multi_accessors : list (string * string) :=")
    out.append("  [" + "; ".join('("%s", "%s")' % (a, m) for a, m in acc) + "].")
    out.append("(* the accessors of the single provider and the function each returns *)")
    out.append("Definition gen_single_accessors : list (string * string) :=")
    out.append("  [" + "; ".join('("%s", "%s")' % (a, m) for a, m in sacc) + "].")
    out.append("Definition gen_call_throws_in_multi : bool := %s." % ("true" if throws(opcall) else "false"))
    out.append("Definition gen_discard_throws_in_multi : bool := %s." % ("true" if throws(disc) else "false"))
    out.append("(* Config::read_seeds(vector): the documented order of seed names *)")
    out.append("Definition gen_config_seed_names : list string := %s." % coq_str_list(names))
    out.append("(* stream accessors each action class asks the provider for *)")
    out.append("Definition gen_action_streams : list (string * list string) :=")
    out.append("  [" + ";\n   ".join('("%s", %s)' % (c, coq_str_list(u)) for c, u in uses) + "].")
    out.append("Definition gen_soil_pool_gets_soil_stream : bool := %s." % ("true" if soil_stream_ok else "false"))
    out.append("Definition gen_environment_streams : list string := %s." % coq_str_list(weather_uses))
    path = os.path.join(outdir, "GeneratedRng.v")
    txt = "\n".join(out) + "\n"
    if not os.path.exists(path) or open(path).read() != txt:
        with open(path, "w") as f:
            f.write(txt)


if __name__ == "__main__":
    main()
