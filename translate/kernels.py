#!/usr/bin/env python3
"""translate/kernels.py <repo> <coq theories dir>

Regenerates coq/theories/GeneratedKernels.v from the headers of pops-core:

  * the bodies of `pdf` and `icdf` of the ten distance-kernel classes
    (<name>_kernel.hpp) as Coq real expressions (functions of the member
    variables that occur in the body, in declaration order, and of x);
  * from deterministic_kernel.hpp the statements that size the window, place its
    centre and compute the distance of a window cell from the centre, as Coq
    Q/Z expressions.

The C++ is tokenised and parsed by a small recursive-descent parser (layout and
comments do not matter).  A region that can no longer be found or parsed makes
the translator exit non-zero with a message: a broken tie, never a pass.
Functions that contain loops (gamma cdf/icdf, exponential-power icdf) are not
closed forms; they are listed in the generated file as not translated.

The module is also imported by pylib/eng_detkernel.py, which evaluates the same
ASTs numerically (eval_function) against the compiled C++ on every check.
"""
import math
import os
import re
import sys
from fractions import Fraction

KERNELS = [
    # (name used in generated identifiers, header, class)
    ("cauchy", "cauchy_kernel.hpp", "CauchyKernel"),
    ("exponential", "exponential_kernel.hpp", "ExponentialKernel"),
    ("weibull", "weibull_kernel.hpp", "WeibullKernel"),
    ("normal", "normal_kernel.hpp", "NormalKernel"),
    ("lognormal", "lognormal_kernel.hpp", "LogNormalKernel"),
    ("logistic", "logistic_kernel.hpp", "LogisticKernel"),
    ("hyperbolic_secant", "hyperbolic_secant_kernel.hpp", "HyperbolicSecantKernel"),
    ("gamma", "gamma_kernel.hpp", "GammaKernel"),
    ("exponential_power", "exponential_power_kernel.hpp", "ExponentialPowerKernel"),
    ("power_law", "power_law_kernel.hpp", "PowerLawKernel"),
]
# functions that must translate (closed forms); the others are translated when
# they are closed forms and listed as "not translated" otherwise
REQUIRED = {(k, "pdf") for k, _, _ in KERNELS} | {
    (k, "icdf") for k in ("cauchy", "exponential", "weibull", "logistic", "hyperbolic_secant", "power_law")
}


class TranslateError(Exception):
    pass


# --------------------------------------------------------------------------
# lexer
# --------------------------------------------------------------------------
def strip_comments(txt):
    txt = re.sub(r"/\*.*?\*/", " ", txt, flags=re.S)
    txt = re.sub(r"//[^\n]*", " ", txt)
    return txt


TOKEN = re.compile(
    r"\s*(?:(?P<num>(?:\d+\.\d*|\.\d+|\d+)(?:[eE][-+]?\d+)?)(?P<suf>[fFlL]?)"
    r"|(?P<id>[A-Za-z_][A-Za-z_0-9]*(?:\s*::\s*[A-Za-z_][A-Za-z_0-9]*)*)"
    r"|(?P<str>\"(?:[^\"\\]|\\.)*\")"
    r"|(?P<op>\|\||&&|<=|>=|==|!=|\+\+|--|\+=|-=|\*=|/=|[-+*/(){};,<>=?:!\[\]&.]))"
)


def tokenize(src):
    toks = []
    pos = 0
    src = src.rstrip()
    while pos < len(src):
        m = TOKEN.match(src, pos)
        if not m or m.end() == pos:
            if src[pos:].strip() == "":
                break
            raise TranslateError("cannot tokenise near: %r" % src[pos:pos + 40])
        pos = m.end()
        if m.group("num") is not None:
            toks.append(("num", m.group("num"), m.group("suf")))
        elif m.group("id") is not None:
            name = re.sub(r"\s+", "", m.group("id"))
            if name.startswith("std::"):
                name = name[5:]
            toks.append(("id", name))
        elif m.group("str") is not None:
            toks.append(("str", m.group("str")))
        else:
            toks.append(("op", m.group("op")))
    return toks


# --------------------------------------------------------------------------
# parser: expressions and the statement forms that occur in closed-form bodies
# --------------------------------------------------------------------------
TYPES = {"double", "float", "int", "long", "unsigned", "bool", "auto", "const"}


class Parser:
    def __init__(self, toks, where):
        self.t = toks
        self.i = 0
        self.where = where

    def peek(self, k=0):
        return self.t[self.i + k] if self.i + k < len(self.t) else ("eof",)

    def next(self):
        tok = self.peek()
        self.i += 1
        return tok

    def is_op(self, s, k=0):
        tok = self.peek(k)
        return tok[0] == "op" and tok[1] == s

    def expect(self, s):
        if not self.is_op(s):
            raise TranslateError("%s: expected '%s', found %s" % (self.where, s, self.peek(),))
        self.i += 1

    # ---- statements ----
    def block_or_stmt(self):
        if self.is_op("{"):
            self.next()
            out = []
            while not self.is_op("}"):
                if self.peek()[0] == "eof":
                    raise TranslateError("%s: unterminated block" % self.where)
                out += self.statement()
            self.next()
            return out
        return self.statement()

    def statement(self):
        tok = self.peek()
        if tok[0] == "id" and tok[1] == "if":
            self.next()
            self.expect("(")
            c = self.expr()
            self.expect(")")
            th = self.block_or_stmt()
            el = []
            if self.peek() == ("id", "else"):
                self.next()
                el = self.block_or_stmt()
            return [("if", c, th, el)]
        if tok[0] == "id" and tok[1] == "return":
            self.next()
            e = self.expr()
            self.expect(";")
            return [("return", e)]
        if tok[0] == "id" and tok[1] == "throw":
            depth = 0
            while True:
                tk = self.next()
                if tk[0] == "eof":
                    raise TranslateError("%s: unterminated throw" % self.where)
                if tk == ("op", "("):
                    depth += 1
                elif tk == ("op", ")"):
                    depth -= 1
                elif tk == ("op", ";") and depth == 0:
                    break
            return [("throw",)]
        if tok[0] == "id" and tok[1] in ("for", "while", "do", "switch"):
            raise TranslateError("%s: loop/switch statement '%s' (not a closed form)" % (self.where, tok[1]))
        if tok[0] == "id" and tok[1] in TYPES:
            while self.peek()[0] == "id" and self.peek()[1] in TYPES:
                self.next()
            name = self.next()
            if name[0] != "id":
                raise TranslateError("%s: declaration without a name" % self.where)
            if self.is_op("="):
                self.next()
                e = self.expr()
                self.expect(";")
                return [("let", name[1], e)]
            raise TranslateError("%s: unsupported declaration of %s" % (self.where, name[1]))
        if tok[0] == "id" and self.is_op("=", 1):
            name = self.next()[1]
            self.next()
            e = self.expr()
            self.expect(";")
            return [("let", name, e)]
        # compound assignment  v op= e;  is  v = v op (e);
        if tok[0] == "id" and any(self.is_op(o, 1) for o in ("+=", "-=", "*=", "/=")):
            name = self.next()[1]
            op = self.next()[1][0]
            e = self.expr()
            self.expect(";")
            return [("let", name, ("bin", op, ("var", name), e))]
        raise TranslateError("%s: unsupported statement starting at %s" % (self.where, tok,))

    # ---- expressions (C precedence) ----
    def expr(self):
        return self.ternary()

    def ternary(self):
        c = self.lor()
        if self.is_op("?"):
            self.next()
            a = self.expr()
            self.expect(":")
            b = self.ternary()
            return ("tern", c, a, b)
        return c

    def lor(self):
        a = self.land()
        while self.is_op("||"):
            self.next()
            a = ("or", a, self.land())
        return a

    def land(self):
        a = self.equality()
        while self.is_op("&&"):
            self.next()
            a = ("and", a, self.equality())
        return a

    def equality(self):
        a = self.relational()
        while self.is_op("==") or self.is_op("!="):
            op = self.next()[1]
            a = ("cmp", op, a, self.relational())
        return a

    def relational(self):
        a = self.additive()
        while self.is_op("<") or self.is_op(">") or self.is_op("<=") or self.is_op(">="):
            op = self.next()[1]
            a = ("cmp", op, a, self.additive())
        return a

    def additive(self):
        a = self.multiplicative()
        while self.is_op("+") or self.is_op("-"):
            op = self.next()[1]
            a = ("bin", op, a, self.multiplicative())
        return a

    def multiplicative(self):
        a = self.unary()
        while self.is_op("*") or self.is_op("/"):
            op = self.next()[1]
            a = ("bin", op, a, self.unary())
        return a

    def unary(self):
        if self.is_op("-"):
            self.next()
            return ("neg", self.unary())
        if self.is_op("+"):
            self.next()
            return self.unary()
        # C-style cast: (double) e, (int) e
        if self.is_op("(") and self.peek(1)[0] == "id" and self.peek(1)[1] in TYPES and self.is_op(")", 2):
            self.next()
            ty = self.next()[1]
            self.next()
            return ("cast", ty, self.unary())
        return self.primary()

    def primary(self):
        tok = self.next()
        if tok[0] == "num":
            txt = tok[1]
            is_int = re.fullmatch(r"\d+", txt) is not None and tok[2] == ""
            return ("num", Fraction(txt), is_int)
        if tok == ("op", "("):
            e = self.expr()
            self.expect(")")
            return e
        if tok[0] == "id":
            name = tok[1]
            if name == "static_cast":
                self.expect("<")
                ty = self.next()[1]
                self.expect(">")
                self.expect("(")
                e = self.expr()
                self.expect(")")
                return ("cast", ty, e)
            if self.is_op("("):
                self.next()
                args = []
                if not self.is_op(")"):
                    args.append(self.expr())
                    while self.is_op(","):
                        self.next()
                        args.append(self.expr())
                self.expect(")")
                return ("call", name, args)
            return ("var", name)
        raise TranslateError("%s: unexpected token %s in expression" % (self.where, tok,))


def parse_body(src, where):
    p = Parser(tokenize(src), where)
    out = []
    while p.peek()[0] != "eof":
        out += p.statement()
    return out


def parse_expr(src, where):
    p = Parser(tokenize(src), where)
    e = p.expr()
    if p.peek()[0] != "eof":
        raise TranslateError("%s: trailing tokens after expression: %s" % (where, p.peek(),))
    return e


# --------------------------------------------------------------------------
# statement list -> one expression; `if (..) throw` guards become preconditions
# --------------------------------------------------------------------------
def only_throws(stmts):
    return len(stmts) > 0 and all(s[0] == "throw" for s in stmts)


def always_returns(stmts):
    if not stmts:
        return False
    last = stmts[-1]
    if last[0] in ("return", "throw"):
        return True
    if last[0] == "if":
        return always_returns(last[2]) and always_returns(last[3])
    return False


def lower(stmts, pre, where):
    """Returns an expression tree with ('let', v, e, body) and
    ('ifexpr', cond, a, b) nodes; `pre` collects the throw guards."""
    if not stmts:
        raise TranslateError("%s: control reaches the end without a return" % where)
    s, rest = stmts[0], stmts[1:]
    if s[0] == "return":
        return s[1]
    if s[0] == "throw":
        raise TranslateError("%s: unconditional throw" % where)
    if s[0] == "let":
        return ("let", s[1], s[2], lower(rest, pre, where))
    if s[0] == "if":
        _, c, th, el = s
        if only_throws(th):
            pre.append(c)
            return lower(el + rest, pre, where)
        if always_returns(th):
            return ("ifexpr", c, lower(th, pre, where), lower(el + rest, pre, where))
        raise TranslateError("%s: `if` whose branch neither returns nor throws" % where)
    raise TranslateError("%s: unsupported statement %s" % (where, s[0]))


def free_vars(e, bound=frozenset()):
    k = e[0]
    if k == "num":
        return []
    if k == "var":
        return [] if e[1] in bound else [e[1]]
    if k == "neg":
        return free_vars(e[1], bound)
    if k in ("bin", "cmp"):
        return free_vars(e[2], bound) + free_vars(e[3], bound)
    if k in ("or", "and"):
        return free_vars(e[1], bound) + free_vars(e[2], bound)
    if k in ("tern", "ifexpr"):
        return free_vars(e[1], bound) + free_vars(e[2], bound) + free_vars(e[3], bound)
    if k == "cast":
        return free_vars(e[2], bound)
    if k == "call":
        out = []
        for a in e[2]:
            out += free_vars(a, bound)
        return out
    if k == "let":
        return free_vars(e[2], bound) + free_vars(e[3], bound | {e[1]})
    raise TranslateError("free_vars: unknown node %s" % k)


def called(e):
    k = e[0]
    out = set()
    if k == "call":
        out.add(e[1])
        for a in e[2]:
            out |= called(a)
        return out
    for x in e[1:]:
        if isinstance(x, tuple) and x and isinstance(x[0], str):
            out |= called(x)
    return out


# --------------------------------------------------------------------------
# numeric evaluation of the AST (what the C++ computes, in binary64)
# --------------------------------------------------------------------------
def eval_expr(e, env):
    k = e[0]
    if k == "num":
        return float(e[1])
    if k == "var":
        if e[1] == "M_PI":
            return math.pi
        return env[e[1]]
    if k == "neg":
        return -eval_expr(e[1], env)
    if k == "bin":
        a, b = eval_expr(e[2], env), eval_expr(e[3], env)
        if e[1] == "+":
            return a + b
        if e[1] == "-":
            return a - b
        if e[1] == "*":
            return a * b
        if b == 0:
            if a == 0 or a != a:
                return float("nan")
            return math.copysign(float("inf"), a) * math.copysign(1.0, b)
        return a / b
    if k == "cmp":
        a, b = eval_expr(e[2], env), eval_expr(e[3], env)
        return {"<": a < b, ">": a > b, "<=": a <= b, ">=": a >= b, "==": a == b, "!=": a != b}[e[1]]
    if k == "or":
        return bool(eval_expr(e[1], env)) or bool(eval_expr(e[2], env))
    if k == "and":
        return bool(eval_expr(e[1], env)) and bool(eval_expr(e[2], env))
    if k in ("tern", "ifexpr"):
        return eval_expr(e[2], env) if eval_expr(e[1], env) else eval_expr(e[3], env)
    if k == "cast":
        v = eval_expr(e[2], env)
        return float(int(v)) if e[1] in ("int", "long", "unsigned") else v
    if k == "let":
        env2 = dict(env)
        env2[e[1]] = eval_expr(e[2], env)
        return eval_expr(e[3], env2)
    if k == "call":
        a = [eval_expr(x, env) for x in e[2]]
        f = e[1]
        try:
            if f == "pow":
                if a[0] == 0 and a[1] < 0:
                    return float("inf")
                return math.pow(a[0], a[1])
            if f == "exp":
                return math.exp(a[0])
            if f == "log":
                return math.log(a[0]) if a[0] > 0 else (float("-inf") if a[0] == 0 else float("nan"))
            if f == "sqrt":
                return math.sqrt(a[0]) if a[0] >= 0 else float("nan")
            if f == "tan":
                return math.tan(a[0])
            if f == "cosh":
                return math.cosh(a[0])
            if f in ("abs", "fabs"):
                return abs(a[0])
            if f == "tgamma":
                return math.gamma(a[0])
            if f == "ceil":
                return float(math.ceil(a[0]))
        except OverflowError:
            return float("inf")
        except ValueError:
            return float("nan")
        raise TranslateError("eval: unknown function " + f)
    raise TranslateError("eval: unknown node " + k)


# --------------------------------------------------------------------------
# Coq emission: real expressions
# --------------------------------------------------------------------------
COQ_RESERVED = {"exp", "ln", "PI", "pow", "sqrt", "tan", "cosh", "Rabs", "Rpower", "atan", "cos", "sin",
                "fun", "let", "in", "if", "then", "else", "match", "with", "end", "forall", "exists", "R", "Q", "Z",
                "tgamma", "up", "IZR", "INR"}


def cname(v):
    return v + "_" if v in COQ_RESERVED else v


def coq_num(fr):
    if fr.denominator == 1:
        return str(fr.numerator)
    return "(%d / %d)" % (fr.numerator, fr.denominator)


CMP_DEC = {"==": "Req_EM_T", "<": "Rlt_dec", "<=": "Rle_dec", ">": "Rgt_dec", ">=": "Rge_dec"}


def coq_real(e, where):
    k = e[0]
    if k == "num":
        return coq_num(e[1])
    if k == "var":
        return "PI" if e[1] == "M_PI" else cname(e[1])
    if k == "neg":
        return "(- %s)" % coq_real(e[1], where)
    if k == "bin":
        return "(%s %s %s)" % (coq_real(e[2], where), e[1], coq_real(e[3], where))
    if k == "cast":
        if e[1] in ("double", "float"):
            return coq_real(e[2], where)
        raise TranslateError("%s: integer cast in a real expression" % where)
    if k in ("tern", "ifexpr"):
        c = e[1]
        if c[0] != "cmp":
            raise TranslateError("%s: condition of a value-producing branch is not a single comparison" % where)
        a, b = coq_real(e[2], where), coq_real(e[3], where)
        op = c[1]
        if op == "!=":
            op, a, b = "==", b, a
        return "(if %s %s %s then %s else %s)" % (CMP_DEC[op], coq_real(c[2], where), coq_real(c[3], where), a, b)
    if k == "let":
        return "(let %s := %s in %s)" % (cname(e[1]), coq_real(e[2], where), coq_real(e[3], where))
    if k == "call":
        f, a = e[1], e[2]
        if f == "pow" and len(a) == 2:
            if a[1][0] == "num" and a[1][1].denominator == 1 and 0 <= a[1][1] <= 16:
                return "(%s ^ %d)" % (coq_real(a[0], where), int(a[1][1]))
            return "(Rpower %s %s)" % (coq_real(a[0], where), coq_real(a[1], where))
        one = {"exp": "exp", "log": "ln", "sqrt": "sqrt", "tan": "tan", "cosh": "cosh", "abs": "Rabs",
               "fabs": "Rabs", "tgamma": "tgamma"}
        if f in one and len(a) == 1:
            return "(%s %s)" % (one[f], coq_real(a[0], where))
        raise TranslateError("%s: function %s/%d has no translation" % (where, f, len(a)))
    raise TranslateError("%s: node %s has no real translation" % (where, k))


def coq_cond(c, where):
    k = c[0]
    if k == "cmp":
        op = {"==": "=", "!=": "<>", "<": "<", "<=": "<=", ">": ">", ">=": ">="}[c[1]]
        return "%s %s %s" % (coq_real(c[2], where), op, coq_real(c[3], where))
    if k == "or":
        return "(%s \\/ %s)" % (coq_cond(c[1], where), coq_cond(c[2], where))
    if k == "and":
        return "(%s /\\ %s)" % (coq_cond(c[1], where), coq_cond(c[2], where))
    raise TranslateError("%s: unsupported guard" % where)


# --------------------------------------------------------------------------
# Coq emission: Q/Z expressions of deterministic_kernel.hpp
# --------------------------------------------------------------------------
DET_INT = {"mid_row", "mid_col", "i", "j", "number_of_rows", "number_of_columns"}
DET_REAL = {"max_distance", "east_west_resolution", "north_south_resolution"}


def det_type(e, where):
    k = e[0]
    if k == "num":
        return "int" if e[2] else "real"
    if k == "var":
        if e[1] in DET_INT:
            return "int"
        if e[1] in DET_REAL:
            return "real"
        raise TranslateError("%s: unexpected variable %s" % (where, e[1]))
    if k == "neg":
        return det_type(e[1], where)
    if k == "bin":
        return "int" if det_type(e[2], where) == "int" and det_type(e[3], where) == "int" else "real"
    if k == "cast":
        return "int" if e[1] in ("int", "long", "unsigned") else "real"
    if k == "call":
        if e[1] == "abs" and len(e[2]) == 1:
            return det_type(e[2][0], where)
        return "real"
    raise TranslateError("%s: node %s not supported here" % (where, k))


def det_z(e, where):
    k = e[0]
    if k == "num":
        return str(e[1].numerator)
    if k == "var":
        return e[1]
    if k == "neg":
        return "(- %s)" % det_z(e[1], where)
    if k == "bin":
        if e[1] == "/":
            return "(Z.quot %s %s)" % (det_z(e[2], where), det_z(e[3], where))
        return "(%s %s %s)" % (det_z(e[2], where), e[1], det_z(e[3], where))
    if k == "call" and e[1] == "abs":
        return "(Z.abs %s)" % det_z(e[2][0], where)
    if k == "cast":
        inner = e[2]
        if det_type(inner, where) == "int":
            return det_z(inner, where)
        if inner[0] == "call" and inner[1] == "ceil" and len(inner[2]) == 1:
            return "(Qceiling (%s)%%Q)" % det_q(inner[2][0], where)
        raise TranslateError("%s: conversion of a real to int other than static_cast<int>(ceil(..))" % where)
    raise TranslateError("%s: node %s has no integer translation" % (where, k))


def det_q(e, where):
    if det_type(e, where) == "int":
        return "(inject_Z (%s)%%Z)" % det_z(e, where)
    k = e[0]
    if k == "num":
        return "(%d # %d)" % (e[1].numerator, e[1].denominator)
    if k == "var":
        return e[1]
    if k == "neg":
        return "(- %s)" % det_q(e[1], where)
    if k == "bin":
        return "(%s %s %s)" % (det_q(e[2], where), e[1], det_q(e[3], where))
    if k == "cast":
        return det_q(e[2], where)
    if k == "call":
        if e[1] == "pow" and len(e[2]) == 2 and e[2][1][0] == "num" and e[2][1][1].denominator == 1 and 0 <= e[2][1][1] <= 16:
            return "(%s ^ %d)" % (det_q(e[2][0], where), int(e[2][1][1]))
        if e[1] == "abs" and len(e[2]) == 1:
            return "(Qabs %s)" % det_q(e[2][0], where)
    raise TranslateError("%s: node %s has no rational translation" % (where, k))


# --------------------------------------------------------------------------
# locating the regions
# --------------------------------------------------------------------------
def match_brace(txt, i):
    """txt[i] == '{' -> index just after the matching '}'."""
    depth = 0
    j = i
    while j < len(txt):
        if txt[j] == "{":
            depth += 1
        elif txt[j] == "}":
            depth -= 1
            if depth == 0:
                return j + 1
        j += 1
    raise TranslateError("unbalanced braces")


def class_body(txt, cls, where):
    m = re.search(r"\bclass\s+%s\b[^;{]*\{" % re.escape(cls), txt)
    if not m:
        raise TranslateError("%s: class %s not found" % (where, cls))
    end = match_brace(txt, m.end() - 1)
    return txt[m.end():end - 1]


def depth0(body):
    """The text of a class body with nested brace blocks blanked out."""
    out = []
    depth = 0
    for ch in body:
        if ch == "{":
            depth += 1
            out.append(" ")
        elif ch == "}":
            depth -= 1
            out.append(";")
        else:
            out.append(ch if depth == 0 else " ")
    return "".join(out)


def member_doubles(body):
    names = []
    for m in re.finditer(r"\b(?:double|float)\s+([A-Za-z_]\w*)\s*(?:\{[^}]*\}|=\s*[^;]+)?\s*;", depth0(body)):
        names.append(m.group(1))
    return names


def method_body(body, name, where):
    m = re.search(r"\bdouble\s+%s\s*\(\s*double\s+([A-Za-z_]\w*)\s*\)\s*(?:const\s*)?\{" % name, body)
    if not m:
        raise TranslateError("%s: method `double %s(double)` not found" % (where, name))
    end = match_brace(body, m.end() - 1)
    return m.group(1), body[m.end():end - 1]


class Function:
    def __init__(self, kernel, method, params, arg, tree, pre, uses_tgamma):
        self.kernel, self.method = kernel, method
        self.params = params  # member variables, in declaration order
        self.arg = arg
        self.tree = tree
        self.pre = pre
        self.uses_tgamma = uses_tgamma

    @property
    def name(self):
        return "%s_%s" % (self.kernel, self.method)


def translate_kernels(repo):
    funcs = {}
    skipped = []
    inc = os.path.join(repo, "include", "pops")
    for kname, header, cls in KERNELS:
        path = os.path.join(inc, header)
        try:
            txt = strip_comments(open(path).read())
        except OSError as e:
            raise TranslateError("%s: %s" % (header, e))
        body = class_body(txt, cls, header)
        members = member_doubles(body)
        for meth in ("pdf", "icdf"):
            where = "%s %s::%s" % (header, cls, meth)
            try:
                arg, src = method_body(body, meth, where)
                stmts = parse_body(src, where)
                pre = []
                tree = lower(stmts, pre, where)
                fv = free_vars(tree, frozenset([arg, "M_PI"]))
                unknown = [v for v in fv if v not in members]
                if unknown:
                    raise TranslateError("%s: unknown variables %s" % (where, sorted(set(unknown))))
                params = [v for v in members if v in fv]
                f = Function(kname, meth, params, arg, tree, pre, "tgamma" in called(tree))
                coq_function(f)  # make sure it can be emitted
                funcs[(kname, meth)] = f
            except TranslateError as e:
                if (kname, meth) in REQUIRED:
                    raise
                skipped.append((kname, meth, str(e)))
    return funcs, skipped


def coq_function(f):
    where = f.name
    args = []
    if f.uses_tgamma:
        args.append("(tgamma : R -> R)")
    names = [cname(v) for v in f.params] + [cname(f.arg)]
    args.append("(%s : R)" % " ".join(names))
    lines = []
    if f.pre:
        lines.append("(* %s: the C++ throws when %s *)" % (f.name, "; or when ".join(coq_cond(c, where) for c in f.pre)))
    lines.append("Definition %s %s : R :=\n  %s." % (f.name, " ".join(args), coq_real(f.tree, where)))
    return "\n".join(lines)


DET_REGIONS = [
    # (generated name, regex locating the right-hand side in the constructor, result type)
    ("det_number_of_columns", r"\bnumber_of_columns\s*=([^;]*);", "Z"),
    ("det_number_of_rows", r"\bnumber_of_rows\s*=([^;]*);", "Z"),
    ("det_mid_row", r"\bmid_row\s*=([^;]*);", "Z"),
    ("det_mid_col", r"\bmid_col\s*=([^;]*);", "Z"),
    ("det_distance_sq", r"\bdouble\s+distance_to_center\s*=([^;]*);", "Q"),
]


def translate_det(repo):
    header = "deterministic_kernel.hpp"
    path = os.path.join(repo, "include", "pops", header)
    try:
        txt = strip_comments(open(path).read())
    except OSError as e:
        raise TranslateError("%s: %s" % (header, e))
    body = class_body(txt, "DeterministicDispersalKernel", header)
    m = re.search(r"\bDeterministicDispersalKernel\s*\(", body)
    if not m:
        raise TranslateError("%s: constructor not found" % header)
    k = body.find("{", m.end())
    # skip the member-initialiser list: the constructor body is the first '{' at
    # parenthesis depth 0 that follows the closing ')' of the parameter list
    depth = 0
    j = m.end() - 1
    while j < len(body):
        if body[j] == "(":
            depth += 1
        elif body[j] == ")":
            depth -= 1
        elif body[j] == "{" and depth == 0:
            prev = body[:j].rstrip()
            # `member{0}` style initialisers are preceded by an identifier
            if not re.search(r"[A-Za-z_0-9]$", prev):
                k = j
                break
            j = match_brace(body, j) - 1
        j += 1
    ctor = body[k:match_brace(body, k)]
    out = {}
    # local `const double v = e;` / `double v = e;` declarations of the constructor (a hoisted
    # loop-invariant term, a named sub-expression) are inlined into the regions that use them
    locals_ = dict(re.findall(r"\b(?:const\s+)?(?:double|int)\s+([A-Za-z_]\w*)\s*=\s*([^;{}]+);", ctor))
    for name, rx, ty in DET_REGIONS:
        where = "%s constructor, %s" % (header, name)
        ms = re.findall(rx, ctor)
        if len(ms) != 1:
            raise TranslateError("%s: expected exactly one assignment, found %d" % (where, len(ms)))
        src = ms[0]
        for _ in range(4):
            used = [v for v in locals_ if re.search(r"\b%s\b" % re.escape(v), src) and v not in
                    ("distance_to_center", "sum", "max_distance", "number_of_rows", "number_of_columns", "mid_row", "mid_col", "i", "j")]
            if not used:
                break
            for v in used:
                src = re.sub(r"\b%s\b" % re.escape(v), "(" + locals_[v].strip() + ")", src)
        e = parse_expr(src, where)
        if name == "det_distance_sq":
            if not (e[0] == "call" and e[1] == "sqrt" and len(e[2]) == 1):
                raise TranslateError("%s: distance is no longer sqrt(..)" % where)
            out[name] = (e, det_q(e[2][0], where))
        else:
            if det_type(e, where) != "int":
                raise TranslateError("%s: right-hand side is not an integer expression" % where)
            out[name] = (e, "(%s)%%Z" % det_z(e, where))
    return out


def generate(repo):
    funcs, skipped = translate_kernels(repo)
    det = translate_det(repo)
    L = []
    L.append("(* GENERATED by translate/kernels.py from include/pops/*_kernel.hpp and")
    L.append("   include/pops/deterministic_kernel.hpp - do not edit; regenerated on every check.")
    L.append("   std::pow(b, e) with a small integer literal e is b ^ e; any other std::pow is")
    L.append("   Rpower b e, which agrees with the C function for b > 0; std::log is ln;")
    L.append("   `if (c) throw` guards are recorded as comments (outside the domain);")
    L.append("   std::tgamma is a function argument. *)")
    L.append("From Coq Require Import Reals ZArith QArith Qround Qabs.")
    L.append("")
    L.append("Module KernelFormulas.")
    L.append("Local Open Scope R_scope.")
    L.append("")
    for kname, _, _ in KERNELS:
        for meth in ("pdf", "icdf"):
            f = funcs.get((kname, meth))
            if f:
                L.append(coq_function(f))
                L.append("")
    for kname, meth, why in skipped:
        L.append("(* not translated (no closed form): %s_%s - %s *)" % (kname, meth, why.replace("*)", "* )")))
    L.append("End KernelFormulas.")
    L.append("")
    L.append("Module DetWindow.")
    L.append("Local Open Scope Q_scope.")
    L.append("")
    sig_dims = "(max_distance east_west_resolution north_south_resolution : Q)"
    L.append("Definition det_number_of_columns %s : Z :=\n  %s." % (sig_dims, det["det_number_of_columns"][1]))
    L.append("Definition det_number_of_rows %s : Z :=\n  %s." % (sig_dims, det["det_number_of_rows"][1]))
    sig_mid = "(number_of_rows number_of_columns : Z)"
    L.append("Definition det_mid_row %s : Z :=\n  %s." % (sig_mid, det["det_mid_row"][1]))
    L.append("Definition det_mid_col %s : Z :=\n  %s." % (sig_mid, det["det_mid_col"][1]))
    L.append("(* the argument of std::sqrt in `distance_to_center` *)")
    L.append("Definition det_distance_sq (mid_row mid_col i j : Z) (east_west_resolution north_south_resolution : Q) : Q :=\n  %s."
             % det["det_distance_sq"][1])
    L.append("End DetWindow.")
    return "\n".join(L) + "\n", funcs, skipped, det


def eval_function(f, params, x, tgamma=None):
    env = dict(params)
    env[f.arg] = x
    return eval_expr(f.tree, env)


def main(argv):
    if len(argv) != 3:
        print("usage: kernels.py <repo> <coq theories dir>")
        return 2
    repo, outdir = argv[1], argv[2]
    try:
        text, funcs, skipped, det = generate(repo)
    except TranslateError as e:
        print("translate/kernels.py: cannot translate: %s" % e)
        return 1
    path = os.path.join(outdir, "GeneratedKernels.v")
    old = None
    if os.path.exists(path):
        old = open(path).read()
    if old != text:
        tmp = path + ".tmp%d" % os.getpid()
        with open(tmp, "w") as fh:
            fh.write(text)
        os.replace(tmp, path)
    return 0


if __name__ == "__main__":
    sys.exit(main(sys.argv))
