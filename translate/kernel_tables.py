#!/usr/bin/env python3
"""kernel_tables.py <repo> <coq/theories dir>

Regenerates GeneratedKernelTables.v (kernels engine, property C13) from the
headers of pops-core as they are NOW:

  kernel_types.hpp        enum DispersalKernelType, kernel_type_from_string
  utils.hpp               enum Direction (degrees)
  radial_kernel.hpp       direction_from_string, member kernels and their
                          constructor arguments, the type -> member dispatch of
                          operator(), the two offset statements, the von Mises
                          constructor arguments
  von_mises_distribution.hpp  the assignments of the sampler
  <ten>_kernel.hpp        constructor initialiser list (which expression goes
                          to which std distribution parameter), random(), pdf(),
                          closed-form icdf() of the kernels sampled by icdf(U)
  neighbor_kernel.hpp     offset table
  uniform_kernel.hpp      distribution bounds, operator()
  natural_anthropogenic_kernel.hpp  decision expression, streams, Bernoulli parameter
  natural_kernel.hpp / anthropogenic_kernel.hpp / model.hpp   constructor call sites
  switch_kernel.hpp       SwitchDispersalKernel: constructor, the operator() if-chain (ordered
                          decision table), is_cell_eligible, supports_kernel
  {radial,deterministic,uniform,neighbor,network}_kernel.hpp   is_cell_eligible, supports_kernel
  kernel_base.hpp         DynamicWrapperKernel forwards is_cell_eligible / operator()
  kernel.hpp              create_dynamic_kernel: arguments of the mix constructor

C++ is tokenised (layout and comments do not matter) and expressions are parsed
with a small precedence parser.  Anything that no longer has the expected form
raises Unparsed: the script prints the region and exits 1, which vcommon
reports as a broken tie (never as a pass).
"""
import os
import re
import sys
from fractions import Fraction


class Unparsed(Exception):
    pass


# --------------------------------------------------------------------------
# tokeniser
# --------------------------------------------------------------------------
TOKEN = re.compile(r"""
    (?P<ws>\s+)
  | (?P<lc>//[^\n]*)
  | (?P<bc>/\*.*?\*/)
  | (?P<pp>\#[^\n]*)
  | (?P<str>"(?:[^"\\]|\\.)*")
  | (?P<num>(?:\d+\.\d*|\.\d+|\d+)(?:[eE][+-]?\d+)?[fFlLuU]*)
  | (?P<id>[A-Za-z_][A-Za-z_0-9]*)
  | (?P<op>::|->|\+\+|--|\+=|-=|\*=|/=|<<|>>|<=|>=|==|!=|&&|\|\||[-+*/%<>=!&|^~?:;,.(){}\[\]])
""", re.X | re.S)


def tokenize(text, where):
    toks = []
    pos = 0
    while pos < len(text):
        m = TOKEN.match(text, pos)
        if not m:
            raise Unparsed("%s: cannot tokenise at: %r" % (where, text[pos:pos + 40]))
        pos = m.end()
        k = m.lastgroup
        if k in ("ws", "lc", "bc", "pp"):
            continue
        toks.append((k, m.group(k)))
    return toks


def show(toks, n=40):
    return " ".join(t[1] for t in toks[:n])


def match_close(toks, i, open_="{", close="}"):
    """toks[i] is open_; returns index of the matching close."""
    if toks[i][1] != open_:
        raise Unparsed("expected %s at: %s" % (open_, show(toks[i:])))
    depth = 0
    j = i
    while j < len(toks):
        if toks[j][1] == open_:
            depth += 1
        elif toks[j][1] == close:
            depth -= 1
            if depth == 0:
                return j
        j += 1
    raise Unparsed("unbalanced %s at: %s" % (open_, show(toks[i:])))


def find_seq(toks, seq, start=0):
    n = len(seq)
    for i in range(start, len(toks) - n + 1):
        if all(toks[i + k][1] == seq[k] for k in range(n)):
            return i
    return -1


def split_top(toks, sep=","):
    """Splits a token list at top-level separators (outside (), {}, [], <> of casts)."""
    parts = []
    cur = []
    depth = 0
    for t in toks:
        if t[1] in "({[":
            depth += 1
        elif t[1] in ")}]":
            depth -= 1
        if t[1] == sep and depth == 0:
            parts.append(cur)
            cur = []
        else:
            cur.append(t)
    if cur or parts:
        parts.append(cur)
    return parts


# --------------------------------------------------------------------------
# expressions
# --------------------------------------------------------------------------
# AST: ("num", Fraction, is_int) ("str", s) ("var", name) ("call", fname, [args])
#      ("un", op, e) ("bin", op, a, b) ("cond", c, a, b) ("cast", type, e)
BINPREC = [("||",), ("&&",), ("==", "!="), ("<", "<=", ">", ">="), ("+", "-"), ("*", "/", "%")]


class Parser:
    def __init__(self, toks, where):
        self.t = toks
        self.i = 0
        self.where = where

    def peek(self, k=0):
        return self.t[self.i + k][1] if self.i + k < len(self.t) else None

    def kind(self):
        return self.t[self.i][0] if self.i < len(self.t) else None

    def eat(self, s=None):
        if self.i >= len(self.t):
            raise Unparsed("%s: unexpected end of expression: %s" % (self.where, show(self.t)))
        tok = self.t[self.i]
        if s is not None and tok[1] != s:
            raise Unparsed("%s: expected '%s' at: %s" % (self.where, s, show(self.t[self.i:])))
        self.i += 1
        return tok

    def parse_all(self):
        e = self.ternary()
        if self.i != len(self.t):
            raise Unparsed("%s: trailing tokens in expression: %s" % (self.where, show(self.t[self.i:])))
        return e

    def ternary(self):
        c = self.binary(0)
        if self.peek() == "?":
            self.eat("?")
            a = self.ternary()
            self.eat(":")
            b = self.ternary()
            return ("cond", c, a, b)
        return c

    def binary(self, lvl):
        if lvl == len(BINPREC):
            return self.unary()
        a = self.binary(lvl + 1)
        while self.peek() in BINPREC[lvl]:
            op = self.eat()[1]
            b = self.binary(lvl + 1)
            a = ("bin", op, a, b)
        return a

    def unary(self):
        p = self.peek()
        if p in ("-", "+", "!"):
            self.eat()
            e = self.unary()
            return e if p == "+" else ("un", p, e)
        return self.postfix()

    def name(self):
        parts = [self.eat()[1]]
        while self.peek() == "::":
            self.eat()
            parts.append(self.eat()[1])
        return "::".join(parts)

    def postfix(self):
        k = self.kind()
        if k == "num":
            s = self.eat()[1]
            body = s.rstrip("fFlLuU")
            is_int = re.fullmatch(r"\d+", body) is not None
            return ("num", Fraction(body), is_int)
        if k == "str":
            return ("str", self.eat()[1][1:-1])
        if self.peek() == "(":
            self.eat("(")
            e = self.ternary()
            self.eat(")")
            return self.suffixes(e)
        if k == "id":
            nm = self.name()
            if nm == "static_cast":
                self.eat("<")
                ty = self.name()
                self.eat(">")
                self.eat("(")
                e = self.ternary()
                self.eat(")")
                return self.suffixes(("cast", ty, e))
            return self.suffixes(("var", nm))
        raise Unparsed("%s: cannot parse expression at: %s" % (self.where, show(self.t[self.i:])))

    def args(self):
        self.eat("(")
        out = []
        if self.peek() != ")":
            out.append(self.ternary())
            while self.peek() == ",":
                self.eat(",")
                out.append(self.ternary())
        self.eat(")")
        return out

    def suffixes(self, e):
        while True:
            p = self.peek()
            if p == "(":
                a = self.args()
                if e[0] != "var":
                    raise Unparsed("%s: call of a non-name" % self.where)
                e = ("call", e[1], a)
            elif p in (".", "->"):
                self.eat()
                m = self.eat()[1]
                if e[0] != "var":
                    raise Unparsed("%s: member access on a non-name" % self.where)
                e = ("var", e[1] + p + m)
            else:
                return e


def parse_expr(toks, where):
    return Parser(list(toks), where).parse_all()


# ---- emission over R ----
def frac_R(q):
    if q.denominator == 1:
        return str(q.numerator)
    return "(%d / %d)" % (q.numerator, q.denominator)


REAL_FUNS = {"exp": "exp", "log": "ln", "tan": "tan", "cos": "cos", "sin": "sin", "cosh": "cosh",
             "sqrt": "sqrt", "acos": "acos", "std::sqrt": "sqrt", "std::exp": "exp", "std::log": "ln",
             "std::abs": "Rabs", "abs": "Rabs", "std::cos": "cos", "std::sin": "sin"}


def emit_R(e, env, where):
    """env: C++ name -> Coq term.  Unknown names are an error."""
    k = e[0]
    if k == "num":
        return frac_R(e[1])
    if k == "var":
        if e[1] in ("M_PI", "PI"):
            return "PI"
        if e[1] in env:
            return env[e[1]]
        raise Unparsed("%s: unknown name '%s' in real expression" % (where, e[1]))
    if k == "un" and e[1] == "-":
        return "(- %s)" % emit_R(e[2], env, where)
    if k == "bin" and e[1] in "+-*/":
        if e[1] == "/" and e[2][0] == "num" and e[3][0] == "num" and e[2][2] and e[3][2]:
            raise Unparsed("%s: integer division of literals" % where)
        return "(%s %s %s)" % (emit_R(e[2], env, where), e[1], emit_R(e[3], env, where))
    if k == "call":
        f, a = e[1], e[2]
        if f in ("pow", "std::pow") and len(a) == 2:
            if a[1][0] == "num" and a[1][2]:
                return "(%s ^ %d)" % (emit_R(a[0], env, where), a[1][1].numerator)
            return "(Rpower %s %s)" % (emit_R(a[0], env, where), emit_R(a[1], env, where))
        if f in ("std::tgamma", "tgamma") and len(a) == 1:
            if "tgamma" not in env:
                raise Unparsed("%s: tgamma not expected here" % where)
            return "(%s %s)" % (env["tgamma"], emit_R(a[0], env, where))
        if f == "fmod" and len(a) == 2:
            return "(Rfmod %s %s)" % (emit_R(a[0], env, where), emit_R(a[1], env, where))
        if f in REAL_FUNS and len(a) == 1:
            return "(%s %s)" % (REAL_FUNS[f], emit_R(a[0], env, where))
        if f in env and callable(env[f]):
            return env[f](a)
    if k == "cond":
        return "(if %s then %s else %s)" % (emit_B(e[1], env, where), emit_R(e[2], env, where), emit_R(e[3], env, where))
    raise Unparsed("%s: unsupported real expression %r" % (where, e))


def emit_B(e, env, where):
    """boolean over real comparisons"""
    k = e[0]
    if k == "bin" and e[1] in ("||", "&&"):
        return "(%s %s %s)" % (emit_B(e[2], env, where), e[1], emit_B(e[3], env, where))
    if k == "un" and e[1] == "!":
        return "(negb %s)" % emit_B(e[2], env, where)
    if k == "bin" and e[1] in ("==", "<", "<=", ">", ">=", "!="):
        a, b = emit_R(e[2], env, where), emit_R(e[3], env, where)
        op = e[1]
        if op == "==":
            return "(Rb_eq %s %s)" % (a, b)
        if op == "!=":
            return "(negb (Rb_eq %s %s))" % (a, b)
        if op == "<":
            return "(Rb_lt %s %s)" % (a, b)
        if op == "<=":
            return "(Rb_le %s %s)" % (a, b)
        if op == ">":
            return "(Rb_lt %s %s)" % (b, a)
        if op == ">=":
            return "(Rb_le %s %s)" % (b, a)
    if k == "var" and e[1] in env:
        return env[e[1]]
    raise Unparsed("%s: unsupported boolean expression %r" % (where, e))


# ---- emission over Z ----
def emit_Z(e, env, where):
    k = e[0]
    if k == "num" and e[2]:
        return str(e[1].numerator)
    if k == "var" and e[1] in env:
        return env[e[1]]
    if k == "un" and e[1] == "-":
        return "(- %s)" % emit_Z(e[2], env, where)
    if k == "bin" and e[1] in "+-*":
        return "(%s %s %s)" % (emit_Z(e[2], env, where), e[1], emit_Z(e[3], env, where))
    if k == "cond":
        return "(if %s then %s else %s)" % (emit_ZB(e[1], env, where), emit_Z(e[2], env, where), emit_Z(e[3], env, where))
    if k == "call" and e[1] in ("std::max", "std::min") and len(e[2]) == 2:
        return "(Z.%s %s %s)" % (e[1][5:], emit_Z(e[2][0], env, where), emit_Z(e[2][1], env, where))
    raise Unparsed("%s: unsupported integer expression %r" % (where, e))


def emit_ZB(e, env, where):
    if e[0] == "bin" and e[1] in ("<", "<=", ">", ">=", "==", "!="):
        a, b = emit_Z(e[2], env, where), emit_Z(e[3], env, where)
        return {"<": "(%s <? %s)", "<=": "(%s <=? %s)", ">": "(%s >? %s)", ">=": "(%s >=? %s)",
                "==": "(%s =? %s)", "!=": "(negb (%s =? %s))"}[e[1]] % (a, b)
    if e[0] == "bin" and e[1] in ("||", "&&"):
        return "(%s %s %s)" % (emit_ZB(e[2], env, where), e[1], emit_ZB(e[3], env, where))
    raise Unparsed("%s: unsupported integer condition %r" % (where, e))


# --------------------------------------------------------------------------
# C++ structure helpers
# --------------------------------------------------------------------------
def header_tokens(repo, name):
    p = os.path.join(repo, "include", "pops", name)
    try:
        txt = open(p).read()
    except OSError as ex:
        raise Unparsed("%s: cannot read (%s)" % (name, ex))
    return tokenize(txt, name)


def class_body(toks, cname, where):
    i = 0
    while True:
        i = find_seq(toks, ["class", cname], i)
        if i < 0:
            raise Unparsed("%s: class %s not found" % (where, cname))
        j = i + 2
        while j < len(toks) and toks[j][1] not in ("{", ";"):
            j += 1
        if j < len(toks) and toks[j][1] == "{":
            return toks[j + 1:match_close(toks, j)]
        i += 1


def enum_body(toks, ename, where):
    i = find_seq(toks, ["enum", "class", ename])
    if i < 0:
        raise Unparsed("%s: enum class %s not found" % (where, ename))
    j = i + 3
    if toks[j][1] != "{":
        raise Unparsed("%s: enum class %s has an unexpected form" % (where, ename))
    body = toks[j + 1:match_close(toks, j)]
    out = []
    nxt = 0
    for part in split_top(body):
        if not part:
            continue
        name = part[0][1]
        if len(part) == 1:
            val = nxt
        elif part[1][1] == "=":
            e = parse_expr(part[2:], where + " enum " + ename)
            if e[0] == "num" and e[2]:
                val = e[1].numerator
            elif e[0] == "un" and e[2][0] == "num":
                val = -e[2][1].numerator
            else:
                raise Unparsed("%s: enumerator %s has a non-literal value" % (where, name))
        else:
            raise Unparsed("%s: enumerator %s: %s" % (where, name, show(part)))
        out.append((name, val))
        nxt = val + 1
    return out


def top_level_items(body):
    """Splits a class body into top-level chunks ending with ';' or a '{...}' block."""
    items = []
    cur = []
    i = 0
    while i < len(body):
        t = body[i]
        if t[1] == "{":
            j = match_close(body, i)
            cur += body[i:j + 1]
            i = j + 1
            # a function body ends the item (a following ';' is tolerated)
            if i < len(body) and body[i][1] == ";":
                i += 1
            items.append(cur)
            cur = []
            continue
        if t[1] == "(":
            j = match_close(body, i, "(", ")")
            cur += body[i:j + 1]
            i = j + 1
            continue
        cur.append(t)
        i += 1
        if t[1] == ";":
            items.append(cur)
            cur = []
        elif t[1] == ":" and len(cur) == 2 and cur[0][1] in ("public", "protected", "private"):
            cur = []
    return items


def member_decls(body):
    """[(type string, name)] for data members `T name;` in declaration order."""
    out = []
    for it in top_level_items(body):
        if it[-1][1] != ";" or any(t[1] in ("(", "{") for t in it):
            continue
        if it[0][1] in ("using", "typedef", "friend", "static"):
            continue
        toks = it[:-1]
        if len(toks) >= 2 and toks[-1][0] == "id":
            out.append(("".join(t[1] for t in toks[:-1]), toks[-1][1]))
    return out


def find_function(body, fname, where, ctor=False):
    """Finds `fname ( params ) [const] [: inits] { body }` in a class body (or at
    namespace level).  Returns (params tokens, init tokens or None, body tokens)."""
    i = 0
    while True:
        i = find_seq(body, [fname, "("], i)
        if i < 0:
            raise Unparsed("%s: function %s not found" % (where, fname))
        if i > 0 and body[i - 1][1] in (".", "->", "::", "new", "return", "=", "(", ",", "<"):
            i += 1
            continue
        j = match_close(body, i + 1, "(", ")")
        k = j + 1
        while k < len(body) and body[k][1] in ("const", "override", "noexcept"):
            k += 1
        if k < len(body) and body[k][1] == "{":
            e = match_close(body, k)
            return body[i + 2:j], None, body[k + 1:e]
        if k < len(body) and body[k][1] == ":" and ctor:
            m = k + 1
            # initialiser list: name ( ... ) , name ( ... ) ... {
            while m < len(body) and body[m][1] != "{":
                if body[m][1] == "(":
                    m = match_close(body, m, "(", ")")
                m += 1
            e = match_close(body, m)
            return body[i + 2:j], body[k + 1:m], body[m + 1:e]
        i += 1


def param_names(ptoks):
    out = []
    for p in split_top(ptoks):
        if not p:
            continue
        # drop default argument
        q = []
        for t in p:
            if t[1] == "=":
                break
            q.append(t)
        out.append(q[-1][1])
    return out


def init_list(itoks, where):
    """[(member, [arg token lists])]"""
    out = []
    for part in split_top(itoks):
        if not part:
            continue
        if part[0][0] != "id" or part[1][1] != "(" or part[-1][1] != ")":
            raise Unparsed("%s: initialiser has an unexpected form: %s" % (where, show(part)))
        out.append((part[0][1], [a for a in split_top(part[2:-1]) if a]))
    return out


def statements(body):
    """Splits a function body into statements: ('if', cond, then_stmts, else_stmts|None),
    ('while', cond, stmts), ('switch', e, body), ('simple', tokens)."""
    out = []
    i = 0
    while i < len(body):
        t = body[i][1]
        if t in ("if", "while", "switch"):
            j = match_close(body, i + 1, "(", ")")
            cond = body[i + 2:j]
            blk, nxt = block_or_stmt(body, j + 1)
            if t == "if":
                els = None
                if nxt < len(body) and body[nxt][1] == "else":
                    els, nxt = block_or_stmt(body, nxt + 1)
                out.append(("if", cond, blk, els))
            elif t == "while":
                out.append(("while", cond, blk))
            else:
                # fourth component: the raw tokens of the switch body (case labels intact)
                raw = body[j + 2:match_close(body, j + 1)] if body[j + 1][1] == "{" else None
                out.append(("switch", cond, blk, raw))
            i = nxt
        elif t == "{":
            j = match_close(body, i)
            out += statements(body[i + 1:j])
            i = j + 1
        else:
            j = i
            depth = 0
            while j < len(body):
                if body[j][1] in "({[":
                    depth += 1
                elif body[j][1] in ")}]":
                    depth -= 1
                elif body[j][1] == ";" and depth == 0:
                    break
                j += 1
            out.append(("simple", body[i:j]))
            i = j + 1
    return out


def block_or_stmt(body, i):
    if body[i][1] == "{":
        j = match_close(body, i)
        return statements(body[i + 1:j]), j + 1
    if body[i][1] == "if":
        # else-if chain: parse one if statement
        sub = statements_one_if(body, i)
        return [sub[0]], sub[1]
    j = i
    depth = 0
    while j < len(body):
        if body[j][1] in "({[":
            depth += 1
        elif body[j][1] in ")}]":
            depth -= 1
        elif body[j][1] == ";" and depth == 0:
            break
        j += 1
    return [("simple", body[i:j])], j + 1


def statements_one_if(body, i):
    j = match_close(body, i + 1, "(", ")")
    cond = body[i + 2:j]
    blk, nxt = block_or_stmt(body, j + 1)
    els = None
    if nxt < len(body) and body[nxt][1] == "else":
        els, nxt = block_or_stmt(body, nxt + 1)
    return ("if", cond, blk, els), nxt


def is_throw(stmts):
    return len(stmts) == 1 and stmts[0][0] == "simple" and stmts[0][1] and stmts[0][1][0][1] == "throw"


def throw_kind(stmts, where):
    if not is_throw(stmts):
        raise Unparsed("%s: expected a throw statement" % where)
    toks = stmts[0][1]
    nm = "".join(t[1] for t in toks[1:4])
    table = {"std::invalid_argument": "InvalidArgument", "std::out_of_range": "OutOfRange",
             "std::logic_error": "LogicError", "std::runtime_error": "RuntimeError"}
    if nm not in table:
        raise Unparsed("%s: throws an unexpected exception type %s" % (where, nm))
    return table[nm]


def real_function_body(stmts, env, where, ignore_decl_types=("double", "float")):
    """Straight-line real function: guards that throw are dropped (domain
    restrictions), `if (c) return a;` becomes a conditional, assignments and
    declarations become lets.  Returns a Coq term."""
    if not stmts:
        raise Unparsed("%s: function falls off its end" % where)
    s = stmts[0]
    rest = stmts[1:]
    if s[0] == "if":
        if is_throw(s[2]) and s[3] is None:
            return real_function_body(rest, env, where)
        if is_throw(s[2]) and s[3] is not None:
            return real_function_body(s[3] + rest, env, where)
        cond = emit_B(parse_expr(s[1], where), env, where)
        a = real_function_body(s[2], env, where)
        b = real_function_body((s[3] or []) + rest, env, where)
        return "(if %s then %s else %s)" % (cond, a, b)
    if s[0] == "simple":
        toks = s[1]
        if toks and toks[0][1] == "return":
            return emit_R(parse_expr(toks[1:], where), env, where)
        while toks and toks[0][1] in tuple(ignore_decl_types) + ("const",):
            toks = toks[1:]
        # v op= e;  is  v = v op (e);
        if len(toks) >= 3 and toks[0][0] == "id" and toks[1][1] in ("+=", "-=", "*=", "/="):
            name = toks[0][1]
            val = emit_R(("bin", toks[1][1][0], ("var", name), parse_expr(toks[2:], where)), env, where)
            env2 = dict(env)
            env2[name] = name
            return "(let %s := %s in %s)" % (name, val, real_function_body(rest, env2, where))
        if len(toks) >= 3 and toks[0][0] == "id" and toks[1][1] == "=":
            name = toks[0][1]
            val = emit_R(parse_expr(toks[2:], where), env, where)
            env2 = dict(env)
            env2[name] = name
            return "(let %s := %s in %s)" % (name, val, real_function_body(rest, env2, where))
    raise Unparsed("%s: unsupported statement: %s" % (where, show(s[1] if s[0] == "simple" else s[1])))


# --------------------------------------------------------------------------
# regions
# --------------------------------------------------------------------------
KERNEL_ENUM = ["Cauchy", "Exponential", "Uniform", "DeterministicNeighbor", "PowerLaw", "HyperbolicSecant",
               "Gamma", "ExponentialPower", "Weibull", "Normal", "LogNormal", "Logistic", "Network", "None"]
DIRECTION_ENUM = ["N", "NE", "E", "SE", "S", "SW", "W", "NW", "None"]


def coq_string(s):
    if '"' in s or "\\" in s:
        raise Unparsed("string literal with quote/backslash: %r" % s)
    return '"%s"' % s


def find_call_operator(body, where):
    i = find_seq(body, ["operator", "(", ")", "("])
    if i < 0:
        raise Unparsed("%s: operator() not found" % where)
    j = match_close(body, i + 3, "(", ")")
    k = j + 1
    while body[k][1] in ("const", "override"):
        k += 1
    e = match_close(body, k)
    return body[i + 4:j], body[k + 1:e]


def flatten(e, op):
    if e[0] == "bin" and e[1] == op:
        return flatten(e[2], op) + flatten(e[3], op)
    return [e]


def region_kernel_names(repo, out):
    where = "kernel_types.hpp"
    toks = header_tokens(repo, where)
    en = enum_body(toks, "DispersalKernelType", where)
    if [n for n, _ in en] != KERNEL_ENUM or [v for _, v in en] != list(range(len(KERNEL_ENUM))):
        raise Unparsed("%s: enum DispersalKernelType is %s; the model (KernelTypesDefs.v kernel_type) has %s"
                       % (where, en, KERNEL_ENUM))
    # the std::string overload
    i = find_seq(toks, ["kernel_type_from_string", "(", "const", "std", "::", "string"])
    if i < 0:
        raise Unparsed("%s: kernel_type_from_string(const std::string&) not found" % where)
    j = match_close(toks, i + 1, "(", ")")
    pname = toks[j - 1][1]
    e = match_close(toks, j + 1)
    st = statements(toks[j + 2:e])
    if len(st) != 1 or st[0][0] != "if":
        raise Unparsed("%s: kernel_type_from_string is not a single if/else chain" % where)
    table = []
    node = st[0]
    unknown = None
    while True:
        cond = parse_expr(node[1], where)
        ret = node[2]
        if len(ret) != 1 or ret[0][0] != "simple" or ret[0][1][0][1] != "return":
            raise Unparsed("%s: branch does not return: %s" % (where, show(node[1])))
        r = parse_expr(ret[0][1][1:], where)
        if r[0] != "var" or not r[1].startswith("DispersalKernelType::") or r[1][21:] not in KERNEL_ENUM:
            raise Unparsed("%s: branch returns %r" % (where, r))
        for d in flatten(cond, "||"):
            if d[0] == "bin" and d[1] == "==" and d[2] == ("var", pname) and d[3][0] == "str":
                table.append((d[3][1], r[1][21:]))
            elif d[0] == "bin" and d[1] == "==" and d[3] == ("var", pname) and d[2][0] == "str":
                table.append((d[2][1], r[1][21:]))
            elif d == ("call", pname + ".empty", []):
                table.append(("", r[1][21:]))
            else:
                raise Unparsed("%s: unsupported test in name chain: %r" % (where, d))
        els = node[3]
        if els is None:
            raise Unparsed("%s: name chain ends without else" % where)
        if len(els) == 1 and els[0][0] == "if":
            node = els[0]
            continue
        unknown = throw_kind(els, where + " final else")
        break
    out.append("(* ---- kernel_types.hpp: kernel_type_from_string (tests in source order) ---- *)")
    out.append("Definition kernel_name_table : list (string * kernel_type) :=\n  [ "
               + ";\n    ".join("(%s, K%s)" % (coq_string(s), k) for s, k in table) + " ].")
    out.append("Definition kernel_name_unknown : err := %s." % unknown)
    out.append("Definition kernel_type_from_string (s : string) : result kernel_type :=\n"
               "  lookup_name kernel_name_table kernel_name_unknown s.")


def region_directions(repo, out):
    where = "utils.hpp"
    toks = header_tokens(repo, where)
    en = enum_body(toks, "Direction", where)
    if [n for n, _ in en] != DIRECTION_ENUM:
        raise Unparsed("%s: enum Direction is %s; the model has %s" % (where, en, DIRECTION_ENUM))
    out.append("(* ---- utils.hpp: enum class Direction (value = static_cast<int>) ---- *)")
    out.append("Definition direction_value (d : direction) : Z :=\n  match d with\n"
               + "\n".join("  | Dir%s => %d" % (n, v) for n, v in en) + "\n  end%Z.")
    where = "radial_kernel.hpp"
    toks = header_tokens(repo, where)
    i = find_seq(toks, ["direction_from_string", "(", "const", "std", "::", "string"])
    if i < 0:
        raise Unparsed("%s: direction_from_string(const std::string&) not found" % where)
    j = match_close(toks, i + 1, "(", ")")
    pname = toks[j - 1][1]
    e = match_close(toks, j + 1)
    body = toks[j + 2:e]
    m = find_seq(body, ["mapping", "{"])
    if m < 0 or "".join(t[1] for t in body[:m]) != "std::map<std::string,Direction>":
        raise Unparsed("%s: direction_from_string: mapping declaration not recognised" % where)
    me = match_close(body, m + 1)
    table = []
    for part in split_top(body[m + 2:me]):
        if not part:
            continue
        if part[0][1] != "{" or part[-1][1] != "}":
            raise Unparsed("%s: mapping entry: %s" % (where, show(part)))
        kv = split_top(part[1:-1])
        k = parse_expr(kv[0], where)
        v = parse_expr(kv[1], where)
        if k[0] != "str" or v[0] != "var" or not v[1].startswith("Direction::") or v[1][11:] not in DIRECTION_ENUM:
            raise Unparsed("%s: mapping entry: %s" % (where, show(part)))
        if k[1] in [s for s, _ in table]:
            raise Unparsed("%s: duplicate key %r in mapping" % (where, k[1]))
        table.append((k[1], v[1][11:]))
    rest = body[me + 1:]
    if rest[0][1] == ";":
        rest = rest[1:]
    want = "try{returnmapping.at(%s);}catch(conststd::out_of_range&){" % pname
    txt = "".join(t[1] for t in rest)
    if not txt.startswith(want):
        raise Unparsed("%s: direction_from_string: lookup is not `try { return mapping.at(%s); } catch (out_of_range)`: %s"
                       % (where, pname, show(rest)))
    c = find_seq(rest, ["catch"])
    cb = match_close(rest, c + 1, "(", ")") + 1
    unknown = throw_kind(statements(rest[cb + 1:match_close(rest, cb)]), where + " catch")
    out.append("(* ---- radial_kernel.hpp: direction_from_string (std::map, exact keys) ---- *)")
    out.append("Definition direction_name_table : list (string * direction) :=\n  [ "
               + ";\n    ".join("(%s, Dir%s)" % (coq_string(s), k) for s, k in table) + " ].")
    out.append("Definition direction_name_unknown : err := %s." % unknown)
    out.append("Definition direction_from_string (s : string) : result direction :=\n"
               "  lookup_name direction_name_table direction_name_unknown s.")


STD_DISTS = {
    "std::cauchy_distribution<double>": ("StdCauchy", 2),
    "std::exponential_distribution<double>": ("StdExponential", 1),
    "std::weibull_distribution<double>": ("StdWeibull", 2),
    "std::normal_distribution<double>": ("StdNormal", 2),
    "std::lognormal_distribution<double>": ("StdLognormal", 2),
    "std::gamma_distribution<double>": ("StdGamma", 2),
    "std::uniform_real_distribution<double>": ("StdUniformReal", 2),
}

# (header, class, prefix, functions to translate besides pdf)
KERNELS = [
    ("cauchy_kernel.hpp", "CauchyKernel", "cauchy", []),
    ("exponential_kernel.hpp", "ExponentialKernel", "exponential", []),
    ("weibull_kernel.hpp", "WeibullKernel", "weibull", []),
    ("normal_kernel.hpp", "NormalKernel", "normal", []),
    ("lognormal_kernel.hpp", "LogNormalKernel", "lognormal", []),
    ("power_law_kernel.hpp", "PowerLawKernel", "power_law", ["icdf"]),
    ("hyperbolic_secant_kernel.hpp", "HyperbolicSecantKernel", "hyperbolic_secant", ["icdf"]),
    ("gamma_kernel.hpp", "GammaKernel", "gamma", []),
    ("exponential_power_kernel.hpp", "ExponentialPowerKernel", "exponential_power", []),
    ("logistic_kernel.hpp", "LogisticKernel", "logistic", ["icdf"]),
]
CLASS_PREFIX = {c: p for _, c, p, _ in KERNELS}


def region_kernel_class(repo, hdr, cname, prefix, extra, out):
    toks = header_tokens(repo, hdr)
    body = class_body(toks, cname, hdr)
    members = member_decls(body)
    mnames = [n for _, n in members]
    params, inits, ctor_body = find_function(body, cname, hdr, ctor=True)
    if inits is None:
        raise Unparsed("%s: constructor of %s has no initialiser list" % (hdr, cname))
    ps = param_names(params)
    il = init_list(inits, hdr)
    # members are initialised in declaration order: require the list to be in that order
    order = [mnames.index(m) for m, _ in il if m in mnames]
    if len(order) != len(il) or order != sorted(order):
        raise Unparsed("%s: initialiser list of %s is not in member declaration order (%s vs %s)"
                       % (hdr, cname, [m for m, _ in il], mnames))
    dist = [(t, n) for t, n in members if t in STD_DISTS]
    if len(dist) != 1:
        raise Unparsed("%s: %s should own exactly one std distribution member, found %s" % (hdr, cname, dist))
    dtype, dname = dist[0]
    env = {p: p for p in ps}
    lets = []
    dargs = None
    for m, args in il:
        if m == dname:
            ctor, ar = STD_DISTS[dtype]
            if len(args) != ar:
                raise Unparsed("%s: %s(%s) expects %d arguments" % (hdr, dname, show(sum(args, [])), ar))
            dargs = [emit_R(parse_expr(a, hdr), env, hdr + " " + dname) for a in args]
        else:
            if len(args) != 1:
                raise Unparsed("%s: member %s initialised with %d arguments" % (hdr, m, len(args)))
            lets.append((m, emit_R(parse_expr(args[0], hdr), env, hdr + " " + m)))
            env[m] = m
    if dargs is None:
        raise Unparsed("%s: %s is not initialised in the constructor" % (hdr, dname))
    uninit = [n for t, n in members if n not in [m for m, _ in il]]
    if uninit:
        raise Unparsed("%s: members %s of %s are not in the initialiser list" % (hdr, uninit, cname))
    letp = "".join("let %s := %s in " % l for l in lets)
    pdecl = " ".join(ps)
    ctor, _ = STD_DISTS[dtype]
    out.append("(* ---- %s: class %s(%s) ---- *)" % (hdr, cname, ", ".join(ps)))
    out.append("Definition %s_dist (%s : R) : std_dist :=\n  %s%s %s." % (prefix, pdecl, letp, ctor, " ".join(dargs)))
    # constructor rejections
    rej = []
    for s in statements(ctor_body):
        if s[0] == "if" and is_throw(s[2]) and s[3] is None:
            throw_kind(s[2], hdr)
            rej.append(emit_B(parse_expr(s[1], hdr), env, hdr + " constructor guard"))
        elif s[0] == "simple" and not s[1]:
            continue
        else:
            raise Unparsed("%s: constructor body of %s has an unexpected statement" % (hdr, cname))
    out.append("Definition %s_rejects (%s : R) : bool :=\n  %s%s." % (prefix, pdecl, letp, " || ".join(rej) if rej else "false"))
    # random()
    _, _, rbody = find_function(body, "random", hdr)
    rs = statements(rbody)
    gen_param = "generator"

    def strip_abs(e):
        if e[0] == "call" and e[1] in ("std::abs", "abs") and len(e[2]) == 1:
            return e[2][0], True
        return e, False
    form = None
    if len(rs) == 1 and rs[0][0] == "simple" and rs[0][1][0][1] == "return":
        e, folded = strip_abs(parse_expr(rs[0][1][1:], hdr))
        if e == ("call", dname, [("var", gen_param)]):
            form = "DrawStd (%s_dist %s) %s" % (prefix, pdecl, "true" if folded else "false")
        elif e == ("call", "icdf", [("call", dname, [("var", gen_param)])]):
            # return icdf(distribution(generator)); - the one-expression spelling of the two-statement form
            form = "DrawIcdf (%s_dist %s) %s" % (prefix, pdecl, "true" if folded else "false")
    elif len(rs) == 2 and rs[0][0] == "simple" and rs[1][0] == "simple" and rs[1][1][0][1] == "return":
        d = rs[0][1]
        if d[0][1] == "double" and d[2][1] == "=":
            v = d[1][1]
            if parse_expr(d[3:], hdr) == ("call", dname, [("var", gen_param)]):
                e, folded = strip_abs(parse_expr(rs[1][1][1:], hdr))
                if e == ("call", "icdf", [("var", v)]):
                    form = "DrawIcdf (%s_dist %s) %s" % (prefix, pdecl, "true" if folded else "false")
    if form is None:
        raise Unparsed("%s: %s::random() has an unexpected form: %s" % (hdr, cname, show(rbody)))
    out.append("Definition %s_random (%s : R) : draw_form :=\n  %s." % (prefix, pdecl, form))
    # pdf and closed-form icdf
    tg = "tgamma" if prefix in ("gamma", "exponential_power") else None
    for fn in ["pdf"] + extra:
        fp, _, fb = find_function(body, fn, hdr)
        fps = param_names(fp)
        if len(fps) != 1:
            raise Unparsed("%s: %s::%s takes %d parameters" % (hdr, cname, fn, len(fps)))
        env2 = dict(env)
        env2[fps[0]] = fps[0]
        if tg:
            env2["tgamma"] = "tgamma"
        term = real_function_body(statements(fb), env2, "%s %s::%s" % (hdr, cname, fn))
        out.append("Definition %s_%s %s(%s : R) (%s : R) : R :=\n  %s%s."
                   % (prefix, fn, "(tgamma : R -> R) " if tg else "", pdecl, fps[0], letp, term))
    return ps


def region_radial(repo, out, ctor_params_of):
    hdr = "radial_kernel.hpp"
    toks = header_tokens(repo, hdr)
    body = class_body(toks, "RadialDispersalKernel", hdr)
    members = member_decls(body)
    params, inits, _ = find_function(body, "RadialDispersalKernel", hdr, ctor=True)
    ps = param_names(params)
    want = ["ew_res", "ns_res", "dispersal_kernel", "distance_scale", "dispersal_direction",
            "dispersal_direction_kappa", "shape"]
    if ps != want:
        raise Unparsed("%s: RadialDispersalKernel constructor parameters are %s, the model expects %s" % (hdr, ps, want))
    il = dict((m, a) for m, a in init_list(inits, hdr))
    mtype = dict((n, t) for t, n in members)
    # resolutions
    res = {}
    for m in ("east_west_resolution", "north_south_resolution"):
        if m not in il or len(il[m]) != 1:
            raise Unparsed("%s: %s is not initialised from one expression" % (hdr, m))
        res[m] = emit_R(parse_expr(il[m][0], hdr), {"ew_res": "ew_res", "ns_res": "ns_res"}, hdr + " " + m)
    out.append("(* ---- radial_kernel.hpp: RadialDispersalKernel(%s) ---- *)" % ", ".join(ps))
    out.append("Definition radial_east_west_resolution (ew_res ns_res : R) : R := %s." % res["east_west_resolution"])
    out.append("Definition radial_north_south_resolution (ew_res ns_res : R) : R := %s." % res["north_south_resolution"])
    # von Mises constructor arguments
    if "von_mises" not in il or len(il["von_mises"]) != 2 or mtype.get("von_mises") != "VonMisesDistribution":
        raise Unparsed("%s: von_mises(mu, kappa) initialiser not found" % hdr)
    mu = parse_expr(il["von_mises"][0], hdr)
    ka = parse_expr(il["von_mises"][1], hdr)

    def mu_emit(e):
        if e == ("cast", "int", ("var", "dispersal_direction")):
            return "(IZR (direction_value dispersal_direction))"
        if e[0] == "bin":
            return "(%s %s %s)" % (mu_emit(e[2]), e[1], mu_emit(e[3]))
        return emit_R(e, {}, hdr + " von_mises mu")
    out.append("Definition radial_vm_mu (dispersal_direction : direction) : R :=\n  %s." % mu_emit(mu))
    if not (ka[0] == "cond" and ka[1] == ("bin", "==", ("var", "dispersal_direction"), ("var", "Direction::None"))):
        raise Unparsed("%s: von_mises kappa argument is not `dispersal_direction == Direction::None ? a : b`" % hdr)
    kenv = {"dispersal_direction_kappa": "dispersal_direction_kappa"}
    out.append("Definition radial_vm_kappa (dispersal_direction : direction) (dispersal_direction_kappa : R) : R :=\n"
               "  if direction_is_none dispersal_direction then %s else %s."
               % (emit_R(ka[2], kenv, hdr), emit_R(ka[3], kenv, hdr)))
    # operator()
    oparams, obody = find_call_operator(body, hdr)
    ops = param_names(oparams)
    if ops != ["generator", "row", "col"]:
        raise Unparsed("%s: operator() parameters are %s" % (hdr, ops))
    st = [s for s in statements(obody)]
    chain = [s for s in st if s[0] == "if"]
    if len(chain) != 1:
        raise Unparsed("%s: operator() should contain one if/else chain over the kernel type" % hdr)
    node = chain[0]
    dispatch = []
    unsupported = None
    while True:
        c = parse_expr(node[1], hdr)
        if not (c[0] == "bin" and c[1] == "==" and c[2] == ("var", "dispersal_kernel_type_")
                and c[3][0] == "var" and c[3][1].startswith("DispersalKernelType::")):
            raise Unparsed("%s: dispatch test: %s" % (hdr, show(node[1])))
        kt = c[3][1][21:]
        if len(node[2]) != 1 or node[2][0][0] != "simple":
            raise Unparsed("%s: dispatch branch for %s" % (hdr, kt))
        a = node[2][0][1]
        if a[0][1] != "distance" or a[1][1] != "=":
            raise Unparsed("%s: dispatch branch for %s does not assign distance" % (hdr, kt))
        e = parse_expr(a[2:], hdr)
        folded = False
        if e[0] == "call" and e[1] in ("std::abs", "abs"):
            e, folded = e[2][0], True
        if not (e[0] == "call" and e[1].endswith(".random") and e[2] == [("var", "generator")]):
            raise Unparsed("%s: dispatch branch for %s: %s" % (hdr, kt, show(a)))
        mem = e[1][:-7]
        if mtype.get(mem) not in CLASS_PREFIX:
            raise Unparsed("%s: member %s has type %s" % (hdr, mem, mtype.get(mem)))
        prefix = CLASS_PREFIX[mtype[mem]]
        if mem not in il:
            raise Unparsed("%s: member %s not initialised" % (hdr, mem))
        cargs = [emit_R(parse_expr(x, hdr), {"distance_scale": "distance_scale", "shape": "shape"}, hdr + " " + mem)
                 for x in il[mem]]
        if len(cargs) != len(ctor_params_of[prefix]):
            raise Unparsed("%s: %s constructed with %d arguments" % (hdr, mem, len(cargs)))
        dispatch.append((kt, prefix, cargs, folded))
        els = node[3]
        if els is None:
            raise Unparsed("%s: dispatch chain ends without else" % hdr)
        if len(els) == 1 and els[0][0] == "if":
            node = els[0]
            continue
        unsupported = throw_kind(els, hdr + " dispatch else")
        break
    if len(set(k for k, _, _, _ in dispatch)) != len(dispatch):
        raise Unparsed("%s: a kernel type is tested twice in the dispatch chain" % hdr)
    out.append("(* operator(): kernel type -> (how the member kernel draws, folded by std::abs in operator()) *)")
    out.append("Definition radial_distance (k : kernel_type) (distance_scale shape : R) : result (draw_form * bool) :=\n  match k with\n"
               + "\n".join("  | K%s => Ok (%s_random %s, %s)" % (kt, p, " ".join(ca), "true" if f else "false")
                           for kt, p, ca, f in dispatch)
               + ("\n  | _ => Err %s\n  end." % unsupported if len(dispatch) < len(KERNEL_ENUM) else "\n  end."))
    out.append("Definition radial_pdf_of (k : kernel_type) (tgamma : R -> R) (distance_scale shape : R) : option (R -> R) :=\n  match k with\n"
               + "\n".join("  | K%s => Some (%s_pdf %s%s)" % (kt, p, "tgamma " if p in ("gamma", "exponential_power") else "", " ".join(ca))
                           for kt, p, ca, f in dispatch)
               + ("\n  | _ => None\n  end." if len(dispatch) < len(KERNEL_ENUM) else "\n  end."))
    # after the chain: theta and the two offset statements
    tail = st[st.index(chain[0]) + 1:]
    simple = [s[1] for s in tail if s[0] == "simple"]
    if len(simple) != 4 or len(tail) != 4:
        raise Unparsed("%s: operator() tail is not `theta = ...; row -= ...; col += ...; return ...;`" % hdr)
    th = parse_expr(simple[0][2:], hdr) if simple[0][0][1] == "theta" and simple[0][1][1] == "=" else None
    if th != ("call", "von_mises", [("var", "generator")]):
        raise Unparsed("%s: theta is not drawn by von_mises(generator)" % hdr)
    env = {"distance": "distance", "theta": "theta", "north_south_resolution": "north_south_resolution",
           "east_west_resolution": "east_west_resolution"}

    def offset(toks, var):
        if toks[0][1] != var or toks[1][1] not in ("-=", "+="):
            raise Unparsed("%s: expected `%s -= / += lround(...)`: %s" % (hdr, var, show(toks)))
        e = parse_expr(toks[2:], hdr)
        if not (e[0] == "call" and e[1] in ("lround", "std::lround") and len(e[2]) == 1):
            raise Unparsed("%s: offset of %s is not an lround(...)" % (hdr, var))
        return "(%s %s Rlround %s)%%Z" % (var, toks[1][1][0], emit_R(e[2][0], env, hdr + " offset"))
    r = offset(simple[1], "row")
    c = offset(simple[2], "col")
    ret = parse_expr(simple[3][1:], hdr) if simple[3][0][1] == "return" else None
    if ret != ("call", "std::make_tuple", [("var", "row"), ("var", "col")]):
        raise Unparsed("%s: operator() does not return std::make_tuple(row, col)" % hdr)
    sig = "(row col : Z) (distance theta north_south_resolution east_west_resolution : R)"
    out.append("Definition radial_row %s : Z :=\n  %s." % (sig, r))
    out.append("Definition radial_col %s : Z :=\n  %s." % (sig, c))


def region_von_mises(repo, out):
    hdr = "von_mises_distribution.hpp"
    toks = header_tokens(repo, hdr)
    body = class_body(toks, "VonMisesDistribution", hdr)
    params, inits, _ = find_function(body, "VonMisesDistribution", hdr, ctor=True)
    ps = param_names(params)
    il = dict(init_list(inits, hdr))
    if ps != ["mu", "kappa"] or "".join(t[1] for t in il.get("mu", [[]])[0]) != "mu" \
            or "".join(t[1] for t in il.get("kappa", [[]])[0]) != "kappa":
        raise Unparsed("%s: constructor is not VonMisesDistribution(mu, kappa) : mu(mu), kappa(kappa)" % hdr)
    d = il.get("distribution")
    if d is None or [emit_R(parse_expr(a, hdr), {}, hdr) for a in d] != ["0", "1"]:
        raise Unparsed("%s: the uniform distribution is not (0.0, 1.0)" % hdr)
    _, obody = find_call_operator(body, hdr)
    st = statements(obody)
    # drop the declaration line
    st = [s for s in st if not (s[0] == "simple" and s[1] and s[1][0][1] == "double" and not any(t[1] == "=" for t in s[1]))]
    kinds = [s[0] for s in st]
    if kinds != ["if", "simple", "simple", "simple", "while", "simple", "if", "simple"]:
        raise Unparsed("%s: operator() has an unexpected statement sequence %s" % (hdr, kinds))

    def uni(name):
        return lambda a: name
    out.append("(* ---- von_mises_distribution.hpp: VonMisesDistribution(mu, kappa)::operator() ---- *)")
    # early return
    s0 = st[0]
    if s0[3] is not None or len(s0[2]) != 1 or s0[2][0][1][0][1] != "return":
        raise Unparsed("%s: first statement is not `if (...) return ...;`" % hdr)
    env = {"mu": "mu", "kappa": "kappa"}
    out.append("Definition vm_is_uniform (kappa : R) : bool := %s." % emit_B(parse_expr(s0[1], hdr), env, hdr))
    e = dict(env)
    e["distribution"] = uni("u")
    out.append("Definition vm_uniform_angle (u : R) : R := %s." % emit_R(parse_expr(s0[2][0][1][1:], hdr), e, hdr))

    def assign(s, name, env):
        t = s[1]
        if s[0] != "simple" or t[0][1] != name or t[1][1] != "=":
            raise Unparsed("%s: expected assignment to %s: %s" % (hdr, name, show(t)))
        return emit_R(parse_expr(t[2:], hdr), env, hdr + " " + name)
    out.append("Definition vm_a (kappa : R) : R := %s." % assign(st[1], "a", env))
    env["a"] = "a"
    out.append("Definition vm_b (kappa a : R) : R := %s." % assign(st[2], "b", env))
    env["b"] = "b"
    out.append("Definition vm_r (kappa a b : R) : R := %s." % assign(st[3], "r", env))
    env["r"] = "r"
    w = st[4]
    if "".join(t[1] for t in w[1]) != "true":
        raise Unparsed("%s: the rejection loop is not while (true)" % hdr)
    ws = w[2]
    if [s[0] for s in ws] != ["simple"] * 5 + ["if"]:
        raise Unparsed("%s: loop body has an unexpected form" % hdr)
    e1 = dict(env)
    e1["distribution"] = uni("?")
    if assign(ws[0], "u1", e1) != "?" or assign(ws[4], "u2", e1) != "?":
        raise Unparsed("%s: u1/u2 are not drawn from distribution(generator)" % hdr)
    env["u1"] = "u1"
    out.append("Definition vm_z (u1 : R) : R := %s." % assign(ws[1], "z", env))
    env["z"] = "z"
    out.append("Definition vm_f (r z : R) : R := %s." % assign(ws[2], "f", env))
    env["f"] = "f"
    out.append("Definition vm_c (kappa r f : R) : R := %s." % assign(ws[3], "c", env))
    env["c"] = "c"
    env["u2"] = "u2"
    br = ws[5]
    if br[3] is not None or len(br[2]) != 1 or "".join(t[1] for t in br[2][0][1]) != "break":
        raise Unparsed("%s: loop exit is not `if (...) break;`" % hdr)
    out.append("Definition vm_accept (c u2 : R) : bool := %s." % emit_B(parse_expr(br[1], hdr), env, hdr))
    if assign(st[5], "u3", e1) != "?":
        raise Unparsed("%s: u3 is not drawn from distribution(generator)" % hdr)
    env["u3"] = "u3"
    s6 = st[6]
    if s6[3] is None or len(s6[2]) != 1 or len(s6[3]) != 1:
        raise Unparsed("%s: final branch has an unexpected form" % hdr)
    out.append("Definition vm_upper_branch (u3 : R) : bool := %s." % emit_B(parse_expr(s6[1], hdr), env, hdr))
    out.append("Definition vm_theta_upper (mu f : R) : R := %s." % assign(s6[2][0], "theta", env))
    out.append("Definition vm_theta_lower (mu f : R) : R := %s." % assign(s6[3][0], "theta", env))
    if "".join(t[1] for t in st[7][1]) != "returntheta":
        raise Unparsed("%s: operator() does not return theta" % hdr)


def region_neighbor(repo, out):
    hdr = "neighbor_kernel.hpp"
    toks = header_tokens(repo, hdr)
    body = class_body(toks, "DeterministicNeighborDispersalKernel", hdr)
    params, inits, _ = find_function(body, "DeterministicNeighborDispersalKernel", hdr, ctor=True)
    il = init_list(inits, hdr)
    if param_names(params) != ["dispersal_direction"] or len(il) != 1 or il[0][0] != "direction_" \
            or "".join(t[1] for t in il[0][1][0]) != "dispersal_direction":
        raise Unparsed("%s: constructor does not store its direction argument in direction_" % hdr)
    _, obody = find_call_operator(body, hdr)
    st = statements(obody)
    sw = [s for s in st if s[0] == "switch"]
    if len(sw) != 1 or "".join(t[1] for t in sw[0][1]) != "direction_":
        raise Unparsed("%s: operator() is not a switch over direction_" % hdr)
    i0 = find_seq(obody, ["switch"])
    j0 = match_close(obody, i0 + 1, "(", ")")
    sb = obody[j0 + 2:match_close(obody, j0 + 1)]
    # split the switch body into labelled groups
    groups = []
    i = 0
    cur = None
    while i < len(sb):
        if sb[i][1] == "case":
            j = i + 1
            while sb[j][1] != ":" or sb[j + 1][1] == ":" or sb[j - 1][1] == ":":
                j += 1
            lab = "".join(t[1] for t in sb[i + 1:j])
            cur = [[lab], []]
            groups.append(cur)
            i = j + 1
        elif sb[i][1] == "default":
            cur = [["default"], []]
            groups.append(cur)
            i += 2
        else:
            cur[1].append(sb[i])
            i += 1
    table = {}
    default = None
    for labs, toks_ in groups:
        lab = labs[0]
        ss = statements(toks_)
        if lab == "default":
            default = throw_kind(ss, hdr + " default")
            continue
        if not lab.startswith("Direction::") or lab[11:] not in DIRECTION_ENUM:
            raise Unparsed("%s: case label %s" % (hdr, lab))
        dr, dc = 0, 0
        if not ss or "".join(t[1] for t in ss[-1][1]) != "break":
            raise Unparsed("%s: case %s falls through" % (hdr, lab))
        for s in ss[:-1]:
            t = s[1]
            if s[0] != "simple" or len(t) != 3 or t[0][1] not in ("row", "col") or t[1][1] not in ("+=", "-=") or t[2][0] != "num":
                raise Unparsed("%s: case %s: unexpected statement %s" % (hdr, lab, show(t)))
            v = int(t[2][1]) * (1 if t[1][1] == "+=" else -1)
            if t[0][1] == "row":
                dr += v
            else:
                dc += v
        if lab[11:] in table:
            raise Unparsed("%s: duplicate case %s" % (hdr, lab))
        table[lab[11:]] = (dr, dc)
    if default is None:
        raise Unparsed("%s: switch has no default" % hdr)
    tail = st[st.index(sw[0]) + 1:]
    if len(tail) != 1 or "".join(t[1] for t in tail[0][1]) != "returnstd::make_tuple(row,col)":
        raise Unparsed("%s: operator() does not return std::make_tuple(row, col)" % hdr)
    out.append("(* ---- neighbor_kernel.hpp: DeterministicNeighborDispersalKernel::operator() as (d_row, d_col) ---- *)")
    lines = []
    for d in DIRECTION_ENUM:
        if d in table:
            lines.append("  | Dir%s => Ok (%d, %d)" % (d, table[d][0], table[d][1]))
        else:
            lines.append("  | Dir%s => Err %s" % (d, default))
    out.append("Definition neighbor_offset (d : direction) : result (Z * Z) :=\n  match d with\n" + "\n".join(lines) + "\n  end%Z.")


def region_uniform(repo, out):
    hdr = "uniform_kernel.hpp"
    toks = header_tokens(repo, hdr)
    body = class_body(toks, "UniformDispersalKernel", hdr)
    members = dict((n, t) for t, n in member_decls(body))
    params, inits, _ = find_function(body, "UniformDispersalKernel", hdr, ctor=True)
    ps = param_names(params)
    if len(ps) != 2:
        raise Unparsed("%s: constructor takes %s" % (hdr, ps))
    il = dict(init_list(inits, hdr))
    env = {p: p for p in ps}
    for m in ("row_distribution", "col_distribution"):
        if members.get(m) != "std::uniform_int_distribution<>" or m not in il or len(il[m]) != 2:
            raise Unparsed("%s: %s is not a std::uniform_int_distribution<> built from (a, b)" % (hdr, m))
    sig = "(%s : Z)" % " ".join(ps)
    out.append("(* ---- uniform_kernel.hpp: UniformDispersalKernel(%s): bounds of the two uniform_int_distributions ---- *)" % ", ".join(ps))
    for m, pre in (("row_distribution", "row"), ("col_distribution", "col")):
        lo = emit_Z(parse_expr(il[m][0], hdr), env, hdr + " " + m)
        hi = emit_Z(parse_expr(il[m][1], hdr), env, hdr + " " + m)
        out.append("Definition uniform_%s_lo %s : Z := %s%%Z." % (pre, sig, lo))
        out.append("Definition uniform_%s_hi %s : Z := %s%%Z." % (pre, sig, hi))
    oparams, obody = find_call_operator(body, hdr)
    if param_names(oparams) != ["generator", "row", "col"]:
        raise Unparsed("%s: operator() parameters" % hdr)
    st = statements(obody)
    val = {"row": "row", "col": "col"}
    draws = {"row_distribution": "k_row", "col_distribution": "k_col"}
    if len(st) != 3:
        raise Unparsed("%s: operator() is not two draws and a return" % hdr)
    for s in st[:2]:
        t = s[1]
        e = parse_expr(t[2:], hdr) if t[0][1] in val and t[1][1] == "=" else None
        if not (e and e[0] == "call" and e[1] in draws and e[2] == [("var", "generator")]):
            raise Unparsed("%s: unexpected statement %s" % (hdr, show(t)))
        val[t[0][1]] = draws[e[1]]
    r = parse_expr(st[2][1][1:], hdr) if st[2][1][0][1] == "return" else None
    if not (r and r[0] == "call" and r[1] == "std::make_tuple" and len(r[2]) == 2 and all(a[0] == "var" and a[1] in val for a in r[2])):
        raise Unparsed("%s: operator() does not return std::make_tuple of its variables" % hdr)
    out.append("(* k_row / k_col: the integers returned by row_distribution / col_distribution *)")
    out.append("Definition uniform_result (k_row k_col row col : Z) : Z * Z := (%s, %s)." % (val[r[2][0][1]], val[r[2][1][1]]))
    # call sites in the library
    sites = []
    cenv = {"config.rows": "rows", "config.cols": "cols", "config_.rows": "rows", "config_.cols": "cols"}
    mt = header_tokens(repo, "model.hpp")
    i = find_seq(mt, ["uniform_kernel", "("])
    while i >= 0 and mt[i - 1][1] not in (",", ":"):
        i = find_seq(mt, ["uniform_kernel", "("], i + 1)
    if i < 0:
        raise Unparsed("model.hpp: uniform_kernel(...) initialiser not found")
    j = match_close(mt, i + 1, "(", ")")
    sites.append(("model", split_top(mt[i + 2:j])))
    for h, tag in (("natural_kernel.hpp", "natural"), ("anthropogenic_kernel.hpp", "anthropogenic")):
        t = header_tokens(repo, h)
        i = find_seq(t, ["DynamicWrapperKernel", "<", "UniformDispersalKernel"])
        if i < 0:
            raise Unparsed("%s: uniform kernel branch not found" % h)
        i = find_seq(t, ["new", "Kernel", "("], i)
        j = match_close(t, i + 2, "(", ")")
        sites.append((tag, split_top(t[i + 3:j])))
    for tag, args in sites:
        if len(args) != 2:
            raise Unparsed("uniform kernel call site %s has %d arguments" % (tag, len(args)))
        a = [emit_Z(parse_expr(x, tag), cenv, "uniform kernel call site " + tag) for x in args]
        out.append("Definition uniform_args_%s (rows cols : Z) : Z * Z := (%s, %s)%%Z." % (tag, a[0], a[1]))


def region_mix(repo, out):
    hdr = "natural_anthropogenic_kernel.hpp"
    toks = header_tokens(repo, hdr)
    body = class_body(toks, "NaturalAnthropogenicDispersalKernel", hdr)
    params, inits, _ = find_function(body, "NaturalAnthropogenicDispersalKernel", hdr, ctor=True)
    ps = param_names(params)
    want = ["natural_kernel", "anthropogenic_kernel", "use_anthropogenic_kernel", "percent_natural_dispersal"]
    if ps != want:
        raise Unparsed("%s: constructor parameters are %s" % (hdr, ps))
    il = dict(init_list(inits, hdr))
    j = lambda m: "".join(t[1] for a in il.get(m, []) for t in a)
    if j("use_anthropogenic_kernel_") != "use_anthropogenic_kernel" or j("natural_kernel_") != "std::move(natural_kernel)" \
            or j("anthropogenic_kernel_") != "std::move(anthropogenic_kernel)":
        raise Unparsed("%s: constructor does not store its arguments in the members of the same name" % hdr)
    if "bernoulli_distribution" not in il or len(il["bernoulli_distribution"]) != 1:
        raise Unparsed("%s: bernoulli_distribution(p) initialiser not found" % hdr)
    p = emit_R(parse_expr(il["bernoulli_distribution"][0], hdr), {"percent_natural_dispersal": "percent_natural_dispersal"}, hdr)
    out.append("(* ---- natural_anthropogenic_kernel.hpp ---- *)")
    out.append("Definition mix_bernoulli_p (percent_natural_dispersal : R) : R := %s." % p)
    _, obody = find_call_operator(body, hdr)
    st = statements(obody)
    if len(st) != 2 or st[0][0] != "if" or st[0][3] is not None or st[1][0] != "simple":
        raise Unparsed("%s: operator() is not `if (...) return A; return B;`" % hdr)
    cond = parse_expr(st[0][1], hdr)
    streams = {"natural_dispersal": "StreamNatural", "anthropogenic_dispersal": "StreamAnthropogenic"}
    bern_stream = []

    def mb(e):
        if e[0] == "bin" and e[1] in ("||", "&&"):
            return "(%s %s %s)" % (mb(e[2]), e[1], mb(e[3]))
        if e[0] == "un" and e[1] == "!":
            return "(negb %s)" % mb(e[2])
        if e == ("var", "use_anthropogenic_kernel_"):
            return "use_anthropogenic"
        if e == ("call", "anthropogenic_kernel_->is_cell_eligible", [("var", "row"), ("var", "col")]):
            return "eligible"
        if e[0] == "call" and e[1] == "bernoulli_distribution" and len(e[2]) == 1 and e[2][0][0] == "call" \
                and e[2][0][1].startswith("generator.") and e[2][0][1][10:] in streams and e[2][0][2] == []:
            bern_stream.append(streams[e[2][0][1][10:]])
            return "bernoulli"
        raise Unparsed("%s: unsupported term in the kernel choice: %r" % (hdr, e))
    ctext = mb(cond)
    if len(bern_stream) != 1:
        raise Unparsed("%s: the Bernoulli draw should occur exactly once in the choice" % hdr)
    dis = flatten(cond, "||")
    before = []
    found = False
    for d in dis:
        n0 = len(bern_stream)
        t = mb(d)
        if len(bern_stream) > n0:
            found = True
            if t not in ("bernoulli", "(negb bernoulli)"):
                raise Unparsed("%s: Bernoulli draw is nested inside %s" % (hdr, t))
            break
        before.append(t)
    if not found:
        raise Unparsed("%s: Bernoulli draw is not a top-level disjunct" % hdr)
    del bern_stream[1:]
    # the disjuncts evaluated before anthropogenic_kernel_->is_cell_eligible(row, col)
    before_elig = []
    queried = False
    for d in dis:
        n0 = len(bern_stream)
        tt = mb(d)
        del bern_stream[n0:]
        if "eligible" in tt:
            if tt not in ("eligible", "(negb eligible)"):
                raise Unparsed("%s: the eligibility test is nested inside %s" % (hdr, tt))
            queried = True
            break
        if "bernoulli" in tt:
            raise Unparsed("%s: the Bernoulli draw precedes the eligibility test" % hdr)
        before_elig.append(tt)

    def which(toks_):
        if toks_[0][1] != "return":
            raise Unparsed("%s: expected return: %s" % (hdr, show(toks_)))
        tgt = toks_[1][1]
        txt = "".join(t[1] for t in toks_[1:])
        m = re.fullmatch(r"(natural_kernel_|anthropogenic_kernel_)->operator\(\)\(generator\.(\w+)\(\),row,col\)", txt)
        if not m or m.group(2) not in streams:
            raise Unparsed("%s: unexpected kernel call: %s" % (hdr, txt))
        return ("MixNatural" if tgt == "natural_kernel_" else "MixAnthropogenic"), streams[m.group(2)]
    if len(st[0][2]) != 1:
        raise Unparsed("%s: then-branch has several statements" % hdr)
    a, sa = which(st[0][2][0][1])
    b, sb = which(st[1][1])
    sig = "(use_anthropogenic eligible bernoulli : bool)"
    out.append("(* bernoulli: outcome of bernoulli_distribution(generator...) when it is drawn *)")
    out.append("Definition mix_condition %s : bool :=\n  %s." % (sig, ctext))
    out.append("Definition mix_choice_of %s : mix_choice :=\n  if mix_condition use_anthropogenic eligible bernoulli then %s else %s." % (sig, a, b))
    out.append("Definition mix_draws_bernoulli (use_anthropogenic eligible : bool) : bool :=\n  negb (%s)." % (" || ".join(before) if before else "false"))
    out.append("Definition mix_bernoulli_stream : mix_stream := %s." % bern_stream[0])
    out.append("(* whether anthropogenic_kernel_ is dereferenced for is_cell_eligible (|| short-circuits) *)")
    out.append("Definition mix_queries_eligibility (use_anthropogenic : bool) : bool :=\n  %s."
               % (("negb (%s)" % (" || ".join(before_elig) if before_elig else "false")) if queried else "false"))
    out.append("Definition mix_kernel_stream (c : mix_choice) : mix_stream :=\n  match c with %s => %s | %s => %s end."
               % (a, sa, b, sb) if a != b else "Definition mix_kernel_stream (c : mix_choice) : mix_stream := %s." % sa)


def region_factories(repo, out):
    classes = {"UniformDispersalKernel": "CUniform", "DeterministicNeighborDispersalKernel": "CNeighbor",
               "NetworkDispersalKernel": "CNetwork", "DeterministicDispersalKernel": "CDeterministic",
               "RadialDispersalKernel": "CRadial"}
    for h, fn, var, tag in (("natural_kernel.hpp", "create_natural_kernel", "natural_kernel", "natural"),
                            ("anthropogenic_kernel.hpp", "create_anthro_kernel", "anthro_kernel", "anthropogenic")):
        toks = header_tokens(repo, h)
        _, _, body = find_function(toks, fn, h)
        st = statements(body)
        first = st[0][1] if st and st[0][0] == "simple" else []
        if "".join(t[1] for t in first) != "auto%s=kernel_type_from_string(config.%s_kernel_type)" % (var, "natural" if tag == "natural" else "anthro"):
            raise Unparsed("%s: the kernel type is not read with kernel_type_from_string(config...kernel_type)" % h)
        if len(st) != 2 or st[1][0] != "if":
            raise Unparsed("%s: %s is not one if/else chain" % (h, fn))
        node = st[1]
        branches = []
        radial_args = None

        def cls_of(stmts):
            for s in stmts:
                if s[0] == "simple" and s[1] and s[1][0][1] == "using":
                    txt = "".join(t[1] for t in s[1])
                    m = re.match(r"usingKernel=DynamicWrapperKernel<(\w+)", txt)
                    if m and m.group(1) in classes:
                        return m.group(1)
            raise Unparsed("%s: branch does not name its kernel class" % h)
        while True:
            c = parse_expr(node[1], h)
            if c[0] == "bin" and c[1] == "==" and c[2] == ("var", var) and c[3][0] == "var" and c[3][1].startswith("DispersalKernelType::"):
                ctext = "kernel_type_eqb k K%s" % c[3][1][21:]
            elif c == ("un", "!", ("var", "config.dispersal_stochasticity")):
                ctext = "negb stochastic"
            else:
                raise Unparsed("%s: unsupported factory test %s" % (h, show(node[1])))
            branches.append((ctext, classes[cls_of(node[2])]))
            els = node[3]
            if els is None:
                raise Unparsed("%s: factory chain without else" % h)
            if len(els) == 1 and els[0][0] == "if":
                node = els[0]
                continue
            cn = cls_of(els)
            branches.append((None, classes[cn]))
            if cn == "RadialDispersalKernel":
                flat = [t for s in els for t in (s[1] if s[0] == "simple" else [])]
                i = find_seq(flat, ["new", "Kernel", "("])
                radial_args = ["".join(t[1] for t in a) for a in split_top(flat[i + 3:match_close(flat, i + 2, "(", ")")])]
            break
        term = ""
        for ctext, cl in branches:
            if ctext is None:
                term += cl
            else:
                term += "if %s then %s else " % (ctext, cl)
        out.append("(* ---- %s: %s ---- *)" % (h, fn))
        out.append("Definition factory_%s (k : kernel_type) (stochastic : bool) : kernel_class :=\n  %s." % (tag, term))
        if radial_args is None:
            raise Unparsed("%s: the final else does not create a RadialDispersalKernel" % h)
        out.append("(* arguments of the RadialDispersalKernel constructor call, in the order of its parameters\n"
                   "   (ew_res, ns_res, dispersal_kernel, distance_scale, dispersal_direction, dispersal_direction_kappa, shape) *)")
        out.append("Definition factory_%s_radial_args : list string :=\n  [ %s ]." % (tag, "; ".join(coq_string(a) for a in radial_args)))


# --------------------------------------------------------------------------
# SwitchDispersalKernel, eligibility and supports_kernel of the kernel classes,
# DynamicWrapperKernel, create_dynamic_kernel
# --------------------------------------------------------------------------
SWITCH_CLASSES = {"UniformDispersalKernel": "CUniform", "DeterministicNeighborDispersalKernel": "CNeighbor",
                  "NetworkDispersalKernel": "CNetwork", "DeterministicDispersalKernel": "CDeterministic",
                  "RadialDispersalKernel": "CRadial"}
CLASS_HEADERS = [("radial_kernel.hpp", "RadialDispersalKernel"), ("deterministic_kernel.hpp", "DeterministicDispersalKernel"),
                 ("uniform_kernel.hpp", "UniformDispersalKernel"), ("neighbor_kernel.hpp", "DeterministicNeighborDispersalKernel"),
                 ("network_kernel.hpp", "NetworkDispersalKernel")]


def joined(toks):
    return "".join(t[1] for t in toks)


def cond_term(e, tvar, svar, where):
    """A test of an if-chain over the kernel type (variable tvar) and the
    stochasticity flag (variable svar, may be None) as a switch_cond term."""
    k = e[0]
    if k == "bin" and e[1] in ("==", "!="):
        a, b = e[2], e[3]
        if b == ("var", tvar) or (svar and b == ("var", svar)):
            a, b = b, a
        c = None
        if a == ("var", tvar) and b[0] == "var" and b[1].startswith("DispersalKernelType::") and b[1][21:] in KERNEL_ENUM:
            c = "ScType K%s" % b[1][21:]
        elif svar and a == ("var", svar) and b in (("var", "true"), ("var", "false")):
            c = "ScStoch" if b[1] == "true" else "ScNot ScStoch"
        if c is not None:
            return c if e[1] == "==" else "ScNot (%s)" % c
    if k == "var" and svar and e[1] == svar:
        return "ScStoch"
    if k == "var" and e[1] == "true":
        return "ScTrue"
    if k == "var" and e[1] == "false":
        return "ScNot ScTrue"
    if k == "un" and e[1] == "!":
        return "ScNot (%s)" % cond_term(e[2], tvar, svar, where)
    if k == "bin" and e[1] in ("&&", "||"):
        return "%s (%s) (%s)" % ("ScAnd" if e[1] == "&&" else "ScOr", cond_term(e[2], tvar, svar, where),
                                 cond_term(e[3], tvar, svar, where))
    raise Unparsed("%s: test not understood (expected comparisons of %s with DispersalKernelType::X%s): %r"
                   % (where, tvar, " and the flag " + svar if svar else "", e))


def guard_term(guard):
    if not guard:
        return "ScTrue"
    g = guard[0]
    for c in guard[1:]:
        g = "ScAnd (%s) (%s)" % (g, c)
    return g


def strip_labels(toks, where):
    """`case A : case B : default : rest` -> ([A, B, 'default'], rest)"""
    labels = []
    while toks and toks[0][1] in ("case", "default"):
        if toks[0][1] == "default":
            if len(toks) < 2 or toks[1][1] != ":":
                raise Unparsed("%s: default label: %s" % (where, show(toks)))
            labels.append("default")
            toks = toks[2:]
            continue
        j = 1
        while j < len(toks) and toks[j][1] != ":":
            j += 1
        if j >= len(toks):
            raise Unparsed("%s: case label without ':': %s" % (where, show(toks)))
        labels.append(joined(toks[1:j]))
        toks = toks[j + 1:]
    return labels, toks


def decision_entries(stmts, guard, leaf, tvar, svar, where):
    """Flattens a function body that decides by if / else-if chains, early
    returns or a switch over the kernel type into [(guard conjuncts, value)] in
    source order (first match decides) - sound because every then-branch must
    return on all its paths.  Returns (entries, returns_on_all_paths)."""
    entries = []
    stmts = list(stmts)
    while stmts:
        s = stmts.pop(0)
        if s[0] == "simple":
            toks = s[1]
            if not toks or toks[0][1] == "UNUSED":
                continue
            if toks[0][1] == "return":
                entries += leaf(toks[1:], guard)
                return entries, True
            raise Unparsed("%s: statement not understood: %s" % (where, show(toks)))
        if s[0] == "if":
            c = cond_term(parse_expr(s[1], where), tvar, svar, where)
            ents, comp = decision_entries(s[2], guard + [c], leaf, tvar, svar, where)
            if not comp:
                raise Unparsed("%s: the branch of `if (%s)` does not return on all paths" % (where, show(s[1])))
            entries += ents
            if s[3] is not None:
                stmts = list(s[3]) + stmts
            continue
        if s[0] == "switch":
            if joined(s[1]) != tvar:
                raise Unparsed("%s: switch over %s, expected %s" % (where, joined(s[1]), tvar))
            if len(s) < 4 or s[3] is None:
                raise Unparsed("%s: switch without a braced body" % where)
            # split the raw body at the case / default labels of this switch (depth 0)
            groups = []
            raw = s[3]
            i = 0
            depth = 0
            while i < len(raw):
                tk = raw[i][1]
                if depth == 0 and tk in ("case", "default"):
                    labels, rest = strip_labels(raw[i:], where)
                    i = len(raw) - len(rest)
                    if groups and not groups[-1][1]:
                        groups[-1][0].extend(labels)  # case A: case B: share their statements
                    else:
                        groups.append((labels, []))
                    continue
                if not groups:
                    raise Unparsed("%s: statement before the first case label" % where)
                if tk in "({[":
                    depth += 1
                elif tk in ")}]":
                    depth -= 1
                groups[-1][1].append(raw[i])
                i += 1
            groups = [(labels, statements(toks_)) for labels, toks_ in groups]
            default = []
            for labels, body in groups:
                if "default" in labels:
                    if len(labels) > 1:
                        raise Unparsed("%s: default shares its statements with case labels" % where)
                    default = body
                    continue
                cs = []
                for lab in labels:
                    if not lab.startswith("DispersalKernelType::") or lab[21:] not in KERNEL_ENUM:
                        raise Unparsed("%s: case label %s" % (where, lab))
                    cs.append("ScType K%s" % lab[21:])
                c = cs[0]
                for x in cs[1:]:
                    c = "ScOr (%s) (%s)" % (c, x)
                ents, comp = decision_entries(body, guard + [c], leaf, tvar, svar, where)
                if not comp:
                    raise Unparsed("%s: case %s does not return (break / fall through are not understood)" % (where, labels))
                entries += ents
            stmts = list(default) + stmts
            continue
        raise Unparsed("%s: statement kind %s not understood" % (where, s[0]))
    return entries, False


def decision_table(body, leaf, tvar, svar, where):
    ents, comp = decision_entries(statements(body), [], leaf, tvar, svar, where)
    if not comp or not ents or ents[-1][0]:
        raise Unparsed("%s: the function does not end with an unconditional return" % where)
    return [(guard_term(g), v) for g, v in ents[:-1]], ents[-1][1]


def coq_table(entries):
    if not entries:
        return "[]"
    return "[ " + ";\n    ".join("(%s, %s)" % e for e in entries) + " ]"


def bool_leaf_entries(toks, guard, tvar, where, const, other=None):
    """return true / false / <test over the type> / other(text)"""
    txt = joined(toks)
    if txt in ("true", "false"):
        return [(guard, const(txt))]
    if other is not None:
        v = other(txt)
        if v is not None:
            return [(guard, v)]
    try:
        c = cond_term(parse_expr(toks, where), tvar, None, where)
    except Unparsed:
        raise Unparsed("%s: returned value not understood: %s" % (where, show(toks)))
    return [(guard + [c], const("true")), (guard, const("false"))]


def class_supports_table(body, cname, where):
    """supports_kernel(type) of a kernel class: if-chain / `return type == X` /
    static array + std::find."""
    _, _, fb = find_function(body, "supports_kernel", where)
    st = statements(fb)
    if st and st[0][0] == "simple" and st[0][1] and st[0][1][0][1] == "static":
        if len(st) != 3 or any(s[0] != "simple" for s in st):
            raise Unparsed("%s: %s::supports_kernel: expected array, std::find, return" % (where, cname))
        m = re.fullmatch(r"staticconststd::array<DispersalKernelType,(\d+)>(\w+)=\{(.*)\}", joined(st[0][1]))
        if not m:
            raise Unparsed("%s: %s::supports_kernel: array declaration not understood: %s" % (where, cname, show(st[0][1])))
        n, arr, items = int(m.group(1)), m.group(2), [x for x in m.group(3).split(",") if x]
        kinds = []
        for it in items:
            if not it.startswith("DispersalKernelType::") or it[21:] not in KERNEL_ENUM:
                raise Unparsed("%s: %s::supports_kernel: array element %s" % (where, cname, it))
            kinds.append(it[21:])
        if len(kinds) > n:
            raise Unparsed("%s: %s::supports_kernel: more initialisers than elements" % (where, cname))
        kinds += [KERNEL_ENUM[0]] * (n - len(kinds))  # value-initialised elements are enumerator 0
        m2 = re.fullmatch(r"auto(\w+)=std::find\(%s\.c?begin\(\),%s\.c?end\(\),type\)" % (arr, arr), joined(st[1][1]))
        if not m2 or not re.fullmatch(r"return%s!=%s\.c?end\(\)" % (m2.group(1), arr), joined(st[2][1])):
            raise Unparsed("%s: %s::supports_kernel: lookup is not std::find over the whole array" % (where, cname))
        c = None
        for kd in kinds:
            c = "ScType K%s" % kd if c is None else "ScOr (%s) (ScType K%s)" % (c, kd)
        return ([(c, "true")] if c else []), "false"
    leaf = lambda toks, guard: bool_leaf_entries(toks, guard, "type", "%s %s::supports_kernel" % (where, cname), lambda x: x)
    return decision_table(fb, leaf, "type", None, "%s %s::supports_kernel" % (where, cname))


def region_class_eligibility(repo, out):
    rules = {}
    supports = {}
    for hdr, cname in CLASS_HEADERS:
        toks = header_tokens(repo, hdr)
        body = class_body(toks, cname, hdr)
        params, _, fb = find_function(body, "is_cell_eligible", hdr)
        if param_names(params) != ["row", "col"]:
            raise Unparsed("%s: %s::is_cell_eligible parameters are %s" % (hdr, cname, param_names(params)))
        where = "%s %s::is_cell_eligible" % (hdr, cname)

        def leaf(toks_, guard):
            txt = joined(toks_)
            if txt in ("true", "false"):
                return [(guard, "EligConst %s" % txt)]
            if txt == "network_.has_node_at(row,col)":
                return [(guard, "EligNodeAt")]
            raise Unparsed("%s: returned value not understood: %s" % (where, show(toks_)))
        tbl, dflt = decision_table(fb, leaf, "?", None, where)
        if tbl:
            raise Unparsed("%s: conditional eligibility is not modelled" % where)
        rules[SWITCH_CLASSES[cname]] = dflt
        supports[SWITCH_CLASSES[cname]] = class_supports_table(body, cname, hdr)
    order = ["CUniform", "CNeighbor", "CNetwork", "CDeterministic", "CRadial"]
    out.append("(* ---- is_cell_eligible(row, col) of the five kernel classes ---- *)")
    out.append("Definition class_eligible (c : kernel_class) : elig_rule :=\n  match c with\n"
               + "\n".join("  | %s => %s" % (c, rules[c]) for c in order) + "\n  end.")
    out.append("(* ---- static supports_kernel(type) of the five kernel classes ---- *)")
    out.append("Definition class_supports (c : kernel_class) (ty : kernel_type) : bool :=\n  match c with\n"
               + "\n".join("  | %s => first_match\n    %s\n    %s ty false" % (c, coq_table(supports[c][0]), supports[c][1]) for c in order)
               + "\n  end.")
    # DynamicWrapperKernel (kernel_base.hpp)
    hdr = "kernel_base.hpp"
    toks = header_tokens(repo, hdr)
    body = class_body(toks, "DynamicWrapperKernel", hdr)
    members = member_decls(body)
    if ("ActualKernel", "kernel_") not in members:
        raise Unparsed("%s: DynamicWrapperKernel has no member `ActualKernel kernel_`" % hdr)

    def unqualified(toks_):
        q = ["DynamicWrapperKernel", "<", "ActualKernel", ",", "Generator", ">", "::"]
        res = []
        i = 0
        while i < len(toks_):
            if [t[1] for t in toks_[i:i + len(q)]] == q:
                i += len(q)
                continue
            res.append(toks_[i])
            i += 1
        return res
    params, _, fb = find_function(body, "is_cell_eligible", hdr)
    st = [s for s in statements(fb) if not (s[0] == "simple" and (not s[1] or s[1][0][1] == "UNUSED"))]
    if param_names(params) != ["row", "col"] or len(st) != 1 or st[0][0] != "simple" or st[0][1][0][1] != "return":
        raise Unparsed("%s: DynamicWrapperKernel::is_cell_eligible is not a single return" % hdr)

    def wb(e):
        if e == ("call", "kernel_.is_cell_eligible", [("var", "row"), ("var", "col")]):
            return "inner"
        if e == ("var", "true") or e == ("var", "false"):
            return e[1]
        if e[0] == "un" and e[1] == "!":
            return "(negb %s)" % wb(e[2])
        if e[0] == "bin" and e[1] in ("&&", "||"):
            return "(%s %s %s)" % (wb(e[2]), e[1], wb(e[3]))
        raise Unparsed("%s: DynamicWrapperKernel::is_cell_eligible returns %r" % (hdr, e))
    w = wb(parse_expr(unqualified(st[0][1][1:]), hdr))
    oparams, obody = find_call_operator(body, hdr)
    ost = statements(obody)
    if param_names(oparams) != ["generator", "row", "col"] or len(ost) != 1 or ost[0][0] != "simple" \
            or joined(unqualified(ost[0][1])) not in ("returnkernel_.operator()(generator,row,col)", "returnkernel_(generator,row,col)"):
        raise Unparsed("%s: DynamicWrapperKernel::operator() does not return kernel_(generator, row, col)" % hdr)
    out.append("(* ---- kernel_base.hpp: DynamicWrapperKernel::is_cell_eligible; inner = kernel_.is_cell_eligible(row, col)\n"
               "   (operator() returns kernel_.operator()(generator, row, col) - checked by the translator) ---- *)")
    out.append("Definition wrapper_eligible (inner : bool) : bool := %s." % w)


def region_switch(repo, out):
    hdr = "switch_kernel.hpp"
    toks = header_tokens(repo, hdr)
    body = class_body(toks, "SwitchDispersalKernel", hdr)
    members = member_decls(body)
    mclass = {}
    tvar = svar = None
    for ty, name in members:
        cls = [c for c in SWITCH_CLASSES if ty == c or ty.startswith(c + "<")]
        if cls:
            mclass[name] = SWITCH_CLASSES[cls[0]]
        elif ty == "DispersalKernelType":
            tvar = name
        elif ty == "bool":
            svar = name
        else:
            raise Unparsed("%s: member %s has the unexpected type %s" % (hdr, name, ty))
    if tvar is None or svar is None or sorted(mclass.values()) != sorted(SWITCH_CLASSES.values()):
        raise Unparsed("%s: expected one kernel type, one bool and one member of each of the five kernel classes, found %s"
                       % (hdr, members))
    # constructor: every member is initialised from the parameter of its own kind
    params, inits, cbody = find_function(body, "SwitchDispersalKernel", hdr, ctor=True)
    if inits is None or [s for s in statements(cbody) if s[0] != "simple" or s[1]]:
        raise Unparsed("%s: constructor is not an initialiser list with an empty body" % hdr)
    pkind = {}
    sdefault = None
    sparam = tparam = None
    for ptoks in split_top(params):
        if not ptoks:
            continue
        q = []
        dflt = None
        for i, t_ in enumerate(ptoks):
            if t_[1] == "=":
                dflt = ptoks[i + 1:]
                break
            q.append(t_)
        name = q[-1][1]
        ids = [t_[1] for t_ in q[:-1]]
        cls = [c for c in SWITCH_CLASSES if c in ids]
        if cls:
            pkind[name] = SWITCH_CLASSES[cls[0]]
        elif "DispersalKernelType" in ids:
            tparam = name
        elif "bool" in ids:
            sparam = name
            if dflt is not None:
                if joined(dflt) not in ("true", "false"):
                    raise Unparsed("%s: default of %s is not a literal" % (hdr, name))
                sdefault = joined(dflt)
        else:
            raise Unparsed("%s: constructor parameter %s" % (hdr, show(ptoks)))
    il = dict(init_list(inits, hdr))
    for m, cls in mclass.items():
        src = [p for p, c in pkind.items() if c == cls]
        if len(src) != 1 or m not in il or len(il[m]) != 1 or joined(il[m][0]) != src[0]:
            raise Unparsed("%s: member %s is not initialised from the constructor's %s parameter" % (hdr, m, cls))
    if tparam is None or tvar not in il or len(il[tvar]) != 1 or joined(il[tvar][0]) != tparam:
        raise Unparsed("%s: %s is not initialised from the kernel type parameter" % (hdr, tvar))
    if sparam is None or svar not in il or len(il[svar]) != 1:
        raise Unparsed("%s: %s is not initialised from the stochasticity parameter" % (hdr, svar))

    def sb(e):
        if e == ("var", sparam):
            return "dispersal_stochasticity"
        if e in (("var", "true"), ("var", "false")):
            return e[1]
        if e[0] == "un" and e[1] == "!":
            return "(negb %s)" % sb(e[2])
        raise Unparsed("%s: %s is initialised with %r" % (hdr, svar, e))
    out.append("(* ---- switch_kernel.hpp: SwitchDispersalKernel ---- *)")
    out.append("(* constructor: what is stored in %s; the default of the parameter *)" % svar)
    out.append("Definition switch_stored_stochasticity (dispersal_stochasticity : bool) : bool := %s."
               % sb(parse_expr(il[svar][0], hdr)))
    if sdefault is None:
        raise Unparsed("%s: the stochasticity parameter has no default" % hdr)
    out.append("Definition switch_default_stochasticity : bool := %s." % sdefault)
    # operator()
    oparams, obody = find_call_operator(body, hdr)
    if param_names(oparams) != ["generator", "row", "col"]:
        raise Unparsed("%s: operator() parameters are %s" % (hdr, param_names(oparams)))
    where = hdr + " SwitchDispersalKernel::operator()"

    def call_leaf(toks_, guard):
        m = re.fullmatch(r"(\w+)(?:\.operator\(\))?\(generator,row,col\)", joined(toks_))
        if not m or m.group(1) not in mclass:
            raise Unparsed("%s: a branch does not return <member kernel>(generator, row, col): %s" % (where, show(toks_)))
        return [(guard, mclass[m.group(1)])]
    tbl, dflt = decision_table(obody, call_leaf, tvar, svar, where)
    out.append("(* operator(): tests in source order -> class of the member kernel called with (generator, row, col) *)")
    out.append("Definition gen_switch_dispatch : list (switch_cond * kernel_class) :=\n  %s." % coq_table(tbl))
    out.append("Definition gen_switch_dispatch_else : kernel_class := %s." % dflt)
    # is_cell_eligible
    params, _, fb = find_function(body, "is_cell_eligible", hdr)
    if param_names(params) != ["row", "col"]:
        raise Unparsed("%s: is_cell_eligible parameters are %s" % (hdr, param_names(params)))
    where = hdr + " SwitchDispersalKernel::is_cell_eligible"

    def elig_leaf(toks_, guard):
        txt = joined(toks_)
        if txt in ("true", "false"):
            return [(guard, "SeConst %s" % txt)]
        m = re.fullmatch(r"(\w+)\.is_cell_eligible\(row,col\)", txt)
        if not m or m.group(1) not in mclass:
            raise Unparsed("%s: a branch returns neither a literal nor <member kernel>.is_cell_eligible(row, col): %s"
                           % (where, show(toks_)))
        return [(guard, "SeMember %s" % mclass[m.group(1)])]
    tbl, dflt = decision_table(fb, elig_leaf, tvar, svar, where)
    out.append("(* is_cell_eligible(row, col): tests in source order -> what is returned *)")
    out.append("Definition gen_switch_eligible : list (switch_cond * elig_src) :=\n  %s." % coq_table(tbl))
    out.append("Definition gen_switch_eligible_else : elig_src := %s." % dflt)
    # supports_kernel
    params, _, fb = find_function(body, "supports_kernel", hdr)
    if param_names(params) != ["type"]:
        raise Unparsed("%s: supports_kernel parameters are %s" % (hdr, param_names(params)))
    where = hdr + " SwitchDispersalKernel::supports_kernel"

    def sup_other(txt):
        m = re.fullmatch(r"(\w+)(?:<[\w,:]*>)?::supports_kernel\(type\)", txt)
        if m and m.group(1) in SWITCH_CLASSES:
            return "SsClass %s" % SWITCH_CLASSES[m.group(1)]
        return None
    leaf = lambda toks_, guard: bool_leaf_entries(toks_, guard, "type", where, lambda x: "SsConst %s" % x, sup_other)
    tbl, dflt = decision_table(fb, leaf, "type", None, where)
    out.append("(* static supports_kernel(type) *)")
    out.append("Definition gen_switch_supports : list (switch_cond * supports_src) :=\n  %s." % coq_table(tbl))
    out.append("Definition gen_switch_supports_else : supports_src := %s." % dflt)


def region_dynamic_kernel(repo, out):
    hdr = "kernel.hpp"
    toks = header_tokens(repo, hdr)
    params, _, body = find_function(toks, "create_dynamic_kernel", hdr)
    if param_names(params) != ["config", "dispersers", "network"]:
        raise Unparsed("%s: create_dynamic_kernel parameters are %s" % (hdr, param_names(params)))
    st = statements(body)
    if len(st) != 1 or st[0][0] != "simple" or st[0][1][0][1] != "return":
        raise Unparsed("%s: create_dynamic_kernel is not a single return statement" % hdr)
    # drop template argument lists `name < ... >` of the three templates involved
    flat = []
    ts = st[0][1][1:]
    i = 0
    while i < len(ts):
        flat.append(ts[i])
        if ts[i][1] in ("DispersalKernel", "create_natural_kernel", "create_anthro_kernel") and i + 1 < len(ts) and ts[i + 1][1] == "<":
            j = i + 1
            while j < len(ts) and ts[j][1] != ">":
                j += 1
            i = j
        i += 1
    if len(flat) < 3 or flat[0][1] != "DispersalKernel" or flat[1][1] != "(" or match_close(flat, 1, "(", ")") != len(flat) - 1:
        raise Unparsed("%s: create_dynamic_kernel does not return DispersalKernel<Generator>(...)" % hdr)
    atoks = split_top(flat[2:-1])
    args = [joined(a) for a in atoks]
    # the anthropogenic kernel may be built only when it is enabled:
    #   config.use_anthropogenic_kernel ? create_anthro_kernel(...) : std::unique_ptr<...>(nullptr)
    built = "true"
    if len(atoks) >= 2 and any(x[1] == "?" for x in atoks[1]):
        a2 = atoks[1]
        q = [x[1] for x in a2].index("?")
        depth = 0
        colon = -1
        for n in range(q + 1, len(a2)):
            if a2[n][1] in "([{":
                depth += 1
            elif a2[n][1] in ")]}":
                depth -= 1
            elif a2[n][1] == ":" and depth == 0:
                colon = n
                break
        if colon < 0:
            raise Unparsed("%s: create_dynamic_kernel: the anthropogenic kernel argument is %s" % (hdr, args[1]))
        cond, yes, no = joined(a2[:q]), joined(a2[q + 1:colon]), joined(a2[colon + 1:])
        null = r"(std::unique_ptr<KernelInterface<Generator>>\((nullptr)?\)|nullptr)"
        if cond == "!config.use_anthropogenic_kernel":
            cond, yes, no = "config.use_anthropogenic_kernel", no, yes
        if cond != "config.use_anthropogenic_kernel" or not re.fullmatch(null, no) or re.fullmatch(null, yes):
            raise Unparsed("%s: create_dynamic_kernel: the anthropogenic kernel argument is %s" % (hdr, args[1]))
        args[1] = yes
        built = "use_anthropogenic_kernel"
    # the alias: DispersalKernel = NaturalAnthropogenicDispersalKernel<KernelInterface<Generator>, KernelInterface<Generator>>
    i = find_seq(toks, ["using", "DispersalKernel", "="])
    if i < 0:
        raise Unparsed("%s: alias DispersalKernel not found" % hdr)
    j = i
    while toks[j][1] != ";":
        j += 1
    if joined(toks[i + 3:j]) != "NaturalAnthropogenicDispersalKernel<KernelInterface<Generator>,KernelInterface<Generator>>":
        raise Unparsed("%s: DispersalKernel is %s" % (hdr, joined(toks[i + 3:j])))
    out.append("(* ---- kernel.hpp: create_dynamic_kernel: arguments of the NaturalAnthropogenicDispersalKernel constructor\n"
               "   (natural_kernel, anthropogenic_kernel, use_anthropogenic_kernel, percent_natural_dispersal) ---- *)")
    out.append("Definition dynamic_kernel_args : list string :=\n  [ %s ]." % "; ".join(coq_string(a) for a in args))
    out.append("(* whether the anthropogenic kernel object exists (otherwise a null pointer is handed to the mix) *)")
    out.append("Definition dynamic_kernel_anthro_built (use_anthropogenic_kernel : bool) : bool := %s." % built)


def main():
    if len(sys.argv) != 3:
        print(__doc__)
        return 2
    repo, outdir = sys.argv[1], sys.argv[2]
    out = []
    problems = []

    def attempt(f, *a):
        try:
            return f(*a)
        except Unparsed as ex:
            problems.append(str(ex))
        except (IndexError, KeyError, ValueError, TypeError) as ex:
            problems.append("%s: region has an unexpected shape (%s: %s)" % (f.__name__, type(ex).__name__, ex))
        return None
    attempt(region_kernel_names, repo, out)
    attempt(region_directions, repo, out)
    attempt(region_neighbor, repo, out)
    attempt(region_uniform, repo, out)
    attempt(region_mix, repo, out)
    attempt(region_factories, repo, out)
    attempt(region_class_eligibility, repo, out)
    attempt(region_switch, repo, out)
    attempt(region_dynamic_kernel, repo, out)
    out.append("(* ================= real-valued part ================= *)")
    out.append("Local Open Scope R_scope.")
    ctor_params = {}
    for hdr, cname, prefix, extra in KERNELS:
        ps = attempt(region_kernel_class, repo, hdr, cname, prefix, extra, out)
        if ps is not None:
            ctor_params[prefix] = ps
    if len(ctor_params) == len(KERNELS):
        attempt(region_radial, repo, out, ctor_params)
    attempt(region_von_mises, repo, out)
    if problems:
        print("kernel_tables.py: regions that no longer parse:\n  " + "\n  ".join(problems))
        return 1
    head = ("(* GENERATED by translate/kernel_tables.py from include/pops/*.hpp on every check - do not edit.\n"
            "   Each definition is a transliteration of the named region of the C++ source. *)\n"
            "From Coq Require Import ZArith Reals String List Bool.\n"
            "From Pops Require Import Err KernelTypesDefs.\n"
            "Import ListNotations.\n"
            "Local Open Scope string_scope.\n"
            "Local Open Scope bool_scope.\n\n")
    text = head + "\n\n".join(out) + "\n"
    path = os.path.join(outdir, "GeneratedKernelTables.v")
    old = open(path).read() if os.path.exists(path) else None
    if old != text:
        tmp = path + ".tmp%d" % os.getpid()
        with open(tmp, "w") as f:
            f.write(text)
        os.replace(tmp, path)
    return 0


if __name__ == "__main__":
    sys.exit(main())
