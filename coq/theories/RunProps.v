(* Step- and run-level invariants: after every individual action of every step
   of every run, for every tape of random outcomes, every cell of every host
   satisfies the cell invariants and no hosts were created. *)
From Coq Require Import ZArith QArith List Bool Lia.
From Pops Require Import Err Rounding RoundingProps CellDefs CellProps LandDefs MonadProps LandProps
     ShapeProps LandProps2 SchedDefs SchedProps ModelDefs ModelProps.
Import ListNotations.
Local Open Scope Z_scope.

Definition move_row_ok (r : list Z * Z) : Prop :=
  match fst r with [_; _; _; _; count] => 0 <= count | _ => True end.

Definition inputs_ok (inp : inputs) : Prop :=
  Forall rates_ok (in_survival inp) /\ Forall treat_ok (in_treatments inp) /\
  Forall move_row_ok (in_movements inp).

(* which invariant level a configuration supports *)
Definition level_ok (lv : level) (m : model_cfg) (inp : inputs) : Prop :=
  match lv with
  | Basic => True
  | Le => m_use_overpop m = false /\ Forall (fun t => t_pesticide t = false) (in_treatments inp)
  | Eq => m_use_overpop m = false /\ m_use_treatments m = false
  end.

(* the invariant of a run: cell invariants at level lv in every cell, hosts
   alive + died never above q, uniform cohort-list lengths *)
Definition J (lv : level) (q : Z) (ne nm : nat) (w : world) : Prop := WL lv q w /\ WS ne nm w.

Lemma J_hosts_only lv q ne nm w w' : w_hosts w' = w_hosts w -> J lv q ne nm w -> J lv q ne nm w'.
Proof. intros E [[A B] C]. unfold J, WL, WS, winv, whq in *. rewrite E. auto. Qed.

Lemma hoare_J_hs {A} (mm : W A) lv q ne nm : hosts_same mm ->
  hoare (J lv q ne nm) mm (fun _ w => J lv q ne nm w).
Proof. intros H w t a w' t' HJ E. apply H in E. eapply J_hosts_only; eauto. Qed.

(* combine an exact-conservation triple with the shape triple *)
Lemma hoare_J_of_WI {A} (mm : W A) lv ne nm :
  (forall q, hoare (WI lv q) mm (fun _ w => WI lv q w)) ->
  hoare (WS ne nm) mm (fun _ w => WS ne nm w) ->
  forall q, hoare (J lv q ne nm) mm (fun _ w => J lv q ne nm w).
Proof.
  intros HW HS q w t a w' t' [HL Hs] E. split.
  - exact (WI_WL lv mm HW q w t a w' t' HL E).
  - exact (HS w t a w' t' Hs E).
Qed.

Lemma hoare_J_of_WL {A} (mm : W A) lv q ne nm :
  hoare (WL lv q) mm (fun _ w => WL lv q w) ->
  hoare (WS ne nm) mm (fun _ w => WS ne nm w) ->
  hoare (J lv q ne nm) mm (fun _ w => J lv q ne nm w).
Proof. intros HW HS w t a w' t' [HL Hs] E. split; [exact (HW w t a w' t' HL E)|exact (HS w t a w' t' Hs E)]. Qed.

Lemma hs_set_temperature r : hosts_same (set_temperature r).
Proof. intros w t a w' t' H. unfold set_temperature in H. binv. reflexivity. Qed.
Lemma hs_set_totpop r : hosts_same (set_totpop r).
Proof. intros w t a w' t' H. unfold set_totpop in H. binv. reflexivity. Qed.

Lemma input_at_In {A} (l : list A) k a : input_at l k = Ok a -> In a l.
Proof.
  unfold input_at. destruct (k <? 0); [discriminate|].
  destruct (nth_error l (Z.to_nat k)) eqn:E; [|discriminate]. intros [= <-]. eapply nth_error_In; eauto.
Qed.

(* what each action needs from the level *)
Definition tag_ok (lv : level) (tag : action_tag) : Prop :=
  match tag with
  | AOverpop => lv = Basic
  | ATreatments => lv <> Eq
  | _ => True
  end.

(* movement: the exact triple of LandProps2 turned into the <= form *)
Lemma act_movement_J lv q ne nm g step moves : Forall move_row_ok moves ->
  hoare (J lv q ne nm) (act_movement g step moves) (fun _ w => J lv q ne nm w).
Proof.
  intros Hm w t a w' t' [[HI Hq] Hs] E.
  destruct (act_movement_WI lv (whq w) ne nm g step moves Hm w t a w' t' (conj (conj HI eq_refl) Hs) E)
    as [[HI' Hq'] Hs'].
  split; [split; [assumption|lia]|assumption].
Qed.

Theorem run_action_J lv q ne nm m inp step a :
  cfg_ok (m_g m) -> inputs_ok inp -> level_ok lv m inp -> tag_ok lv (fst a) ->
  hoare (J lv q ne nm) (run_action m inp step a) (fun _ w => J lv q ne nm w).
Proof.
  intros Hg (Hsurv & Htr & Hmv) Hlv Htag. unfold run_action. destruct a as [tag k]; cbn [fst snd] in *.
  destruct tag.
  - (* soil ageing *)
    intros w t a w' t' HJ H. binv. eapply J_hosts_only; [|exact HJ].
    unfold act_soil_next. destruct (w_soil w); reflexivity.
  - (* lethal temperature *)
    eapply hoare_bind; [apply hoare_ro, ro_lift|]. intros temp.
    eapply hoare_bind; [apply hoare_J_hs, hs_set_temperature|]. intros u.
    apply hoare_J_of_WI; [intros q'; apply act_lethal_WI|apply act_lethal_WS].
  - (* survival rate *)
    intros w t a w' t' HJ H. apply bind_inv in H as (r & s1 & t1 & E & H).
    apply lift_inv in E as (E & -> & ->). apply input_at_In in E.
    rewrite Forall_forall in Hsurv. specialize (Hsurv _ E).
    revert HJ H. apply hoare_J_of_WI; [intros q'; apply act_survival_WI; assumption|apply act_survival_WS].
  - (* generate *)
    eapply hoare_bind; [apply hoare_J_hs, hs_set_totpop|]. intros u.
    apply hoare_J_hs, act_generate_hosts_same.
  - apply hoare_J_of_WI; [intros q'; apply act_disperse_WI|apply act_disperse_WS].
  - apply hoare_J_of_WI; [intros q'; apply act_step_forward_WI|apply act_step_forward_WS].
  - (* overpopulation: level Basic only *)
    cbn in Htag. subst lv.
    apply hoare_J_of_WI; [intros q'; apply act_overpopulation_WI_any|apply act_overpopulation_WS].
  - apply act_movement_J. assumption.
  - (* treatments *)
    destruct lv; cbn in Htag.
    + apply hoare_J_of_WL; [apply act_treatments_WL_basic; assumption|apply act_treatments_WS].
    + apply hoare_J_of_WL; [apply act_treatments_WL_le; [assumption|apply Hlv]|apply act_treatments_WS].
    + contradiction.
  - apply hoare_J_of_WI; [intros q'; apply act_mortality_WI; assumption|apply act_mortality_WS].
  - destruct (k >=? m_rate_capacity m); [apply hoare_fail|apply hoare_ro, ro_ret].
  - apply hoare_ro, ro_ret.
Qed.

(* plan membership gives tag_ok *)
Lemma plan_tag_ok lv m inp hs step p a : level_ok lv m inp -> plan m hs step = Ok p -> In a p -> tag_ok lv (fst a).
Proof.
  intros Hlv Hp Hin. destruct a as [tag k]. cbn [fst].
  pose proof (runs_iff m hs step p Hp) as R. cbv zeta in R.
  destruct R as (_ & _ & _ & _ & _ & _ & RO & _ & RT & _).
  destruct tag; cbn; try exact I.
  - apply RO in Hin. destruct Hin as [F _]. apply andb_true_iff in F as [_ F].
    destruct lv; [reflexivity| |]; destruct Hlv as [Ho _]; congruence.
  - apply RT in Hin. destruct Hin as [F _]. destruct lv; try discriminate. destruct Hlv as [_ Ht]. congruence.
Qed.

(* every snapshot of the trace satisfies the invariant, and so does the result *)
Lemma run_plan_J lv q ne nm m inp step : cfg_ok (m_g m) -> inputs_ok inp -> level_ok lv m inp ->
  forall p, (forall a, In a p -> tag_ok lv (fst a)) ->
  forall w t acc, J lv q ne nm w -> Forall (fun x => J lv q ne nm (snd x)) acc ->
    Forall (fun x => J lv q ne nm (snd x)) (snd (run_plan m inp step p w t acc)) /\
    (forall tr w' t', fst (run_plan m inp step p w t acc) = Ok (tr, w', t') -> J lv q ne nm w').
Proof.
  intros Hg Hi Hlv p. induction p as [|a r IH]; intros Htag w t acc HJ Hacc; cbn [run_plan].
  - cbn [fst snd]. split; [assumption|]. intros tr w' t' [= _ <- _]. assumption.
  - destruct (run_action m inp step a w t) as [[[u w1] t1]|e] eqn:E; cbn [fst snd].
    + assert (HJ1 : J lv q ne nm w1).
      { eapply run_action_J; eauto. apply Htag. left; reflexivity. }
      apply IH; [intros b Hb; apply Htag; right; assumption|assumption|].
      apply Forall_app; split; [assumption|constructor; [exact HJ1|constructor]].
    + split; [assumption|]. intros tr w' t' H. discriminate.
Qed.

Theorem run_step_J lv q ne nm m inp step w t :
  cfg_ok (m_g m) -> inputs_ok inp -> level_ok lv m inp -> J lv q ne nm w ->
  Forall (fun x => J lv q ne nm (snd x)) (snd (run_step m inp step w t)) /\
  (forall tr w' t', fst (run_step m inp step w t) = Ok (tr, w', t') -> J lv q ne nm w').
Proof.
  intros Hg Hi Hlv HJ. unfold run_step. destruct (plan m (has_soil w) step) as [p|e] eqn:Hp; cbn [fst snd].
  - apply run_plan_J; auto. intros a Ha. eapply plan_tag_ok; eauto.
  - split; [constructor|]. intros tr w' t' H. discriminate.
Qed.

(* any number of steps *)
Theorem run_many_J lv q ne nm m inp weather :
  cfg_ok (m_g m) -> (forall s, inputs_ok (inp s)) -> (forall s, level_ok lv m (inp s)) ->
  forall tapes step w w', J lv q ne nm w -> run_many m inp weather tapes step w = Ok w' -> J lv q ne nm w'.
Proof.
  intros Hg Hi Hlv tapes. induction tapes as [|t r IH]; intros step w w' HJ H; cbn [run_many] in H.
  - injection H as <-. assumption.
  - destruct (fst (run_step m (inp step) step (with_weather w (weather step)) t)) as [[[tr w1] t1]|e] eqn:E; [|discriminate].
    assert (HJw : J lv q ne nm (with_weather w (weather step))) by (eapply J_hosts_only; [|exact HJ]; reflexivity).
    destruct (run_step_J lv q ne nm m (inp step) step _ t Hg (Hi step) (Hlv step) HJw) as (_ & Hres).
    eapply IH; [|exact H]. eapply Hres. exact E.
Qed.

(* ---- exact conservation: a step without a starting removal treatment ---- *)
Definition no_removal_at (step : Z) (inp : inputs) : Prop :=
  Forall (fun t => t_pesticide t = true \/ t_start t <> step) (in_treatments inp).

Theorem run_action_conserves q ne nm m inp step a :
  cfg_ok (m_g m) -> inputs_ok inp -> no_removal_at step inp ->
  hoare (fun w => WI Basic q w /\ WS ne nm w) (run_action m inp step a) (fun _ w => WI Basic q w /\ WS ne nm w).
Proof.
  intros Hg (Hsurv & Htr & Hmv) Hno. unfold run_action. destruct a as [tag k]; cbn [fst snd] in *.
  assert (both : forall (mm : W unit),
      hoare (WI Basic q) mm (fun _ w => WI Basic q w) -> hoare (WS ne nm) mm (fun _ w => WS ne nm w) ->
      hoare (fun w => WI Basic q w /\ WS ne nm w) mm (fun _ w => WI Basic q w /\ WS ne nm w)).
  { intros mm H1 H2 w t a w' t' [A B] E. split; [exact (H1 w t a w' t' A E)|exact (H2 w t a w' t' B E)]. }
  assert (hs : forall (mm : W unit), hosts_same mm ->
      hoare (fun w => WI Basic q w /\ WS ne nm w) mm (fun _ w => WI Basic q w /\ WS ne nm w)).
  { intros mm H w t a w' t' [A B] E. apply H in E. unfold WI, WS, winv, whq in *. rewrite E. auto. }
  destruct tag.
  - intros w t a w' t' HJ H. binv. unfold WI, WS, winv, whq in *.
    assert (Eh : w_hosts (act_soil_next w) = w_hosts w) by (unfold act_soil_next; destruct (w_soil w); reflexivity).
    rewrite Eh. exact HJ.
  - eapply hoare_bind; [apply hoare_ro, ro_lift|]. intros temp.
    eapply hoare_bind; [apply hs, hs_set_temperature|]. intros u.
    apply both; [apply act_lethal_WI|apply act_lethal_WS].
  - intros w t a w' t' HJ H. apply bind_inv in H as (r & s1 & t1 & E & H).
    apply lift_inv in E as (E & -> & ->). apply input_at_In in E.
    rewrite Forall_forall in Hsurv. specialize (Hsurv _ E).
    revert HJ H. apply both; [apply act_survival_WI; assumption|apply act_survival_WS].
  - eapply hoare_bind; [apply hs, hs_set_totpop|]. intros u. apply hs, act_generate_hosts_same.
  - apply both; [apply act_disperse_WI|apply act_disperse_WS].
  - apply both; [apply act_step_forward_WI|apply act_step_forward_WS].
  - apply both; [apply act_overpopulation_WI_any|apply act_overpopulation_WS].
  - apply act_movement_WI. assumption.
  - apply both; [apply act_treatments_WI_pesticide; assumption|apply act_treatments_WS].
  - apply both; [apply act_mortality_WI; assumption|apply act_mortality_WS].
  - destruct (k >=? m_rate_capacity m); [apply hoare_fail|apply hoare_ro, ro_ret].
  - apply hoare_ro, ro_ret.
Qed.

Theorem run_step_conserves q ne nm m inp step w t :
  cfg_ok (m_g m) -> inputs_ok inp -> no_removal_at step inp ->
  WI Basic q w /\ WS ne nm w ->
  Forall (fun x => WI Basic q (snd x) /\ WS ne nm (snd x)) (snd (run_step m inp step w t)) /\
  (forall tr w' t', fst (run_step m inp step w t) = Ok (tr, w', t') -> WI Basic q w' /\ WS ne nm w').
Proof.
  intros Hg Hi Hno HJ. unfold run_step. destruct (plan m (has_soil w) step) as [p|e]; cbn [fst snd].
  - assert (G : forall p w t acc, (WI Basic q w /\ WS ne nm w) ->
        Forall (fun x => WI Basic q (snd x) /\ WS ne nm (snd x)) acc ->
        Forall (fun x => WI Basic q (snd x) /\ WS ne nm (snd x)) (snd (run_plan m inp step p w t acc)) /\
        (forall tr w' t', fst (run_plan m inp step p w t acc) = Ok (tr, w', t') -> WI Basic q w' /\ WS ne nm w')).
    { clear p w t HJ. induction p as [|a r IH]; intros w t acc HJ Hacc; cbn [run_plan].
      - cbn [fst snd]. split; [assumption|]. intros tr w' t' [= _ <- _]. assumption.
      - destruct (run_action m inp step a w t) as [[[u w1] t1]|e] eqn:E; cbn [fst snd].
        + assert (HJ1 : WI Basic q w1 /\ WS ne nm w1) by (eapply run_action_conserves; eauto).
          apply IH; [assumption|]. apply Forall_app; split; [assumption|constructor; [exact HJ1|constructor]].
        + split; [assumption|]. intros tr w' t' H. discriminate. }
    apply G; [assumption|constructor].
  - split; [constructor|]. intros tr w' t' H. discriminate.
Qed.

(* ---- consequences used by the property files ---- *)
Lemma Inv0_infected_le_total c : Inv0 c -> cI c <= cTH c.
Proof. intros (HS & HE & HI & HR & _ & _ & -> & _). pose proof (sumZ_nonneg _ HE). lia. Qed.

(* a concrete consistent world: non-vacuity of the run theorems *)
Definition demo_world : world :=
  mkworld [mkhp [mkcell 10 [0; 2] 5 2 0 [2; 3] 0 17; mkcell 0 [0; 0] 0 0 0 [0; 0] 0 0] [(0, 0)]]
          [0; 0] [0; 0] [] None None None None None 0.

Lemma demo_world_J : J Eq 17 2 2 demo_world.
Proof.
  unfold J, WL, WS, WI, winv, hosts_inv, whq, demo_world; cbn [w_hosts hosts_hq hp_cells sum_hq].
  split; [split|].
  - repeat constructor; unfold cinv, Inv0, InvM, nonneg; cbn; repeat split; try lia; repeat constructor; lia.
  - unfold hq, hosts; cbn. lia.
  - repeat constructor; unfold shape; cbn; auto.
Qed.
