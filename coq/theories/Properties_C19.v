(* C19  Raster arithmetic is element-wise and value-semantic for every shape.
   Statements only; each is closed by `exact` of a lemma proved in RasterProps.v
   (algebra) or RasterOwnProps.v (ownership).  The model is RasterDefs.v, tied to
   include/pops/raster.hpp by the correspondence check of bin/check C19.

   [wf r]: 0 <= rows, 0 <= cols (any shape: 0xN, 1xN, Nx1, 1x1, rows <> cols),
   the buffer holds rows*cols cells, all of the raster's element type.
   Cells of Raster<int> are [NI z], of Raster<double> [ND q]; scalars likewise.

   The model describes the code with the three proposed repairs applied
   (notes/findings/C19_*.fix.diff); the behaviour before the repairs is the
   subject of the [*_legacy_*] theorems.  One clause is refuted for the code
   as it is and will stay so (known finding): integral raster op= floating
   scalar, see C19_compound_scalar_matches_binary_refuted. *)
From Coq Require Import ZArith QArith Qround List Bool.
From Pops Require Import Err RasterDefs RasterProps RasterOwnProps.
Import ListNotations.
Local Open Scope Z_scope.

(* ---- element-wise characterisation, any shape ---------------------------- *)

(* c = a op b (+, -, *, /; int/int, int/double, double/int, double/double):
   accepted exactly when the shapes agree; c has the shape of a, the common
   element type, and cell k is [a_k op b_k] under the usual arithmetic
   conversions.  Otherwise std::invalid_argument. *)
Theorem C19_elementwise_raster_raster : forall o a b, wf a -> wf b ->
  (same_shape a b = true ->
     exists c, rr_bin o a b = Ok (c, a, b) /\ wf c /\
       rrows c = rrows a /\ rcols c = rcols a /\ rty c = common_ty (rty a) (rty b) /\
       forall k, nth_error (rcells c) k =
                 match nth_error (rcells a) k, nth_error (rcells b) k with
                 | Some x, Some y => Some (cell_rr o x y)
                 | _, _ => None
                 end) /\
  (same_shape a b = false -> rr_bin o a b = Err InvalidArgument).
Proof. exact rr_bin_spec. Qed.
Print Assumptions C19_elementwise_raster_raster.

(* c = a op s: same shape and element type as a (an integer raster stays
   integer: wf c with rty c = rty a), cell k is [a_k op s] converted to the
   element type *)
Theorem C19_elementwise_raster_scalar : forall o a s, wf a ->
  exists c, rs_bin o a s = Ok (c, a) /\ wf c /\
    rrows c = rrows a /\ rcols c = rcols a /\ rty c = rty a /\
    rcells c = map (fun x => cell_rs o (rty a) x s) (rcells a).
Proof. exact rs_bin_spec. Qed.
Print Assumptions C19_elementwise_raster_scalar.

(* c = s op a *)
Theorem C19_elementwise_scalar_raster : forall o s a, wf a ->
  exists c, sr_bin o s a = Ok (c, a) /\ wf c /\
    rrows c = rrows a /\ rcols c = rcols a /\ rty c = rty a /\
    rcells c = map (fun x => cell_sr o (rty a) s x) (rcells a).
Proof. exact sr_bin_spec. Qed.
Print Assumptions C19_elementwise_scalar_raster.

(* a op= s *)
Theorem C19_elementwise_compound_scalar : forall o a s, wf a ->
  exists a', rs_asg o a s = Ok a' /\ wf a' /\
    rrows a' = rrows a /\ rcols a' = rcols a /\ rty a' = rty a /\
    rcells a' = map (fun x => cell_rs_asg o (rty a) x s) (rcells a).
Proof. exact rs_asg_spec. Qed.
Print Assumptions C19_elementwise_compound_scalar.

(* a op= b (repaired code): rejected when the shapes differ, b unchanged *)
Theorem C19_elementwise_compound_raster : forall o a b, wf a -> wf b ->
  (same_shape a b = true ->
     exists a', rr_asg o a b = Ok (a', b) /\ wf a' /\
       rrows a' = rrows a /\ rcols a' = rcols a /\ rty a' = rty a /\
       forall k, nth_error (rcells a') k =
                 match nth_error (rcells a) k, nth_error (rcells b) k with
                 | Some x, Some y => Some (cell_rr_asg o (rty a) x y)
                 | _, _ => None
                 end) /\
  (same_shape a b = false -> rr_asg o a b = Err InvalidArgument).
Proof. exact rr_asg_spec. Qed.
Print Assumptions C19_elementwise_compound_raster.

(* pow(a, e) for integer e and sqrt(a) (repaired code) *)
Theorem C19_elementwise_pow : forall a e, wf a ->
  exists c, rpow a e = Ok (c, a) /\ wf c /\
    rrows c = rrows a /\ rcols c = rcols a /\ rty c = rty a /\
    rcells c = map (cell_pow (rty a) e) (rcells a).
Proof. exact rpow_spec. Qed.
Print Assumptions C19_elementwise_pow.

Theorem C19_elementwise_sqrt : forall a, wf a ->
  exists c, rsqrt a = Ok (c, a) /\ wf c /\
    rrows c = rrows a /\ rcols c = rcols a /\ rty c = rty a /\
    rcells c = map (cell_sqrt (rty a)) (rcells a).
Proof. exact rsqrt_spec. Qed.
Print Assumptions C19_elementwise_sqrt.

(* what "a_k op s converted to the element type" is for an integer cell and a
   floating scalar: the product (sum, ...) truncated toward zero for the
   binary operators, but the scalar floored first for the compound ones *)
Theorem C19_int_cell_binary_truncates_result : forall o a q,
  cell_rs o TInt (NI a) (ND q) = NI (qtrunc (qop o (inject_Z a) q)).
Proof. exact cell_rs_int_dbl. Qed.
Print Assumptions C19_int_cell_binary_truncates_result.

Theorem C19_int_cell_compound_floors_scalar : forall o a q,
  cell_rs_asg o TInt (NI a) (ND q) = NI (zop o a (Qfloor q)).
Proof. exact cell_rs_asg_int_dbl. Qed.
Print Assumptions C19_int_cell_compound_floors_scalar.

(* [qtrunc] is C++'s double -> int conversion: the quotient toward zero *)
Theorem C19_qtrunc_is_truncation : forall n d, qtrunc (n # d) = Z.quot n (Zpos d).
Proof. exact qtrunc_quot. Qed.
Print Assumptions C19_qtrunc_is_truncation.

(* a op= s and a op s give the same raster unless a is integral and s is a
   floating scalar with a fractional part ... *)
Theorem C19_compound_scalar_matches_binary_when : forall o a s, wf a ->
  rty a = TDbl \/ integral s ->
  exists c a', rs_bin o a s = Ok (c, a) /\ rs_asg o a s = Ok a' /\ a' = c.
Proof. exact compound_scalar_matches_binary_when. Qed.
Print Assumptions C19_compound_scalar_matches_binary_when.

(* ... REFUTED in that case for the code as it is: {3,-3,5} * 0.5 = {1,-1,2}
   but {3,-3,5} *= 0.5 gives {0,0,0} (known finding C19-int-compound-float) *)
Theorem C19_compound_scalar_matches_binary_refuted :
  exists o a s c a', wf a /\ rty a = TInt /\ rs_bin o a s = Ok (c, a) /\ rs_asg o a s = Ok a' /\
    rcells c = [NI 1; NI (-1); NI 2] /\ rcells a' = [NI 0; NI 0; NI 0].
Proof. exact compound_scalar_matches_binary_refuted. Qed.
Print Assumptions C19_compound_scalar_matches_binary_refuted.

(* ---- operands that are not assigned to are unchanged --------------------- *)
Theorem C19_operands_unchanged : forall o a b s e,
  (forall c a' b', rr_bin o a b = Ok (c, a', b') -> a' = a /\ b' = b) /\
  (forall c a', rs_bin o a s = Ok (c, a') -> a' = a) /\
  (forall c a', sr_bin o s a = Ok (c, a') -> a' = a) /\
  (forall a' b', rr_asg o a b = Ok (a', b') -> b' = b) /\
  (forall c a', rpow a e = Ok (c, a') -> a' = a) /\
  (forall c a', rsqrt a = Ok (c, a') -> a' = a).
Proof. exact operands_unchanged. Qed.
Print Assumptions C19_operands_unchanged.

(* the code before the repair: pow and sqrt overwrote their const argument
   with the result (fix: C19_pow_sqrt_overwrite_operand.fix.diff) *)
Theorem C19_pow_sqrt_legacy_overwrite_operand :
  (exists a c a', wf a /\ rpow_legacy a 2 = Ok (c, a') /\ a' <> a) /\
  (exists a c a', wf a /\ rsqrt_legacy a = Ok (c, a') /\ a' <> a).
Proof. exact pow_sqrt_legacy_overwrite_operand. Qed.
Print Assumptions C19_pow_sqrt_legacy_overwrite_operand.

(* the code before the repair: a op= b never compared shapes
   (fix: C19_compound_shape_unchecked.fix.diff) *)
Theorem C19_compound_raster_legacy_unchecked :
  (exists a b, wf a /\ wf b /\ same_shape a b = false /\
               rr_asg_legacy Add a b = Err UB_OutOfBounds) /\
  (exists a b a', wf a /\ wf b /\ same_shape a b = false /\
               rr_asg_legacy Add a b = Ok (a', b)).
Proof. exact rr_asg_legacy_unchecked. Qed.
Print Assumptions C19_compound_raster_legacy_unchecked.

(* ---- equality ------------------------------------------------------------ *)

(* a == b is true exactly when rows, cols and all cells agree; a != b is its
   negation; neither reads outside the buffers (repaired code) *)
Theorem C19_eq_iff_shape_and_cells : forall a b, wf a -> wf b ->
  exists r, raster_eq a b = Ok r /\ raster_ne a b = Ok (negb r) /\
    (r = true <-> rrows a = rrows b /\ rcols a = rcols b /\ Forall2 num_eq (rcells a) (rcells b)).
Proof. exact eq_iff_shape_and_cells. Qed.
Print Assumptions C19_eq_iff_shape_and_cells.

(* the code before the repair (i < cols_, j < cols_, no shape test): 3x1
   rasters differing in the last cell are equal; a 1x3 raster compared with
   itself is read out of bounds (fix: C19_equality_loop_bounds.fix.diff) *)
Theorem C19_eq_legacy_refuted :
  (exists a b, wf a /\ wf b /\ same_shape a b = true /\ ~ Forall2 num_eq (rcells a) (rcells b) /\
               raster_eq_legacy a b = Ok true /\ raster_ne_legacy a b = Ok false) /\
  (exists a, wf a /\ raster_eq_legacy a a = Err UB_OutOfBounds /\
             raster_ne_legacy a a = Err UB_OutOfBounds).
Proof. exact eq_legacy_refuted. Qed.
Print Assumptions C19_eq_legacy_refuted.

(* ---- constructors of values ---------------------------------------------- *)
Theorem C19_initializer_list : forall t rows, rectangular rows = true ->
  Forall (Forall (fun x => ty_of x = t)) rows ->
  exists r, from_rows t rows = Ok r /\ wf r /\ rty r = t /\
    rrows r = Z.of_nat (length rows) /\ rcols r = Z.of_nat (length (hd [] rows)) /\
    forall i j row x, nth_error rows i = Some row -> nth_error row j = Some x ->
      nth_error (rcells r) (i * length (hd [] rows) + j) = Some x.
Proof. exact from_rows_spec. Qed.
Print Assumptions C19_initializer_list.

(* ---- ownership: statements over ALL operation sequences ------------------ *)
(* [run (init n) ops = MOk st]: st is reached from n empty variable slots by
   the sequence ops of constructions (default, sized, filled, initializer
   list, like-other, wrapping a caller array), copies, moves, assignments,
   destructions, cell writes and caller writes, in any order. *)

(* the invariant holds in every reachable state *)
Theorem C19_invariant_all_sequences : forall n ops st, run (init n) ops = MOk st -> Inv st.
Proof. exact reachable_inv. Qed.
Print Assumptions C19_invariant_all_sequences.

(* in the words of the property: an owning object's buffer is live, was
   allocated by the class, has rows*cols cells, and no other object points
   to it; no object at all holds a dangling pointer *)
Theorem C19_owner_buffer_live_and_exclusive : forall n ops st v o b,
  run (init n) ops = MOk st -> slot_obj st v o -> o_owns o = true -> o_data o = Some b ->
  exists bf, buf_at st b bf /\ b_live bf = true /\ b_ext bf = false /\
    length (b_cells bf) = count o /\
    forall w ow, w <> v -> slot_obj st w ow -> o_data ow <> Some b.
Proof. exact owner_buffer_exclusive. Qed.
Print Assumptions C19_owner_buffer_live_and_exclusive.

Theorem C19_no_use_after_free : forall n ops st v o b,
  run (init n) ops = MOk st -> slot_obj st v o -> o_data o = Some b ->
  exists bf, buf_at st b bf /\ b_live bf = true.
Proof. exact no_dangling_pointer. Qed.
Print Assumptions C19_no_use_after_free.

(* no sequence whatsoever - including sequences that misuse the interface,
   which stop with a caller error - makes the class free a buffer twice, free
   caller memory or touch a freed buffer *)
Theorem C19_no_double_free_no_foreign_free : forall n ops e,
  run (init n) ops = MErr e -> e <> DoubleFree /\ e <> FreeOfExternal /\ e <> UseAfterFree.
Proof. exact run_never_class_error. Qed.
Print Assumptions C19_no_double_free_no_foreign_free.

(* operations inside the documented domain always succeed *)
Theorem C19_in_domain_operations_succeed : forall st p,
  Inv st -> op_ok st p -> exists st', step st p = MOk st'.
Proof. exact step_progress. Qed.
Print Assumptions C19_in_domain_operations_succeed.

(* caller memory is never freed and stays registered *)
Theorem C19_external_never_freed : forall n ops st e b,
  run (init n) ops = MOk st -> nth_error (exts st) e = Some b ->
  exists bf, buf_at st b bf /\ b_ext bf = true /\ b_live bf = true.
Proof. exact external_never_freed. Qed.
Print Assumptions C19_external_never_freed.

(* ... and only cell writes change it: constructing, copying, moving,
   assigning to and destroying rasters (wrappers included) leave it alone *)
Theorem C19_external_cells_stable : forall st p st' e cs,
  Inv st -> step st p = MOk st' -> ext_cells st e = Some cs ->
  (forall v i j x, p <> OWrite v i j x) -> (forall e' k x, p <> OExtWrite e' k x) ->
  ext_cells st' e = Some cs.
Proof. exact ext_cells_stable. Qed.
Print Assumptions C19_external_cells_stable.

(* a wrapper writes through to the caller's array and sees the caller's writes *)
Theorem C19_wrapper_writes_through : forall st v o e b i j x st',
  Inv st -> get_obj st v = MOk o -> nth_error (exts st) e = Some b -> o_data o = Some b ->
  step st (OWrite v i j x) = MOk st' ->
  exists cs, ext_cells st e = Some cs /\
             ext_cells st' e = Some (upd cs (Z.to_nat (i * o_cols o + j)) x) /\
             get_obj st' v = MOk o.
Proof. exact wrapper_writes_through. Qed.
Print Assumptions C19_wrapper_writes_through.

Theorem C19_wrapper_sees_caller_writes : forall st v o e b k x st' cs,
  Inv st -> get_obj st v = MOk o -> nth_error (exts st) e = Some b -> o_data o = Some b ->
  ext_cells st e = Some cs -> (count o <= length cs)%nat ->
  step st (OExtWrite e k x) = MOk st' ->
  get_obj st' v = MOk o /\ read st' o = MOk (firstn (count o) (upd cs k x)).
Proof. exact caller_write_visible. Qed.
Print Assumptions C19_wrapper_sees_caller_writes.

(* a copy (construction or assignment) has the shape and cells of its source
   in a buffer of its own; source and caller memory are untouched *)
Theorem C19_copy_construct : forall st v w st' ow,
  Inv st -> get_obj st w = MOk ow -> step st (OCopy v w) = MOk st' ->
  exists ov cs, get_obj st' v = MOk ov /\ read st ow = MOk cs /\ read st' ov = MOk cs /\
    get_obj st' w = MOk ow /\ read st' ow = MOk cs /\
    o_rows ov = o_rows ow /\ o_cols ov = o_cols ow /\ o_owns ov = true /\
    private st' ov /\ o_data ov <> None /\ o_data ov <> o_data ow.
Proof. exact copy_ctor_spec. Qed.
Print Assumptions C19_copy_construct.

Theorem C19_copy_assign : forall st v w st' ov0 ow,
  Inv st -> v <> w -> get_obj st v = MOk ov0 -> get_obj st w = MOk ow ->
  step st (OCopyAssign v w) = MOk st' ->
  exists ov cs, get_obj st' v = MOk ov /\ read st ow = MOk cs /\ read st' ov = MOk cs /\
    get_obj st' w = MOk ow /\ read st' ow = MOk cs /\
    o_rows ov = o_rows ow /\ o_cols ov = o_cols ow /\
    private st' ov /\ o_data ov <> None /\ o_data ov <> o_data ow.
Proof. exact copy_assign_spec. Qed.
Print Assumptions C19_copy_assign.

Theorem C19_self_assignment_is_noop : forall st v st',
  (step st (OCopyAssign v v) = MOk st' -> st' = st) /\
  (step st (OMoveAssign v v) = MOk st' -> st' = st).
Proof. exact self_assign_noop. Qed.
Print Assumptions C19_self_assignment_is_noop.

(* independence of copies: an object whose buffer was allocated by the class
   (every copy is one) keeps its shape and cells through ANY sequence of
   operations on other objects and on caller memory *)
Theorem C19_copies_independent : forall ops st st' w ow,
  Inv st -> run st ops = MOk st' -> Forall (fun p => ~ In w (names p)) ops ->
  get_obj st w = MOk ow -> private st ow ->
  get_obj st' w = MOk ow /\ read st' ow = read st ow.
Proof. exact untouched_private_unchanged_run. Qed.
Print Assumptions C19_copies_independent.

(* and writing through such an object changes nothing any other object or
   the caller can see *)
Theorem C19_write_to_copy_is_local : forall st v ov i j x st' w ow,
  Inv st -> get_obj st v = MOk ov -> private st ov -> step st (OWrite v i j x) = MOk st' ->
  v <> w -> get_obj st w = MOk ow ->
  get_obj st' w = MOk ow /\ read st' ow = read st ow /\ (forall e, ext_cells st' e = ext_cells st e).
Proof. exact private_write_local. Qed.
Print Assumptions C19_write_to_copy_is_local.

(* moves transfer the data: pointer, shape and ownership go to the target,
   nothing is allocated or copied, the source is left with a null pointer *)
Theorem C19_move_construct_transfers : forall st v w st' ow,
  Inv st -> get_obj st w = MOk ow -> step st (OMove v w) = MOk st' ->
  get_obj st' v = MOk ow /\
  get_obj st' w = MOk (mkobj (o_rows ow) (o_cols ow) None (o_owns ow)) /\
  heap st' = heap st /\ read st' ow = read st ow.
Proof. exact move_ctor_spec. Qed.
Print Assumptions C19_move_construct_transfers.

Theorem C19_move_assign_transfers : forall st v w st' ov0 ow,
  Inv st -> v <> w -> get_obj st v = MOk ov0 -> get_obj st w = MOk ow ->
  step st (OMoveAssign v w) = MOk st' ->
  get_obj st' v = MOk ow /\
  get_obj st' w = MOk (mkobj (o_rows ow) (o_cols ow) None (o_owns ow)) /\
  length (heap st') = length (heap st) /\ read st' ow = read st ow /\
  (forall e, ext_cells st' e = ext_cells st e).
Proof. exact move_assign_spec. Qed.
Print Assumptions C19_move_assign_transfers.

(* ---- non-vacuity ---------------------------------------------------------- *)

(* a 3x2 int raster times 0.5 plus a 3x2 double raster: accepted, 3x2 double *)
Example C19_nonvacuous_algebra :
  exists c d a', rs_bin Mul (mkr 3 2 TInt [NI 1; NI 2; NI 3; NI 4; NI 5; NI (-7)]) (ND (1 # 2))
               = Ok (c, a') /\ rcells c = [NI 0; NI 1; NI 1; NI 2; NI 2; NI (-3)] /\
    rr_bin Add c (mkr 3 2 TDbl [ND (1#2); ND 1; ND 1; ND 1; ND 1; ND 1]) = Ok (d, c, mkr 3 2 TDbl [ND (1#2); ND 1; ND 1; ND 1; ND 1; ND 1]) /\
    rty d = TDbl /\ raster_eq d d = Ok true.
Proof. do 3 eexists. vm_compute. repeat split. Qed.
Print Assumptions C19_nonvacuous_algebra.

(* a sequence with a wrapper, a copy of it, a move, assignments and
   destructions runs without error, ends with every class buffer freed and
   the caller's array holding what was written through the wrapper *)
Example C19_nonvacuous_ownership :
  exists st, run (init 3)
      [OExt [NI 1; NI 2; NI 3; NI 4; NI 5; NI 6]; OWrap 0 0 2 3; OCopy 1 0;
       OWrite 0 1 2 (NI 77); OWrite 1 0 0 (NI 9); OMove 2 1;
       OMoveAssign 1 2; OCopyAssign 2 1; ODestroy 0; ODestroy 1; ODestroy 2] = MOk st /\
    live_internal st = 0%nat /\
    ext_cells st 0 = Some [NI 1; NI 2; NI 3; NI 4; NI 5; NI 77].
Proof. eexists. vm_compute. repeat split. Qed.
Print Assumptions C19_nonvacuous_ownership.

(* Observation outside the text of C19 (see notes/findings): copy assignment
   leaves owns_ as it was, so assigning to a wrapper allocates a buffer that is
   never freed - after destroying everything one class buffer is still live. *)
Example C19_copy_assign_into_wrapper_leaks :
  exists st, run (init 2)
      [OExt [NI 1]; OWrap 0 0 1 1; OFillNew 1 1 1 (NI 5); OCopyAssign 0 1;
       ODestroy 0; ODestroy 1] = MOk st /\
    live_internal st = 1%nat /\ ext_cells st 0 = Some [NI 1].
Proof. eexists. vm_compute. repeat split. Qed.
Print Assumptions C19_copy_assign_into_wrapper_leaks.
