(* C06  Same seed, same result; random streams are isolated.
   Statements only; proofs in RngProps.v / ModelProps.v.  The provider model
   (RngDefs.v) is built on tables that translate/rng_tables.py regenerates from
   generator_provider.hpp, config.hpp, actions.hpp and environment.hpp on every
   run, so these theorems are re-checked against what the code says now.
   "Same seed, same result" for the model is the fact that run_step is a
   function of (configuration, inputs, state, tape); the absence of hidden state
   in the implementation is checked by bin/check C06 (same scenario twice in one
   process, interleaved with other model instances: identical traces).
   PARTIAL: isolation is proved at the granularity of actions (a stream whose
   process is disabled or not scheduled is never touched by a step); that a
   process made deterministic by a stochasticity switch leaves its stream alone
   is checked implementation against implementation only. *)
From Coq Require Import ZArith List String.
From Pops Require Import Err GeneratedRng SchedDefs ModelDefs ModelProps RngDefs RngProps.
Import ListNotations.
Local Open Scope Z_scope.

(* in multi-stream mode a single seed s seeds the streams with s, s+1, ... in
   the documented order *)
Theorem C06_seed_order : forall s,
  seed_multi s = combine documented_streams (map (fun k => s + Z.of_nat k) (seq 0 10)).
Proof. exact seed_order. Qed.
Print Assumptions C06_seed_order.

Theorem C06_documented_names :
  gen_config_seed_names = documented_streams /\
  (map fst gen_named_seed_keys = documented_streams /\ map snd gen_named_seed_keys = documented_streams).
Proof. exact (conj config_names_documented named_keys_documented). Qed.
Print Assumptions C06_documented_names.

(* a missing named seed is rejected ... *)
Theorem C06_missing_seed_rejected : forall seeds key,
  In key documented_streams -> ~ In key (map fst seeds) -> seed_named seeds = Err InvalidArgument.
Proof. exact missing_seed_rejected. Qed.
Print Assumptions C06_missing_seed_rejected.

(* ... and a complete named-seed map seeds every stream with its own value *)
Theorem C06_named_seeds_accepted : forall seeds,
  (forall key, In key documented_streams -> In key (map fst seeds)) ->
  exists m, seed_named seeds = Ok m /\ map fst m = documented_streams /\
    forall name, In name documented_streams -> lookup name m = lookup name seeds.
Proof. exact named_seeds_accepted. Qed.
Print Assumptions C06_named_seeds_accepted.

(* using a multi-stream provider as one generator is rejected *)
Theorem C06_single_use_rejected : forall seeds, use_as_generator (Multi seeds) = Err RuntimeError /\
  discard_on (Multi seeds) = Err RuntimeError /\
  forall s, use_as_generator (Single s) = Ok tt.
Proof. exact single_use_rejected. Qed.
Print Assumptions C06_single_use_rejected.

(* each stream accessor returns its own generator (multi) or the one generator (single) *)
Theorem C06_stream_identity :
  (forall s a, In a documented_streams -> stream_generator (Single s) a = Some ("general"%string, s)) /\
  (forall m a v, lookup a m = Some v -> stream_generator (Multi m) a = Some (a, v)).
Proof. exact stream_identity. Qed.
Print Assumptions C06_stream_identity.

Theorem C06_accessors_distinct :
  map fst gen_multi_accessors = documented_streams /\ NoDup (map snd gen_multi_accessors).
Proof. exact multi_accessors_distinct. Qed.
Print Assumptions C06_accessors_distinct.

(* which streams each action asks the provider for (translated from actions.hpp) *)
Theorem C06_action_streams :
  action_streams ALethal = ["lethal_temperature"%string] /\ action_streams ASurvival = ["survival_rate"%string] /\
  action_streams AGenerate = ["disperser_generation"%string; "soil"%string] /\
  action_streams ADisperse = ["establishment"%string; "soil"%string; "natural_dispersal"%string; "anthropogenic_dispersal"%string] /\
  action_streams AOverpop = ["overpopulation"%string] /\ action_streams AMovement = ["movement"%string] /\
  action_streams AMortality = [] /\ action_streams ATreatments = [] /\ action_streams AStepForward = [] /\
  action_streams ASoil = [] /\ action_streams ASpreadRate = [] /\ action_streams AQuarantine = [].
Proof. exact action_streams_table. Qed.
Print Assumptions C06_action_streams.

Theorem C06_soil_and_weather_streams :
  gen_soil_pool_gets_soil_stream = true /\ gen_environment_streams = ["weather"%string].
Proof. exact soil_and_weather_streams. Qed.
Print Assumptions C06_soil_and_weather_streams.

(* isolation: a step draws only from the streams of its enabled, scheduled
   processes; the seed of any other stream cannot influence it *)
Theorem C06_stream_use_sound : forall m hs step p s, plan m hs step = Ok p ->
  In s (plan_streams p) -> stream_enabled m step s = true.
Proof. exact stream_use_sound. Qed.
Print Assumptions C06_stream_use_sound.

Theorem C06_disabled_stream_untouched : forall m hs step p s, plan m hs step = Ok p ->
  stream_enabled m step s = false -> ~ In s (plan_streams p).
Proof. exact disabled_stream_untouched. Qed.
Print Assumptions C06_disabled_stream_untouched.

Example C06_nonvacuous :
  make_provider true 5 [] = Ok (Multi (seed_multi 5)) /\
  lookup "soil" (seed_multi 5) = Some 14 /\
  seed_named [("soil"%string, 3)] = Err InvalidArgument.
Proof. vm_compute. repeat split. Qed.
Print Assumptions C06_nonvacuous.
