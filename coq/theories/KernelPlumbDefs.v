(* Kernels engine (C13), parameter plumbing: the densities ISO C++ [rand.dist]
   assigns to the std distributions (MODELLED: that libstdc++ samples these
   densities is not verified, DESIGN.md 3.3), and the closed-form cumulative
   distribution functions of the kernels sampled by icdf(U).  No proofs here. *)
From Coq Require Import ZArith Reals String List Bool.
From Pops Require Import Err KernelTypesDefs GeneratedKernelTables.
Local Open Scope R_scope.

(* [rand.dist.*]: probability density of each distribution at a point of its
   support (x > 0 for the one-sided ones).  G stands for the gamma function:
   the statements hold for whatever function tgamma computes. *)
Definition iso_density (G : R -> R) (d : std_dist) (x : R) : R :=
  match d with
  | StdCauchy a b => / (PI * b * (1 + ((x - a) / b) ^ 2))
  | StdExponential lambda => lambda * exp (- lambda * x)
  | StdWeibull a b => a / b * Rpower (x / b) (a - 1) * exp (- Rpower (x / b) a)
  | StdNormal mu sigma => 1 / (sigma * sqrt (2 * PI)) * exp (- (x - mu) ^ 2 / (2 * sigma ^ 2))
  | StdLognormal m s => 1 / (s * x * sqrt (2 * PI)) * exp (- (ln x - m) ^ 2 / (2 * s ^ 2))
  | StdGamma alpha beta => exp (- x / beta) / (Rpower beta alpha * G alpha) * Rpower x (alpha - 1)
  | StdUniformReal a b => 1 / (b - a)
  end.

(* Is the std distribution two-sided (support all of R)?  Then the distance
   |X| has density pdf(x) + pdf(-x). *)
Definition two_sided (d : std_dist) : bool :=
  match d with StdCauchy _ _ | StdNormal _ _ => true | _ => false end.

(* Closed-form cdfs (specification side) of the kernels drawn as icdf(U). *)
Definition logistic_cdf (s x : R) : R := 1 / (1 + exp (- x / s)).
Definition hyperbolic_secant_cdf (s x : R) : R := 2 / PI * atan (exp (PI * x / (2 * s))).
(* power law: antiderivative of the translated pdf that vanishes at distance 0 *)
Definition power_law_cdf (a xm x : R) : R := 1 - Rpower ((x + xm) / xm) (1 - a).
(* the quantile that would invert it *)
Definition power_law_quantile (a xm u : R) : R := xm * (Rpower (1 - u) (1 / (1 - a)) - 1).

(* Inverse-transform sampling of a law with cdf F by the function q: for a
   uniform variate u the event {q u <= x} is the event {u <= F x}, whose
   probability under the uniform law on (0,1) is F x. *)
Definition inverse_transform (F q : R -> R) : Prop :=
  forall u x, 0 < u < 1 -> (q u <= x <-> u <= F x).
