(* Model of include/pops/network.hpp (EdgeGeometry, EdgeGeometryView, Network:
   load / get_segment / next_node / walk / teleport and the helpers they use from
   utils.hpp: pick_random_item, ContainerView) and of NetworkDispersalKernel in
   include/pops/network_kernel.hpp together with the network branch of
   create_anthro_kernel in include/pops/anthropogenic_kernel.hpp.
   Definitions only.

   What is modelled is what the code computes: the std::map / std::set members
   are association lists kept in key order (iteration order of the C++
   containers), emplace keeps the first value of a key, adjacency vectors are
   filled in the key order of segments_by_nodes_, cost()/cost_per_cell() test
   the stated total cost for being non-zero exactly as static_cast<bool> does,
   the walk loop has the code's order of tests and runs on explicit fuel
   (OutOfFuel), an index outside a segment is UB_OutOfBounds.

   NOT modelled: text tokenising (getline, stod, stoi).  A record enters the
   model already tokenised: each field is the value the conversion function
   returned or the exception kind it threw (result), in the order in which the
   code converts the fields.  Coordinates, resolutions, costs, probabilities
   and distances are Q (exact); the correspondence check uses dyadic values so
   that double arithmetic is exact too.  Conversions double -> int outside the
   int range, NaN/inf, and a second call of load() on a loaded network are
   outside the model.

   Random choices are explicit arguments (DESIGN 3.3): every call of
   pick_random_item / std::discrete_distribution consumes one index from the
   `tape`; an index outside the candidate list the model computes (or of weight
   0) is TapeMismatch.  The *_all functions enumerate the results over all
   tapes.

   NetworkDispersalKernel is modelled with the REPAIRED call
   network_.walk(row, col, distance, generator, jump_)
   (see notes/findings/C15_kernel_jump_not_forwarded.md). *)
From Coq Require Import ZArith QArith Qround Qreduction List Bool String.
From Pops Require Import Err.
Import ListNotations.
Local Open Scope Z_scope.

Definition cell := (Z * Z)%type.      (* (row, col) *)
Definition node := Z.                 (* NodeId = int *)
Definition tape := list nat.          (* outcomes of the random picks, in program order *)

(* ------------------------------------------------------------ small helpers *)

Definition Qlt_bool (a b : Q) : bool := negb (Qle_bool b a).

(* std::lround: nearest integer, halves away from zero *)
Definition q_lround (x : Q) : Z :=
  if Qle_bool 0%Q x then Qfloor (x + (1 # 2))%Q else - Qfloor (- x + (1 # 2))%Q.

Definition cell_cmp (a b : Z * Z) : comparison :=
  match fst a ?= fst b with Eq => snd a ?= snd b | c => c end.

Definition cell_eqb (a b : cell) : bool := (fst a =? fst b) && (snd a =? snd b).

Definition zmem (x : Z) (l : list Z) : bool := existsb (Z.eqb x) l.

(* std::set<int>::insert on a list kept ascending *)
Fixpoint zset_place (x : Z) (l : list Z) : list Z :=
  match l with
  | [] => [x]
  | y :: t => if x <? y then x :: y :: t else y :: zset_place x t
  end.
Definition zset_insert (x : Z) (l : list Z) : list Z :=
  if zmem x l then l else zset_place x l.

(* std::map as an association list in key order.  m_find is find(); m_update
   is `m[k] = f(m.find(k))`: an existing key keeps its position, a new key is
   placed before the first greater key. *)
Section SortedMap.
  Variables (K V : Type) (cmp : K -> K -> comparison).

  Fixpoint m_find (k : K) (m : list (K * V)) : option V :=
    match m with
    | [] => None
    | (k', v) :: t => match cmp k k' with Eq => Some v | _ => m_find k t end
    end.

  Fixpoint m_replace (k : K) (v : V) (m : list (K * V)) : list (K * V) :=
    match m with
    | [] => []
    | (k', v') :: t =>
      match cmp k k' with Eq => (k', v) :: t | _ => (k', v') :: m_replace k v t end
    end.

  Fixpoint m_place (k : K) (v : V) (m : list (K * V)) : list (K * V) :=
    match m with
    | [] => [(k, v)]
    | (k', v') :: t =>
      match cmp k k' with Lt => (k, v) :: (k', v') :: t | _ => (k', v') :: m_place k v t end
    end.

  Definition m_update (k : K) (f : option V -> V) (m : list (K * V)) : list (K * V) :=
    match m_find k m with
    | Some v => m_replace k (f (Some v)) m
    | None => m_place k (f None) m
    end.
End SortedMap.
Arguments m_find {K V} cmp k m.
Arguments m_replace {K V} cmp k v m.
Arguments m_place {K V} cmp k v m.
Arguments m_update {K V} cmp k f m.

(* std::map::emplace: no effect when the key is present *)
Definition m_emplace {K V} (cmp : K -> K -> comparison) (k : K) (v : V) (m : list (K * V)) :=
  match m_find cmp k m with Some _ => m | None => m_place cmp k v m end.

(* One random choice among `l`: pick_random_item(l, generator) returns
   *std::next(l.begin(), index) with index uniform in [0, size-1]. *)
Definition pick {A} (l : list A) (tp : tape) : result (A * tape) :=
  match tp with
  | [] => Err TapeMismatch
  | i :: t => match nth_error l i with Some a => Ok (a, t) | None => Err TapeMismatch end
  end.

(* The code calls pick_random_item only when there are two or more candidates;
   `whenempty` is what it does with none. *)
Definition choose {A} (whenempty : result (A * tape)) (l : list A) (tp : tape)
  : result (A * tape) :=
  match l with
  | [] => whenempty
  | [a] => Ok (a, tp)
  | _ => pick l tp
  end.

(* --------------------------------------------------------------------- grid *)

(* BBox<double> bbox, ew_res, ns_res (constructor arguments of Network) *)
Record grid : Set := mkgrid
  { g_north : Q; g_south : Q; g_east : Q; g_west : Q; g_ew : Q; g_ns : Q }.

(* Network::xy_to_row_col(double, double) *)
Definition xy_to_cell (g : grid) (x y : Q) : cell :=
  (Qfloor ((g_north g - y) / g_ns g)%Q, Qfloor ((x - g_west g) / g_ew g)%Q).

(* max_row_, max_col_ as the constructor computes them *)
Definition max_cell (g : grid) : cell := xy_to_cell g (g_east g) (g_south g).

(* Network::cell_out_of_bbox *)
Definition cell_out_of_bbox (g : grid) (c : cell) : bool :=
  (fst c >? fst (max_cell g)) || (fst c <? 0) || (snd c >? snd (max_cell g)) || (snd c <? 0).

(* distance_per_cell_ *)
Definition distance_per_cell (g : grid) : Q := ((g_ew g + g_ns g) / 2)%Q.

(* ----------------------------------------------- EdgeGeometry and its view *)

Record segment : Set := mkseg
  { sg_cells : list cell;    (* the vector of cells *)
    sg_cpc : Q;              (* cost_per_cell_ *)
    sg_total : Q;            (* total_cost_ *)
    sg_prob : Q }.           (* probability_ *)

(* this->size() - 1 (size_t arithmetic; segments held by a network have size >= 2) *)
Definition sg_n1 (s : segment) : Z := Z.of_nat (List.length (sg_cells s)) - 1.

(* static_cast<bool>(total_cost_) *)
Definition has_total (s : segment) : bool := negb (Qeq_bool (sg_total s) 0%Q).

(* EdgeGeometry::cost *)
Definition seg_cost (s : segment) : Q :=
  if has_total s then sg_total s else (inject_Z (sg_n1 s) * sg_cpc s)%Q.

(* EdgeGeometry::cost_per_cell *)
Definition seg_cpc (s : segment) : Q :=
  if has_total s then (sg_total s / inject_Z (sg_n1 s))%Q else sg_cpc s.

(* EdgeGeometry::index_from_cost: std::lround(cost / cost_per_cell()).  With a
   zero cost per cell the quotient is inf or NaN and the conversion is
   undefined. *)
Definition index_from_cost (s : segment) (c : Q) : result Z :=
  if Qeq_bool (seg_cpc s) 0%Q then Err UB_OutOfBounds else Ok (q_lround (c / seg_cpc s)%Q).

(* EdgeGeometryView: the cells in the direction of travel + the underlying segment *)
Record view : Set := mkview { v_cells : list cell; v_seg : segment }.

Definition v_cost (v : view) : Q := seg_cost (v_seg v).

Definition nth_cell (l : list cell) (i : Z) : result cell :=
  if i <? 0 then Err UB_OutOfBounds
  else match nth_error l (Z.to_nat i) with Some c => Ok c | None => Err UB_OutOfBounds end.

(* EdgeGeometryView::cell_by_cost: the index is computed on the underlying
   segment and applied to the view. *)
Definition view_cell_by_cost (v : view) (c : Q) : result cell :=
  do i <- index_from_cost (v_seg v) c; nth_cell (v_cells v) i.

(* ContainerView::front / back *)
Definition view_front (v : view) : result cell := nth_cell (v_cells v) 0.
Definition view_back (v : view) : result cell :=
  nth_cell (v_cells v) (Z.of_nat (List.length (v_cells v)) - 1).

(* ------------------------------------------------------------------ Network *)

Record network : Set := mknet
  { nw_grid : grid;
    nw_nodes : list (cell * list node);               (* nodes_by_row_col_ *)
    nw_adj : list (node * (list Q * list node));      (* node_matrix_: (probabilities, neighbours) *)
    nw_segs : list ((node * node) * segment) }.       (* segments_by_nodes_ *)

(* get_nodes_at *)
Definition nodes_at (net : network) (c : cell) : list node :=
  match m_find cell_cmp c (nw_nodes net) with Some l => l | None => [] end.

(* has_node_at *)
Definition has_node_at (net : network) (c : cell) : bool :=
  match m_find cell_cmp c (nw_nodes net) with Some _ => true | None => false end.

(* get_random_node_at *)
Definition random_node_at (net : network) (c : cell) (tp : tape) : result (node * tape) :=
  choose (Err InvalidArgument) (nodes_at net c) tp.

(* get_node_row_col: the first cell in map order holding the node *)
Fixpoint find_node_cell (n : node) (m : list (cell * list node)) : result cell :=
  match m with
  | [] => Err InvalidArgument
  | (c, ns) :: t => if zmem n ns then Ok c else find_node_cell n t
  end.
Definition node_cell (net : network) (n : node) : result cell := find_node_cell n (nw_nodes net).

(* get_segment *)
Definition get_segment (net : network) (a b : node) : result view :=
  match m_find cell_cmp (a, b) (nw_segs net) with
  | Some s => Ok (mkview (sg_cells s) s)
  | None =>
    match m_find cell_cmp (b, a) (nw_segs net) with
    | Some s => Ok (mkview (rev (sg_cells s)) s)
    | None => Err InvalidArgument
    end
  end.

(* node_matrix_.at(node) *)
Definition adj_at (net : network) (n : node) : result (list Q * list node) :=
  match m_find Z.compare n (nw_adj net) with Some r => Ok r | None => Err OutOfRange end.

(* nodes_connected_to *)
Definition connected (net : network) (n : node) : result (list node) :=
  do r <- adj_at net n; Ok (snd r).

(* next_node: the list the next node is drawn from.  One element = no random
   draw.  An empty neighbour list gives the node itself, a single neighbour is
   taken even when it is in `ignore`, otherwise the neighbours not in `ignore`,
   or all neighbours when none is left. *)
Definition next_node_cands (net : network) (n : node) (ignore : list node)
  : result (list node) :=
  do all <- connected net n;
  match all with
  | [] => Ok [n]
  | [m] => Ok [m]
  | _ =>
    match filter (fun id => negb (zmem id ignore)) all with
    | [] => Ok all
    | cand => Ok cand
    end
  end.

Definition next_node (net : network) (n : node) (ignore : list node) (tp : tape)
  : result (node * tape) :=
  do cands <- next_node_cands net n ignore;
  choose (Err UB_OutOfBounds) cands tp.

(* Where walk stops on the segment it is on when `d` is left *)
Definition stop_cell (v : view) (d : Q) (jump : bool) : result cell :=
  if jump then
    if Qlt_bool d (v_cost v / 2)%Q then view_front v else view_back v
  else view_cell_by_cost v d.

(* What a walk did: final cell; the segment views it went over, in order (the
   last one is the one it stopped on when w_on_segment); the nodes in order. *)
Record wres : Set := mkwres
  { w_cell : cell; w_views : list view; w_path : list node; w_on_segment : bool }.

(* The loop of Network::walk.  nd = node_id, visited = visited_nodes. *)
Fixpoint walk_loop (fuel : nat) (net : network) (start : cell) (jump : bool)
         (nd : node) (visited : list node) (d : Q) (tp : tape) : result wres :=
  match fuel with
  | O => Err OutOfFuel
  | S f =>
    if Qle_bool 0%Q d then
      match next_node net nd visited tp with
      | Err e => Err e
      | Ok (nx, tp') =>
        let visited' := zset_insert nd visited in
        if nx =? nd then Ok (mkwres start [] [nd] false)
        else
          do v <- get_segment net nd nx;
          if Qlt_bool (v_cost v) d then
            do r <- walk_loop f net start jump nx visited' (Qred (d - v_cost v)%Q) tp';
            Ok (mkwres (w_cell r) (v :: w_views r) (nd :: w_path r) (w_on_segment r))
          else
            do c <- stop_cell v d jump;
            Ok (mkwres c [v] [nd; nx] true)
      end
    else Err InvalidArgument
  end.

(* Network::walk *)
Definition walk_tr (net : network) (fuel : nat) (start : cell) (d : Q) (jump : bool) (tp : tape)
  : result wres :=
  match random_node_at net start tp with
  | Err e => Err e
  | Ok (n0, tp') => walk_loop fuel net start jump n0 [] d tp'
  end.

Definition walk (net : network) (fuel : nat) (start : cell) (d : Q) (jump : bool) (tp : tape)
  : result cell :=
  do r <- walk_tr net fuel start d jump tp; Ok (w_cell r).

(* Smallest segment cost of the network and the fuel of walk_terminates. *)
Definition min_cost (net : network) : option Q :=
  fold_right (fun ks acc =>
      match acc with
      | None => Some (seg_cost (snd ks))
      | Some m => Some (if Qle_bool (seg_cost (snd ks)) m then seg_cost (snd ks) else m)
      end) None (nw_segs net).

Definition costs_positive (net : network) : bool :=
  forallb (fun ks => Qlt_bool 0%Q (seg_cost (snd ks))) (nw_segs net).

Definition walk_fuel (net : network) (d : Q) : nat :=
  match min_cost net with
  | Some m => S (Z.to_nat (Qceiling (d / m)%Q))
  | None => 1%nat
  end.

(* next_probable_node: candidates by index.  With probabilities the index is
   the outcome of std::discrete_distribution over them (never an index of
   weight 0; all weights 0 is outside its precondition). *)
Definition qsum (l : list Q) : Q := fold_right Qplus 0%Q l.

Definition next_probable_node (net : network) (n : node) (tp : tape) : result (node * tape) :=
  do r <- adj_at net n;
  match snd r with
  | [] => Ok (n, tp)
  | [m] => Ok (m, tp)
  | nodes =>
    match fst r with
    | [] => pick nodes tp
    | probs =>
      if Qle_bool (qsum probs) 0%Q then Err UB_OutOfBounds
      else match tp with
      | [] => Err TapeMismatch
      | i :: t =>
        match nth_error probs i with
        | None => Err TapeMismatch
        | Some p =>
          if Qlt_bool 0%Q p then
            match nth_error nodes i with      (* nodes.at(index) *)
            | Some m => Ok (m, t)
            | None => Err OutOfRange
            end
          else Err TapeMismatch
        end
      end
    end
  end.

Fixpoint teleport_steps (k : nat) (net : network) (n : node) (tp : tape) : result (node * tape) :=
  match k with
  | O => Ok (n, tp)
  | S k' =>
    match next_probable_node net n tp with
    | Err e => Err e
    | Ok (m, tp') => teleport_steps k' net m tp'
    end
  end.

(* Network::teleport; the node reached and its cell *)
Definition teleport_tr (net : network) (start : cell) (num_steps : Z) (tp : tape)
  : result (node * cell) :=
  match random_node_at net start tp with
  | Err e => Err e
  | Ok (n0, tp') =>
    match teleport_steps (Z.to_nat num_steps) net n0 tp' with
    | Err e => Err e
    | Ok (m, _) => do c <- node_cell net m; Ok (m, c)
    end
  end.

Definition teleport (net : network) (start : cell) (num_steps : Z) (tp : tape) : result cell :=
  do r <- teleport_tr net start num_steps tp; Ok (snd r).

(* ---------------------------------------------------- NetworkDispersalKernel *)

Record kernel : Set := mkkernel
  { k_teleport : bool; k_jump : bool; k_min : Q; k_max : Q }.

(* The two constructors *)
Definition walking_kernel (dmin dmax : Q) (jump : bool) : kernel := mkkernel false jump dmin dmax.
Definition teleporting_kernel : kernel := mkkernel true false 0%Q 0%Q.

(* create_anthro_kernel, network branch: config.network_movement *)
Definition kernel_of_movement (movement : string) (dmin dmax : Q) : kernel :=
  if String.eqb movement "teleport" then teleporting_kernel
  else walking_kernel dmin dmax (String.eqb movement "jump").

(* operator(): `dist` is the outcome of distance_distribution_(generator)
   (uniform on [min, max); min when min = max) *)
Definition kernel_call (net : network) (k : kernel) (fuel : nat) (dist : Q) (start : cell) (tp : tape)
  : result cell :=
  if k_teleport k then teleport net start 1 tp
  else if Qle_bool (k_min k) dist && (Qlt_bool dist (k_max k) || Qeq_bool (k_min k) (k_max k))
  then walk net fuel start dist (k_jump k) tp
  else Err TapeMismatch.

(* is_cell_eligible *)
Definition is_cell_eligible (net : network) (c : cell) : bool := has_node_at net c.

(* ------------------------------------------------------------------ loading *)

(* Column labels of the first line as stream_has_columns distinguishes them *)
Inductive label : Set := L_node1 | L_probability | L_cost | L_other.

(* the while loop over the labels; col = column_number before the increment *)
Fixpoint header_scan (col : Z) (ls : list label) (hc hp : bool) : result (bool * bool) :=
  match ls with
  | [] => Ok (hc, hp)
  | l :: t =>
    let col := col + 1 in
    match l with
    | L_probability =>
      if hc then Err RuntimeError
      else if negb (col =? 3) then Err RuntimeError
      else header_scan col t hc true
    | L_cost =>
      if negb ((col =? 3) || (col =? 4)) then Err RuntimeError
      else header_scan col t true hp
    | _ => header_scan col t hc hp
    end
  end.

(* stream_has_columns: (has_cost, has_probability, first line consumed).  A first
   line whose first label is not node_1 is read again as a record. *)
Definition stream_has_columns (first_line : list label) : result (bool * bool * bool) :=
  match first_line with
  | [] => Ok (false, false, true)
  | L_node1 :: _ =>
    do r <- header_scan 0 first_line false false; Ok (fst r, snd r, true)
  | _ => Ok (false, false, false)
  end.

(* One line, tokenised: every field is what its conversion returned or threw.
   rr_prob / rr_cost are looked at only when the header announces the column. *)
Record rawrec : Type := mkraw
  { rr_n1 : result Z; rr_n2 : result Z; rr_prob : result Q; rr_cost : result Q;
    rr_pts : list (result (Q * Q)) }.

(* The inner while loop: convert each coordinate pair, append its cell unless
   it equals the last appended one; count the pairs.  `acc` is the segment in
   reverse. *)
Fixpoint read_points (g : grid) (pts : list (result (Q * Q))) (acc : list cell) (n : Z)
  : result (list cell * Z) :=
  match pts with
  | [] => Ok (rev acc, n)
  | p :: t =>
    do xy <- p;
    let c := xy_to_cell g (fst xy) (snd xy) in
    match acc with
    | last :: _ => if cell_eqb last c then read_points g t acc (n + 1)
                   else read_points g t (c :: acc) (n + 1)
    | [] => read_points g t [c] (n + 1)
    end
  end.

(* The body of the record loop of load_segments up to the emplace:
   Ok None = the edge is skipped (an end node outside the bounding box). *)
Definition record_segment (g : grid) (hc hp : bool) (r : rawrec)
  : result (option ((node * node) * segment)) :=
  do n1 <- rr_n1 r;
  do n2 <- rr_n2 r;
  if (n1 <? 1) || (n2 <? 1) then Err RuntimeError
  else
    do prob <- (if hp then
                  do p <- rr_prob r; if Qlt_bool p 0%Q then Err InvalidArgument else Ok p
                else Ok 0%Q);
    do cost <- (if hc then rr_cost r else Ok 0%Q);
    let cpc := if hc then 0%Q else distance_per_cell g in
    do pc <- read_points g (rr_pts r) [] 0;
    match fst pc with
    | [] => Err RuntimeError
    | c0 :: rest =>
      if snd pc <? 2 then Err RuntimeError
      else
        let cells := match rest with [] => [c0; c0] | _ => c0 :: rest end in
        if cell_out_of_bbox g c0 || cell_out_of_bbox g (last cells c0) then Ok None
        else Ok (Some ((n1, n2), mkseg cells cpc cost prob))
    end.

Fixpoint load_records (g : grid) (hc hp : bool) (rs : list rawrec)
         (segs : list ((node * node) * segment)) : result (list ((node * node) * segment)) :=
  match rs with
  | [] => Ok segs
  | r :: t =>
    do o <- record_segment g hc hp r;
    match o with
    | None => load_records g hc hp t segs
    | Some (k, s) => load_records g hc hp t (m_emplace cell_cmp k s segs)
    end
  end.

(* nodes_by_row_col_[cell].insert(n) *)
Definition add_node_at (c : cell) (n : node) (m : list (cell * list node)) :=
  m_update cell_cmp c (fun o => zset_insert n (match o with Some l => l | None => [] end)) m.

(* node_matrix_[n].first.push_back(p) (when has_probability) and .second.push_back(m) *)
Definition add_neighbour (hp : bool) (n : node) (p : Q) (m : node)
           (adj : list (node * (list Q * list node))) :=
  m_update Z.compare n
    (fun o => let r := match o with Some r => r | None => ([], []) end in
              ((if hp then fst r ++ [p] else fst r), snd r ++ [m])) adj.

(* The second loop of load_segments, over segments_by_nodes_ in key order. *)
Fixpoint index_segments (hp : bool) (segs : list ((node * node) * segment))
         (nodes : list (cell * list node)) (adj : list (node * (list Q * list node)))
  : list (cell * list node) * list (node * (list Q * list node)) :=
  match segs with
  | [] => (nodes, adj)
  | ((a, b), s) :: t =>
    let c0 := hd (0, 0) (sg_cells s) in
    let c1 := last (sg_cells s) (0, 0) in
    let nodes := add_node_at c1 b (add_node_at c0 a nodes) in
    (* the probability pushes happen before the neighbour pushes; the two
       vectors are independent, so the pairs can be pushed together *)
    let adj := add_neighbour hp b (sg_prob s) a (add_neighbour hp a (sg_prob s) b adj) in
    index_segments hp t nodes adj
  end.

(* Network::load on a fresh network.  `lines` are all lines of the stream,
   tokenised as records (the first one too); first_line is the first line split
   into column labels. *)
Definition load (g : grid) (first_line : list label) (lines : list rawrec) (allow_empty : bool)
  : result network :=
  do h <- stream_has_columns first_line;
  let hc := fst (fst h) in
  let hp := snd (fst h) in
  let recs := if snd h then tl lines else lines in
  do segs <- load_records g hc hp recs [];
  let na := index_segments hp segs [] [] in
  match snd na with
  | [] => if allow_empty then Ok (mknet g (fst na) (snd na) segs) else Err RuntimeError
  | _ => Ok (mknet g (fst na) (snd na) segs)
  end.

(* --------------------------------- all outcomes over all tapes (enumeration) *)
(* (a neighbour listed twice is followed once: the set of outcomes is the same) *)

Fixpoint walk_all_loop (fuel : nat) (net : network) (start : cell) (jump : bool)
         (nd : node) (visited : list node) (d : Q) : list (result cell) :=
  match fuel with
  | O => [Err OutOfFuel]
  | S f =>
    if Qle_bool 0%Q d then
      match next_node_cands net nd visited with
      | Err e => [Err e]
      | Ok [] => [Err UB_OutOfBounds]
      | Ok cands =>
        flat_map (fun nx =>
          if nx =? nd then [Ok start]
          else match get_segment net nd nx with
          | Err e => [Err e]
          | Ok v =>
            if Qlt_bool (v_cost v) d then
              walk_all_loop f net start jump nx (zset_insert nd visited) (Qred (d - v_cost v)%Q)
            else [stop_cell v d jump]
          end) (nodup Z.eq_dec cands)
      end
    else [Err InvalidArgument]
  end.

Definition walk_all (net : network) (fuel : nat) (start : cell) (d : Q) (jump : bool)
  : list (result cell) :=
  match nodes_at net start with
  | [] => [Err InvalidArgument]
  | ns => flat_map (fun n0 => walk_all_loop fuel net start jump n0 [] d) ns
  end.

(* nodes a teleport step can reach from n *)
Definition next_probable_all (net : network) (n : node) : list (result node) :=
  match adj_at net n with
  | Err e => [Err e]
  | Ok r =>
    match snd r with
    | [] => [Ok n]
    | [m] => [Ok m]
    | nodes =>
      match fst r with
      | [] => map Ok nodes
      | probs =>
        if Qle_bool (qsum probs) 0%Q then [Err UB_OutOfBounds]
        else flat_map (fun i =>
               match nth_error probs i with
               | Some p => if Qlt_bool 0%Q p then
                             match nth_error nodes i with Some m => [Ok m] | None => [Err OutOfRange] end
                           else []
               | None => []
               end) (seq 0 (List.length probs))
      end
    end
  end.

Fixpoint teleport_all_steps (k : nat) (net : network) (n : node) : list (result node) :=
  match k with
  | O => [Ok n]
  | S k' =>
    flat_map (fun r => match r with Err e => [Err e] | Ok m => teleport_all_steps k' net m end)
             (next_probable_all net n)
  end.

Definition teleport_all (net : network) (start : cell) (num_steps : Z) : list (result cell) :=
  match nodes_at net start with
  | [] => [Err InvalidArgument]
  | ns =>
    flat_map (fun n0 =>
      map (fun r => match r with Err e => Err e | Ok m => node_cell net m end)
          (teleport_all_steps (Z.to_nat num_steps) net n0)) ns
  end.

Definition kernel_call_all (net : network) (k : kernel) (fuel : nat) (dist : Q) (start : cell)
  : list (result cell) :=
  if k_teleport k then teleport_all net start 1
  else walk_all net fuel start dist (k_jump k).
