(* The two cell updates that LandDefs.move_hosts (HostPool::move_hosts_from_to)
   performs inline: subtract the drawn hosts at the source cell, add them at the
   destination cell.  Invariants of CellProps.v are preserved and hq moves by
   exactly the number of hosts moved. *)
From Coq Require Import ZArith QArith Qround List Bool Lia ZifyBool.
From Pops Require Import Err Rounding RoundingProps CellDefs CellProps.
Import ListNotations.
Local Open Scope Z_scope.
Ltac Zify.zify_post_hook ::= Z.div_mod_to_equations.

Definition move_out (c : cell) (sm : Z) (ed : list Z) (im em rm : Z) (md : list Z) (moved : Z)
  : cell :=
  mkcell (cS c - sm) (sub_list (cE c) ed) (cI c - im) (cTE c - em) (cR c - rm)
         (sub_list (cM c) md) (cD c) (cTH c - moved).

Definition move_in (c : cell) (sm : Z) (ed : list Z) (im em rm : Z) (md : list Z) (moved : Z)
  : cell :=
  mkcell (cS c + sm) (add_list (cE c) ed) (cI c + im) (cTE c + em) (cR c + rm)
         (add_list (cM c) md) (cD c) (cTH c + moved).

Definition zeros_like (l : list Z) : list Z := map (fun _ => 0) l.

Definition move_draw_ok (c : cell) (sm : Z) (ed : list Z) (im em rm : Z) (md : list Z)
  (moved : Z) : Prop :=
  valid_draw [cI c; cS c; cTE c; cR c] [im; sm; em; rm] moved = true /\
  (if em >? 0 then valid_draw (cE c) ed em = true else ed = zeros_like (cE c)) /\
  (if im >? 0 then valid_draw (cM c) md im = true else md = zeros_like (cM c)).

(* ---- helpers ---- *)

Lemma zeros_like_length l : length (zeros_like l) = length l.
Proof. unfold zeros_like. apply map_length. Qed.

Lemma zeros_like_sum l : sumZ (zeros_like l) = 0.
Proof. unfold zeros_like. apply sumZ_map_zero. intros; reflexivity. Qed.

Lemma zeros_like_pointwise_le l : nonneg l -> pointwise_le (zeros_like l) l.
Proof. intros H. unfold zeros_like. apply pointwise_le_map; [intros; lia | exact H]. Qed.

Lemma sub_list_zeros_like l : sub_list l (zeros_like l) = l.
Proof.
  unfold zeros_like. rewrite sub_list_map. apply map_id_ext. intros; lia.
Qed.

Lemma add_list_zeros_like l : add_list l (zeros_like l) = l.
Proof.
  unfold zeros_like. induction l as [|x l IH]; cbn [map add_list]; [reflexivity|].
  rewrite IH. f_equal. lia.
Qed.

Lemma add_list_nonneg a : forall b, nonneg a -> nonneg b -> nonneg (add_list a b).
Proof.
  induction a as [|x a IH]; intros [|y b] Ha Hb; cbn [add_list]; try assumption.
  apply nonneg_cons in Ha as [Hx Ha]. apply nonneg_cons in Hb as [Hy Hb].
  apply nonneg_cons. split; [lia | apply IH; assumption].
Qed.

Lemma add_sub_list a : forall d, sub_list (add_list a d) d = a.
Proof.
  induction a as [|x a IH]; intros [|y d]; cbn [add_list sub_list]; try reflexivity.
  rewrite IH. f_equal. lia.
Qed.

Lemma sub_add_list a : forall d, add_list (sub_list a d) d = a.
Proof.
  induction a as [|x a IH]; intros [|y d]; cbn [add_list sub_list]; try reflexivity.
  rewrite IH. f_equal. lia.
Qed.

(* what a validated set of movement draws says, in Prop form *)
Lemma move_draw_ok_facts c sm ed im em rm md moved : Inv0 c -> 0 <= moved <= cTH c ->
  move_draw_ok c sm ed im em rm md moved ->
  0 <= sm <= cS c /\ 0 <= im <= cI c /\ 0 <= em <= cTE c /\ 0 <= rm <= cR c /\
  sm + im + em + rm = moved /\
  pointwise_le ed (cE c) /\ sumZ ed = em /\
  pointwise_le md (cM c) /\ sumZ md = Z.min im (sumZ (cM c)).
Proof.
  intros HInv Hmoved (H4 & Hed & Hmd).
  unfold Inv0 in HInv. inv0_destruct HInv.
  destruct (valid_draw_spec _ _ _ H4) as (Hpw4 & Hsum4 & _).
  inversion Hpw4 as [|x1 y1 l1 l1' Hi Hpw3]; subst.
  inversion Hpw3 as [|x2 y2 l2 l2' Hs Hpw2]; subst.
  inversion Hpw2 as [|x3 y3 l3 l3' He Hpw1]; subst.
  inversion Hpw1 as [|x4 y4 l4 l4' Hr Hpw0]; subst.
  clear Hpw4 Hpw3 Hpw2 Hpw1 Hpw0.
  cbn [sumZ] in Hsum4.
  rewrite draw_total_exact in Hsum4 by (cbn [sumZ]; lia).
  pose proof (sumZ_nonneg _ HM) as HM0.
  assert (GE : pointwise_le ed (cE c) /\ sumZ ed = em).
  { destruct (em >? 0) eqn:EE.
    - destruct (valid_draw_spec _ _ _ Hed) as (Hpw & Hsum & _).
      split; [exact Hpw|]. rewrite Hsum. apply draw_total_exact. lia.
    - subst ed. split; [apply zeros_like_pointwise_le; exact HE|].
      rewrite zeros_like_sum. lia. }
  assert (GM : pointwise_le md (cM c) /\ sumZ md = Z.min im (sumZ (cM c))).
  { destruct (im >? 0) eqn:EI.
    - destruct (valid_draw_spec _ _ _ Hmd) as (Hpw & Hsum & _).
      split; [exact Hpw|]. rewrite Hsum. unfold draw_total.
      destruct (im <? 0) eqn:E; [lia | reflexivity].
    - subst md. split; [apply zeros_like_pointwise_le; exact HM|].
      rewrite zeros_like_sum. lia. }
  destruct GE as [GE1 GE2]. destruct GM as [GM1 GM2].
  split; [lia|]. split; [lia|]. split; [lia|]. split; [lia|]. split; [lia|].
  split; [exact GE1|]. split; [exact GE2|]. split; [exact GM1 | exact GM2].
Qed.

(* ---- 1. source cell ---- *)

Lemma move_out_spec c sm ed im em rm md moved : Inv0 c -> 0 <= moved <= cTH c ->
  move_draw_ok c sm ed im em rm md moved ->
  let c' := move_out c sm ed im em rm md moved in
  Inv0 c' /\ hq c' = hq c - moved /\ (InvM c -> InvM c') /\ (InvLe c -> InvLe c') /\
  0 <= sm /\ 0 <= im /\ 0 <= em /\ 0 <= rm /\ sm + im + em + rm = moved /\
  nonneg ed /\ nonneg md /\ sumZ ed = em /\ length ed = length (cE c) /\
  length md = length (cM c) /\ sumZ md <= im /\ (InvM c -> sumZ md = im).
Proof.
  intros HInv Hmoved Hok c'. subst c'.
  destruct (move_draw_ok_facts _ _ _ _ _ _ _ _ HInv Hmoved Hok)
    as (Fs & Fi & Fe & Fr & Fsum & Fpe & Fse & Fpm & Fsm).
  pose proof (sub_list_nonneg _ _ Fpe) as Hne.
  pose proof (sub_list_nonneg _ _ Fpm) as Hnm.
  pose proof (pointwise_le_length _ _ Fpe) as Hle.
  pose proof (pointwise_le_length _ _ Fpm) as Hlm.
  pose proof (sumZ_sub_list (cE c) ed (eq_sym Hle)) as Hsse.
  pose proof (sumZ_sub_list (cM c) md (eq_sym Hlm)) as Hssm.
  pose proof (pointwise_le_nonneg_l _ _ Fpe) as Hned.
  pose proof (pointwise_le_nonneg_l _ _ Fpm) as Hnmd.
  unfold move_out. unfold Inv0, InvM, InvLe, hq, hosts in *. inv0_destruct HInv. cellsimpl.
  split; [repeat (split; [first [assumption | lia]|]); lia|].
  split; [lia|]. split; [lia|]. split; [lia|].
  split; [lia|]. split; [lia|]. split; [lia|]. split; [lia|]. split; [lia|].
  split; [exact Hned|]. split; [exact Hnmd|]. split; [exact Fse|]. split; [exact Hle|].
  split; [exact Hlm|]. split; lia.
Qed.

(* ---- 2. destination cell ---- *)

Lemma move_in_spec c sm ed im em rm md moved : Inv0 c ->
  0 <= sm -> 0 <= im -> 0 <= em -> 0 <= rm -> sm + im + em + rm = moved ->
  nonneg ed -> nonneg md -> sumZ ed = em -> length ed = length (cE c) ->
  length md = length (cM c) -> sumZ md <= im ->
  let c' := move_in c sm ed im em rm md moved in
  Inv0 c' /\ hq c' = hq c + moved /\ (InvLe c -> InvLe c') /\
  (InvM c -> sumZ md = im -> InvM c').
Proof.
  intros HInv Hs Hi He Hr Hsum Hned Hnmd Hsed Hle Hlm Hsmd c'. subst c'.
  pose proof (sumZ_add_list (cE c) ed (eq_sym Hle)) as Hsae.
  pose proof (sumZ_add_list (cM c) md (eq_sym Hlm)) as Hsam.
  unfold move_in. unfold Inv0, InvM, InvLe, hq, hosts in *. inv0_destruct HInv. cellsimpl.
  pose proof (add_list_nonneg _ _ HE Hned) as Hne.
  pose proof (add_list_nonneg _ _ HM Hnmd) as Hnm.
  split; [repeat (split; [first [assumption | lia]|]); lia|].
  split; [lia|]. split; lia.
Qed.

(* ---- 3. source = destination ---- *)

Lemma move_same_cell c sm ed im em rm md moved : Inv0 c -> 0 <= moved <= cTH c ->
  move_draw_ok c sm ed im em rm md moved ->
  let c1 := move_out c sm ed im em rm md moved in
  let c2 := move_in c1 sm ed im em rm md moved in
  Inv0 c2 /\ hq c2 = hq c /\ (InvM c -> InvM c2) /\ (InvLe c -> InvLe c2).
Proof.
  intros HInv Hmoved Hok c1 c2.
  destruct (move_out_spec c sm ed im em rm md moved HInv Hmoved Hok)
    as (G1 & Ghq & GM & GLe & Hs & Hi & He & Hr & Hsum & Hned & Hnmd & Hsed & Hle & Hlm & Hsmd & HsmdM).
  fold c1 in G1, Ghq, GM, GLe.
  assert (Hle1 : length ed = length (cE c1))
    by (subst c1; unfold move_out; cellsimpl; rewrite sub_list_length; exact Hle).
  assert (Hlm1 : length md = length (cM c1))
    by (subst c1; unfold move_out; cellsimpl; rewrite sub_list_length; exact Hlm).
  destruct (move_in_spec c1 sm ed im em rm md moved G1 Hs Hi He Hr Hsum Hned Hnmd Hsed Hle1 Hlm1 Hsmd)
    as (K1 & Khq & KLe & KM).
  fold c2 in K1, Khq, KLe, KM.
  split; [exact K1|]. split; [lia|]. split.
  - intros HM. apply KM; [apply GM; exact HM | apply HsmdM; exact HM].
  - intros HL. apply KLe, GLe, HL.
Qed.

(* moving within one cell gives the cell back, field by field *)
Lemma move_same_cell_eq c sm ed im em rm md moved :
  move_in (move_out c sm ed im em rm md moved) sm ed im em rm md moved = c.
Proof.
  unfold move_in, move_out. cellsimpl. rewrite !sub_add_list.
  rewrite (cell_eta c) at 9. f_equal; lia.
Qed.
