(* Kernels engine (C13): SwitchDispersalKernel, eligibility of the real kernels
   and the natural/anthropogenic mix built from real kernels.  Definitions
   composed from the translated tables of GeneratedKernelTables.v
   (gen_switch_*, class_eligible, class_supports, wrapper_eligible,
   switch_stored_stochasticity, factory_*, mix_*, dynamic_kernel_args) plus the
   hand-written specification side (names ending in _spec).  No proofs here. *)
From Coq Require Import ZArith String List Bool.
From Pops Require Import Err KernelTypesDefs GeneratedKernelTables.
Import ListNotations.
Local Open Scope string_scope.

(* ---------- model of the code ---------- *)
(* Class of the member kernel that SwitchDispersalKernel(ty, ..., stoch)::operator()
   calls; stoch is the constructor argument dispersal_stochasticity. *)
Definition switch_target (ty : kernel_type) (stoch : bool) : kernel_class :=
  first_match gen_switch_dispatch gen_switch_dispatch_else ty (switch_stored_stochasticity stoch).

Definition elig_src_eval (s : elig_src) (node_at : bool) : bool :=
  match s with
  | SeConst b => b
  | SeMember c => elig_eval (class_eligible c) node_at
  end.

(* SwitchDispersalKernel(ty, ..., stoch)::is_cell_eligible(row, col), where
   node_at says whether the network has a node at (row, col). *)
Definition switch_eligible (ty : kernel_type) (stoch : bool) (node_at : bool) : bool :=
  elig_src_eval
    (first_match gen_switch_eligible gen_switch_eligible_else ty (switch_stored_stochasticity stoch))
    node_at.

Definition switch_supports (ty : kernel_type) : bool :=
  match first_match gen_switch_supports gen_switch_supports_else ty false with
  | SsConst b => b
  | SsClass c => class_supports c ty
  end.

(* is_cell_eligible of the DynamicWrapperKernel objects the factories build *)
Definition factory_natural_eligible (k : kernel_type) (stoch node_at : bool) : bool :=
  wrapper_eligible (elig_eval (class_eligible (factory_natural k stoch)) node_at).
Definition factory_anthropogenic_eligible (k : kernel_type) (stoch node_at : bool) : bool :=
  wrapper_eligible (elig_eval (class_eligible (factory_anthropogenic k stoch)) node_at).

(* NaturalAnthropogenicDispersalKernel whose anthropogenic kernel is a
   SwitchDispersalKernel(ty, ..., stoch) / the kernel create_anthro_kernel builds
   for type ty: the translated decision expression applied to the translated
   eligibility. *)
Definition mix_switch_choice (use : bool) (ty : kernel_type) (stoch node_at bern : bool) : mix_choice :=
  mix_choice_of use (switch_eligible ty stoch node_at) bern.
Definition mix_switch_draws (use : bool) (ty : kernel_type) (stoch node_at : bool) : bool :=
  mix_draws_bernoulli use (switch_eligible ty stoch node_at).
Definition mix_factory_choice (use : bool) (ty : kernel_type) (stoch node_at bern : bool) : mix_choice :=
  mix_choice_of use (factory_anthropogenic_eligible ty stoch node_at) bern.
Definition mix_factory_draws (use : bool) (ty : kernel_type) (stoch node_at : bool) : bool :=
  mix_draws_bernoulli use (factory_anthropogenic_eligible ty stoch node_at).

(* create_dynamic_kernel may leave the anthropogenic kernel out (null pointer)
   when it is disabled: the mix built by it dereferences a null kernel iff it
   asks for eligibility while the kernel was not built.  (Calling the kernel is
   preceded by the eligibility test in the translated expression.) *)
Definition dynamic_mix_null_dereference (use : bool) : bool :=
  mix_queries_eligibility use && negb (dynamic_kernel_anthro_built use).

(* ---------- specification side (written by hand) ---------- *)
(* The documented dispatch: the three named kernels first, every other type is a
   radial kernel type, run stochastically or deterministically. *)
Definition switch_target_spec (ty : kernel_type) (stoch : bool) : kernel_class :=
  match ty with
  | KUniform => CUniform
  | KDeterministicNeighbor => CNeighbor
  | KNetwork => CNetwork
  | _ => if stoch then CRadial else CDeterministic
  end.

(* Only the network kernel restricts the source cell. *)
Definition class_eligible_spec (c : kernel_class) (node_at : bool) : bool :=
  match c with CNetwork => node_at | _ => true end.

(* NetworkDispersalKernel::operator() documents std::invalid_argument when there
   is no node at the source cell; no other kernel class throws because of the
   source cell.  (What Network::walk / teleport do is property C15's subject.) *)
Definition class_call_throws (c : kernel_class) (node_at : bool) : bool :=
  match c with CNetwork => negb node_at | _ => false end.

Definition radial_kernel_types : list kernel_type :=
  [KCauchy; KExponential; KWeibull; KNormal; KLogNormal; KPowerLaw; KHyperbolicSecant; KGamma;
   KExponentialPower; KLogistic].

Definition kernel_type_in (ty : kernel_type) (l : list kernel_type) : bool :=
  existsb (kernel_type_eqb ty) l.

Definition class_supports_spec (c : kernel_class) : list kernel_type :=
  match c with
  | CUniform => [KUniform]
  | CNeighbor => [KDeterministicNeighbor]
  | CNetwork => [KNetwork]
  | CDeterministic | CRadial => radial_kernel_types
  end.

(* create_dynamic_kernel hands the two factory results, the switch and the
   natural share to the mix in the order of its constructor's parameters. *)
Definition dynamic_kernel_args_spec : list string :=
  [ "create_natural_kernel(config,dispersers)"; "create_anthro_kernel(config,dispersers,network)";
    "config.use_anthropogenic_kernel"; "config.percent_natural_dispersal" ].
