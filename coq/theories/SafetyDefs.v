(* Name tables whose unknown names are documented errors (C20), modelled as the
   code compares strings: model_type_from_string (model_type.hpp),
   weather_type_from_string (environment.hpp), treatment_app_enum_from_string
   (treatments.hpp), Config::set_arrival_behavior (config.hpp) and
   directions_from_string (quarantine.hpp).  Definitions only. *)
From Coq Require Import List String Bool.
From Pops Require Import Err CellDefs.
Import ListNotations.
Local Open Scope string_scope.

Definition model_type_from_string (s : string) : result model_type :=
  if existsb (String.eqb s) ["SI"; "SusceptibleInfected"; "susceptible-infected"; "susceptible_infected"]
  then Ok SI
  else if existsb (String.eqb s) ["SEI"; "SusceptibleExposedInfected"; "susceptible-exposed-infected";
                                  "susceptible_exposed_infected"]
  then Ok SEI
  else Err InvalidArgument.

Inductive weather_type : Set := WDeterministic | WProbabilistic | WNone.
Definition weather_type_from_string (s : string) : result weather_type :=
  if existsb (String.eqb s) ["deterministic"; "Deterministic"] then Ok WDeterministic
  else if existsb (String.eqb s) ["probabilistic"; "Probabilistic"] then Ok WProbabilistic
  else if existsb (String.eqb s) [""; "none"; "None"; "NONE"] then Ok WNone
  else Err InvalidArgument.

Definition treatment_app_from_string (s : string) : result treatment_app :=
  if existsb (String.eqb s) ["ratio_to_all"; "ratio"] then Ok Ratio
  else if existsb (String.eqb s) ["all_infected_in_cell"; "all infected"] then Ok AllInfectedInCell
  else Err InvalidArgument.

Definition set_arrival_behavior (s : string) : result bool :=   (* true = land *)
  if String.eqb s "infect" then Ok false else if String.eqb s "land" then Ok true
  else Err InvalidArgument.

(* directions_from_string: a comma separated list of N, S, E, W (given here
   already split); the empty text enables all four *)
Definition quarantine_direction_ok (s : string) : bool := existsb (String.eqb s) ["N"; "S"; "E"; "W"].
Definition directions_from_list (l : list string) : result (list string) :=
  if forallb quarantine_direction_ok l then Ok (match l with [] => ["N"; "E"; "S"; "W"] | _ => l end)
  else Err InvalidArgument.
