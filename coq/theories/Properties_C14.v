(* C14  The deterministic kernel allots dispersers in proportion to the kernel density.
   Statements only; each is closed by `exact` of a lemma proved in
   DetKernelProps.v (allotment and window, over Q, no axioms) or
   DetKernelQuantile.v (quantile functions, over R with Coquelicot; the
   standard-library axioms of the reals are reported below).
   The model is DetKernelDefs.v; it is tied to deterministic_kernel.hpp by the
   correspondence check of bin/check C14 (exact sequences of returned cells on
   dyadic windows, ties included) and by GeneratedKernels.v, which
   translate/kernels.py regenerates from the headers on every check: the window
   size, centre and distance statements and the pdf / icdf bodies. *)
Set Warnings "-ambiguous-paths".
From Coq Require Import ZArith QArith List Reals.
From Pops Require Import DetKernelDefs GeneratedKernels DetKernelProps DetKernelQuantile.
Import ListNotations.
Local Open Scope Q_scope.

(* ---- the executable allotment satisfies the relational greedy specification ---- *)
(* For any window (non-negative weights summing to 1), any n >= 1 and any t <= n:
   the cells returned by the t calls that follow the arrival of a new source
   cell are the cells of a pick sequence s (latest first) in which every pick
   was a maximum of the remainders p_j - count_j / n at that moment. *)
Theorem C14_allot_is_greedy : forall (w : window Q) (n : positive) (row col : Z),
  window_ok w -> forall (t : nat) (st0 : kstate Q),
  is_new_source row col st0 -> (t <= Pos.to_nat n)%nat ->
  exists s, length s = t /\ greedy (mw w) (pw w) n s /\
            fst (qrun w (repeat (row, col, Z.pos n) t) st0) = map (cell_of w row col) (rev s).
Proof. exact qrun_greedy. Qed.
Print Assumptions C14_allot_is_greedy.

(* ... and among the maxima it is the first in row-major order. *)
Theorem C14_allot_picks_first_maximum : forall (w : window Q) (n : positive) (row col : Z) (st0 : kstate Q),
  window_ok w -> is_new_source row col st0 ->
  exists i, fst (qcall w row col (Z.pos n) st0) = cell_of w row col i /\ (i < length (w_prob w))%nat /\
    (forall j, (j < length (w_prob w))%nat -> nth j (w_prob w) 0 <= nth i (w_prob w) 0) /\
    (forall j, (j < i)%nat -> nth j (w_prob w) 0 < nth i (w_prob w) 0).
Proof. exact allot_first_maximum. Qed.
Print Assumptions C14_allot_picks_first_maximum.

(* ---- share bound, both directions: | count_c - n p_c | <= 1 after the n calls ---- *)
Theorem C14_share_bound : forall (w : window Q) (n : positive) (row col : Z) (st0 : kstate Q),
  window_ok w -> is_new_source row col st0 ->
  let out := fst (qrun w (repeat (row, col, Z.pos n) (Pos.to_nat n)) st0) in
  forall c, (c < length (w_prob w))%nat ->
    inject_Z (Z.pos n) * nth c (w_prob w) 0 - 1
      <= inject_Z (Z.of_nat (count_cell (cell_of w row col c) out))
      <= inject_Z (Z.pos n) * nth c (w_prob w) 0 + 1.
Proof. exact allot_share_bound. Qed.
Print Assumptions C14_share_bound.

(* at no moment during the n calls is a cell ahead of its share by more than one *)
Theorem C14_never_ahead : forall (w : window Q) (n : positive) (row col : Z) (st0 : kstate Q) (t : nat),
  window_ok w -> is_new_source row col st0 -> (t <= Pos.to_nat n)%nat ->
  let out := fst (qrun w (repeat (row, col, Z.pos n) t) st0) in
  forall c, (c < length (w_prob w))%nat ->
    inject_Z (Z.of_nat (count_cell (cell_of w row col c) out)) <= inject_Z (Z.pos n) * nth c (w_prob w) 0 + 1.
Proof. exact allot_never_ahead. Qed.
Print Assumptions C14_never_ahead.

(* every returned cell is a cell of the window placed on the source *)
Theorem C14_cells_in_window : forall (w : window Q) (n : positive) (row col : Z) (st0 : kstate Q) (t : nat),
  window_ok w -> is_new_source row col st0 -> (t <= Pos.to_nat n)%nat ->
  List.Forall (fun c => exists k, (k < length (w_prob w))%nat /\ c = cell_of w row col k)
         (fst (qrun w (repeat (row, col, Z.pos n) t) st0)).
Proof. exact allot_cells_in_window. Qed.
Print Assumptions C14_cells_in_window.

(* ---- cells of equal weight receive the same number up to one (at every moment) ---- *)
Theorem C14_mirror_bound : forall (w : window Q) (n : positive) (row col : Z) (st0 : kstate Q) (t : nat),
  window_ok w -> is_new_source row col st0 -> (t <= Pos.to_nat n)%nat ->
  let out := fst (qrun w (repeat (row, col, Z.pos n) t) st0) in
  forall c d, (c < length (w_prob w))%nat -> (d < length (w_prob w))%nat ->
    nth c (w_prob w) 0 == nth d (w_prob w) 0 ->
    (count_cell (cell_of w row col c) out <= S (count_cell (cell_of w row col d) out))%nat /\
    (count_cell (cell_of w row col d) out <= S (count_cell (cell_of w row col c) out))%nat.
Proof. exact allot_mirror_bound. Qed.
Print Assumptions C14_mirror_bound.

(* ---- the window is symmetric: mirror images carry the same weight, whatever the density ---- *)
Theorem C14_window_symmetric : forall (dens : Q -> Q) (maxd ew ns : Q) (i j : Z),
  0 <= maxd -> 0 < ew -> 0 < ns ->
  let w := make_window dens maxd ew ns in
  (0 <= i < w_rows w)%Z -> (0 <= j < w_cols w)%Z ->
  nth (lin (w_cols w) (w_rows w - 1 - i) j) (w_prob w) 0 = nth (lin (w_cols w) i j) (w_prob w) 0 /\
  nth (lin (w_cols w) i (w_cols w - 1 - j)) (w_prob w) 0 = nth (lin (w_cols w) i j) (w_prob w) 0 /\
  nth (lin (w_cols w) (w_rows w - 1 - i) (w_cols w - 1 - j)) (w_prob w) 0 = nth (lin (w_cols w) i j) (w_prob w) 0.
Proof. exact window_symmetric. Qed.
Print Assumptions C14_window_symmetric.

(* the constructed window has non-negative weights that sum to 1, i.e. the
   theorems above apply to it *)
Theorem C14_window_normalised : forall (dens : Q -> Q) (maxd ew ns : Q),
  0 <= maxd -> 0 < ew -> 0 < ns -> (forall d, 0 <= dens d) ->
  0 < qsum (raw_weights dens (win_rows maxd ew ns) (win_cols maxd ew ns) ew ns) ->
  window_ok (make_window dens maxd ew ns).
Proof. exact make_window_ok. Qed.
Print Assumptions C14_window_normalised.

(* mirror-image cells of the window receive the same number of dispersers up to one *)
Theorem C14_mirror_cells : forall (dens : Q -> Q) (maxd ew ns : Q) (n : positive) (row col : Z) (st0 : kstate Q) (t : nat),
  0 <= maxd -> 0 < ew -> 0 < ns ->
  let w := make_window dens maxd ew ns in
  window_ok w -> is_new_source row col st0 -> (t <= Pos.to_nat n)%nat ->
  let out := fst (qrun w (repeat (row, col, Z.pos n) t) st0) in
  forall i j i' j', (0 <= i < w_rows w)%Z -> (0 <= j < w_cols w)%Z ->
    (i' = i \/ i' = w_rows w - 1 - i)%Z -> (j' = j \/ j' = w_cols w - 1 - j)%Z ->
    let a := count_cell (cell_of w row col (lin (w_cols w) i j)) out in
    let b := count_cell (cell_of w row col (lin (w_cols w) i' j')) out in
    (a <= S b)%nat /\ (b <= S a)%nat.
Proof. exact allot_mirror_cells. Qed.
Print Assumptions C14_mirror_cells.

(* ---- the allocation starts afresh for every new source cell ---- *)
(* Neither the returned cells nor the final state of any sequence of calls that
   begins with a new source cell depend on what the kernel did before ... *)
Theorem C14_fresh_per_source : forall (w : window Q) (row col nz : Z) (calls : list (Z * Z * Z)) (st st' : kstate Q),
  is_new_source row col st -> is_new_source row col st' ->
  qrun w ((row, col, nz) :: calls) st = qrun w ((row, col, nz) :: calls) st'.
Proof. exact fresh_per_source_run. Qed.
Print Assumptions C14_fresh_per_source.

(* ... it restarts from the original weights with 1/n of the new source. *)
Theorem C14_fresh_state : forall (w : window Q) (row col nz : Z) (st : kstate Q),
  is_new_source row col st ->
  qcall w row col nz st = qcall w row col nz (mkkstate row col (Qinv_n nz) (w_prob w)).
Proof. exact fresh_state_after_reset. Qed.
Print Assumptions C14_fresh_state.

(* REFUTED for the same cell arriving again as a source (the test is on row and
   column only): a second batch of n dispersers from the same cell, through an
   interface that keeps the kernel object between spread steps, continues the
   previous allotment and misses the shares.  Finding C14.fresh.same_cell_again. *)
Theorem C14_fresh_same_cell_again_refuted :
  exists (w : window Q) (n : positive) (row col : Z),
    window_ok w /\
    let out := fst (qrun w (repeat (row, col, Z.pos n) (2 * Pos.to_nat n)) (qinit w)) in
    let second := skipn (Pos.to_nat n) out in
    exists c, (c < length (w_prob w))%nat /\
      inject_Z (Z.of_nat (count_cell (cell_of w row col c) second)) < inject_Z (Z.pos n) * nth c (w_prob w) 0 - 1.
Proof. exact fresh_same_cell_again_refuted. Qed.
Print Assumptions C14_fresh_same_cell_again_refuted.

(* ---- window size ---- *)
(* 2 h + 1 columns (rows), h = the least number of cells that reaches the
   maximum distance east-west (north-south); the centre is cell (h_r, h_c) *)
Theorem C14_window_size : forall maxd ew ns, 0 <= maxd -> 0 < ew -> 0 < ns ->
  let hc := win_half maxd ew in let hr := win_half maxd ns in
  win_cols maxd ew ns = (2 * hc + 1)%Z /\ win_rows maxd ew ns = (2 * hr + 1)%Z /\
  (0 <= hc)%Z /\ (0 <= hr)%Z /\
  mid (win_cols maxd ew ns) = hc /\ mid (win_rows maxd ew ns) = hr /\
  maxd <= inject_Z hc * ew /\ (inject_Z hc - 1) * ew < maxd /\
  maxd <= inject_Z hr * ns /\ (inject_Z hr - 1) * ns < maxd.
Proof. exact window_size. Qed.
Print Assumptions C14_window_size.

(* the size and centre statements of the header, as translated on this run, are the model's *)
Theorem C14_window_size_is_the_headers : forall maxd ew ns rows cols,
  DetWindow.det_number_of_columns maxd ew ns = win_cols maxd ew ns /\
  DetWindow.det_number_of_rows maxd ew ns = win_rows maxd ew ns /\
  DetWindow.det_mid_row rows cols = mid rows /\ DetWindow.det_mid_col rows cols = mid cols.
Proof. intros maxd ew ns rows cols. exact (conj (generated_number_of_columns maxd ew ns) (conj (generated_number_of_rows maxd ew ns) (generated_mid rows cols))).
Qed.
Print Assumptions C14_window_size_is_the_headers.

(* ---- distance: rows are scaled by the north-south, columns by the east-west resolution ---- *)
Theorem C14_distance_axes : forall rows cols ew ns di dj,
  dist2 rows cols ew ns (mid rows + di) (mid cols + dj) == (inject_Z di * ns) ^ 2 + (inject_Z dj * ew) ^ 2.
Proof. exact distance_axes. Qed.
Print Assumptions C14_distance_axes.

(* the distance statement of the header, as translated on this run, is the
   model's (this is the obligation that breaks while the header swaps the two) *)
Theorem C14_distance_is_the_headers : forall rows cols ew ns i j,
  DetWindow.det_distance_sq (mid rows) (mid cols) i j ew ns == dist2 rows cols ew ns i j.
Proof. exact generated_distance. Qed.
Print Assumptions C14_distance_is_the_headers.

(* ---- the quantile function is the inverse of the cdf of the same density ---- *)
(* PARTIAL: proved for the five kernels whose `icdf` is an exact closed form
   (Cauchy, exponential, Weibull, logistic, hyperbolic secant); refuted for the
   power law (below).  Not proved: normal and log-normal (`icdf` is Winitzki's
   approximation of the inverse error function, relative error about 2e-3),
   gamma (Newton iteration on an Erlang cdf) and exponential power (through the
   gamma iteration): no exact statement holds; the check tests them numerically. *)
Theorem C14_quantile_is_inverse_cdf_partial :
  (forall s, (0 < s)%R -> quantile_is_inverse_cdf (cauchy_cdf s) (KernelFormulas.cauchy_pdf s) (KernelFormulas.cauchy_icdf s) (fun _ => True)) /\
  (forall beta, (0 < beta)%R -> quantile_is_inverse_cdf (exponential_cdf beta) (KernelFormulas.exponential_pdf beta) (KernelFormulas.exponential_icdf beta) (fun _ => True)) /\
  (forall a b, (0 < a)%R -> (0 < b)%R -> quantile_is_inverse_cdf (weibull_cdf a b) (KernelFormulas.weibull_pdf a b) (KernelFormulas.weibull_icdf a b) (fun x => (0 < x)%R)) /\
  (forall s, (0 < s)%R -> quantile_is_inverse_cdf (logistic_cdf s) (KernelFormulas.logistic_pdf s) (KernelFormulas.logistic_icdf s) (fun _ => True)) /\
  (forall sigma, (0 < sigma)%R -> quantile_is_inverse_cdf (hyperbolic_secant_cdf sigma) (KernelFormulas.hyperbolic_secant_pdf sigma) (KernelFormulas.hyperbolic_secant_icdf sigma) (fun _ => True)).
Proof. exact closed_form_quantiles. Qed.
Print Assumptions C14_quantile_is_inverse_cdf_partial.

(* the same per kernel, with the value that anchors the cdf *)
Theorem C14_quantile_cauchy : forall s, (0 < s)%R ->
  quantile_is_inverse_cdf (cauchy_cdf s) (KernelFormulas.cauchy_pdf s) (KernelFormulas.cauchy_icdf s) (fun _ => True)
  /\ cauchy_cdf s 0 = (1 / 2)%R.
Proof. exact cauchy_quantile. Qed.
Print Assumptions C14_quantile_cauchy.

Theorem C14_quantile_exponential : forall beta, (0 < beta)%R ->
  quantile_is_inverse_cdf (exponential_cdf beta) (KernelFormulas.exponential_pdf beta) (KernelFormulas.exponential_icdf beta) (fun _ => True)
  /\ exponential_cdf beta 0 = 0%R.
Proof. exact exponential_quantile. Qed.
Print Assumptions C14_quantile_exponential.

(* a = shape, b = scale as in the class; holds for the repaired header
   (notes/findings/C14_weibull_icdf.md) *)
Theorem C14_quantile_weibull : forall a b, (0 < a)%R -> (0 < b)%R ->
  quantile_is_inverse_cdf (weibull_cdf a b) (KernelFormulas.weibull_pdf a b) (KernelFormulas.weibull_icdf a b) (fun x => (0 < x)%R)
  /\ (forall u, (0 < u < 1)%R -> (0 < KernelFormulas.weibull_icdf a b u)%R).
Proof. exact weibull_quantile. Qed.
Print Assumptions C14_quantile_weibull.

Theorem C14_quantile_logistic : forall s, (0 < s)%R ->
  quantile_is_inverse_cdf (logistic_cdf s) (KernelFormulas.logistic_pdf s) (KernelFormulas.logistic_icdf s) (fun _ => True)
  /\ logistic_cdf s 0 = (1 / 2)%R.
Proof. exact logistic_quantile. Qed.
Print Assumptions C14_quantile_logistic.

Theorem C14_quantile_hyperbolic_secant : forall sigma, (0 < sigma)%R ->
  quantile_is_inverse_cdf (hyperbolic_secant_cdf sigma) (KernelFormulas.hyperbolic_secant_pdf sigma) (KernelFormulas.hyperbolic_secant_icdf sigma) (fun _ => True)
  /\ hyperbolic_secant_cdf sigma 0 = (1 / 2)%R.
Proof. exact hyperbolic_secant_quantile. Qed.
Print Assumptions C14_quantile_hyperbolic_secant.

(* REFUTED for the power law: alpha = 2, xmin = 1, u = 1/2 gives icdf = 2 and
   cdf 2 = 2/3.  Finding C14.quantile.power_law. *)
Theorem C14_quantile_power_law_refuted :
  exists alpha xmin u, (1 < alpha)%R /\ (0 < xmin)%R /\ (0 < u < 1)%R /\
    power_law_cdf alpha xmin (KernelFormulas.power_law_icdf alpha xmin u) <> u.
Proof. exact power_law_icdf_refuted. Qed.
Print Assumptions C14_quantile_power_law_refuted.

(* what holds: power_law_cdf is the cdf of the class's density, and its quantile
   function is xmin ((1 - u)^(-1/(alpha-1)) - 1) *)
Theorem C14_power_law_density_and_quantile : forall alpha xmin, (1 < alpha)%R -> (0 < xmin)%R ->
  quantile_is_inverse_cdf (power_law_cdf alpha xmin) (KernelFormulas.power_law_pdf alpha xmin) (power_law_quantile alpha xmin) (fun x => (0 <= x)%R)
  /\ power_law_cdf alpha xmin 0 = 0%R.
Proof. exact power_law_density_and_quantile. Qed.
Print Assumptions C14_power_law_density_and_quantile.

(* ---- non-vacuity ---- *)
(* A window built by the model for rectangular cells (ew 10, ns 30, maximum
   distance 25: 3 rows x 7 columns) with density 1 / (1 + (d/10)^2) satisfies
   the hypotheses; 16 dispersers from source cell (5, 5) go 4 to the centre,
   2 + 2 to the east/west neighbours (10 m), 1 + 1 to the north/south
   neighbours (30 m) and 1 to the cell three columns away (30 m), which has
   the same weight as the north/south neighbours. *)
Example C14_nonvacuous :
  let w := make_window (fun d2 => 1 / (1 + d2 / 100)) 25 10 30 in
  let out := fst (qrun w (repeat (5, 5, 16)%Z 16) (qinit w)) in
  w_rows w = 3%Z /\ w_cols w = 7%Z /\ qsum (w_prob w) == 1 /\
  nth (lin 7 0 3) (w_prob w) 0 == nth (lin 7 1 0) (w_prob w) 0 /\
  map (fun c => count_cell c out) [(5, 5); (5, 4); (5, 6); (4, 5); (6, 5); (5, 2)]%Z = [4; 2; 2; 1; 1; 1]%nat.
Proof. vm_compute. repeat split. Qed.
Print Assumptions C14_nonvacuous.
